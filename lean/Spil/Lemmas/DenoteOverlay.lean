/-
  Spil.Lemmas.DenoteOverlay — helper lemmas for `C07.c07_narrow`: the hypotheses of C04's
  all-or-nothing theorem hold for a good narrowing query applied to a canonically typed Sid.
-/
import Spil.Spec.Denote
import Spil.Lemmas.DenoteNarrow
import Spil.Props.C04

namespace DenL

open Spec Ctx

/-- a field value that may take part in an overlay -/
def ValOk (v : Str) : Prop := '/' ∉ v ∧ '\n' ∉ v ∧ '?' ∉ v

theorem narrowValOk_unpack (v : Str) (h : narrowValOk v = true) :
    v.filter (· != '~') ≠ [] ∧ ValOk v := by
  simp only [narrowValOk, Bool.and_eq_true, Bool.not_eq_true', List.isEmpty_eq_false_iff,
    hasChar_false_iff] at h
  exact ⟨h.1.1.1, h.1.1.2, h.1.2, h.2⟩

theorem valOk_filter (v : Str) (q : Char → Bool) (h : ValOk v) : ValOk (v.filter q) :=
  ⟨fun hm => h.1 (List.mem_filter.1 hm).1, fun hm => h.2.1 (List.mem_filter.1 hm).1,
    fun hm => h.2.2 (List.mem_filter.1 hm).1⟩

theorem toDict_nodup (q : Str) (nd : Dict) (h : Query.toDict q = .ok nd) : (nd.map (·.1)).Nodup := by
  unfold Query.toDict at h
  split at h
  · cases h
  · simp only [Except.ok.injEq] at h
    subst h
    exact UpdL.ofPairs_nodup _

theorem update_eq (fields : Dict) (q : Str) (nd : Dict) (h : Query.toDict q = .ok nd) :
    Query.update fields q = .ok (Query.updateGo fields nd) := by
  simp [Query.update, h]

/-- the fields of a canonically typed Sid: distinct keys, values = the segments of the string -/
theorem wellTyped_fields (c : Ctx) (hwf : sidTableOk c.env c.cfg.sid.templates = true) (x : Sid)
    (hx : wellTyped c.env c.cfg.sid.templates x) :
    (x.fields.map (·.1)).Nodup ∧ x.fields ≠ [] ∧
    (∀ p ∈ x.fields, p.2 ∈ Str.splitOn '/' x.string) ∧
    (∀ seg ∈ Str.splitOn '/' x.string, ∃ k, (k, seg) ∈ x.fields) ∧
    (x.fields.length = 1 → ∀ p ∈ x.fields, p.2 = x.string) := by
  obtain ⟨t, hl, hne, hacc, hf⟩ := hx
  have hm := SidL.mem_of_lookup _ _ _ hl
  have hwt := (SidL.tableOk_unpack _ _ hwf _ hm).1
  obtain ⟨hnd, hKne, hlen, hfst, hsnd, hflen⟩ := HierL.typed_facts c.env t hwt x.string hacc
  rw [hf]
  refine ⟨by rw [hfst]; exact hnd, ?_, ?_, ?_, ?_⟩
  · intro h0
    have := congrArg List.length h0
    rw [hflen] at this
    exact hKne (List.length_eq_zero_iff.1 this)
  · intro p hp
    rw [← hsnd]
    exact List.mem_map.2 ⟨p, hp, rfl⟩
  · intro seg hseg
    rw [← hsnd] at hseg
    obtain ⟨p, hp, rfl⟩ := List.mem_map.1 hseg
    exact ⟨p.1, hp⟩
  · intro h1 p hp
    have hseg : p.2 ∈ Str.splitOn '/' x.string := by
      rw [← hsnd]; exact List.mem_map.2 ⟨p, hp, rfl⟩
    rw [hflen] at h1
    rw [← hlen] at h1
    have hj := Str.join_split '/' x.string
    match hsp : Str.splitOn '/' x.string, h1 with
    | [g], _ =>
      rw [hsp] at hseg hj
      simp only [List.mem_singleton] at hseg
      simp only [Str.joinWith] at hj
      rw [hseg, hj]

theorem seg_valOk (s seg : Str) (hseg : seg ∈ Str.splitOn '/' s) (hnl : '\n' ∉ s) (hq : '?' ∉ s) :
    ValOk seg :=
  ⟨Str.splitOn_not_mem '/' s seg hseg,
   fun h => hnl ((Str.splitOn_infix '/' s seg hseg).subset h),
   fun h => hq ((Str.splitOn_infix '/' s seg hseg).subset h)⟩

/-- the overlay of a good query over the fields of a canonically typed Sid -/
theorem overlay_vals (c : Ctx) (hwf : sidTableOk c.env c.cfg.sid.templates = true) (x : Sid)
    (hx : wellTyped c.env c.cfg.sid.templates x) (hnl : '\n' ∉ x.string) (hq : '?' ∉ x.string)
    (nd : Dict) (hnd : (nd.map (·.1)).Nodup) (hok : ∀ p ∈ nd, narrowValOk p.2 = true) :
    ((Query.updateGo x.fields nd).map (·.1)).Nodup ∧
    ∀ k v, (k, v) ∈ Query.updateGo x.fields nd → ValOk v ∧ (v ≠ [] ∨ (k, v) ∈ x.fields) := by
  obtain ⟨hfnd, _, hsegs, _, _⟩ := wellTyped_fields c hwf x hx
  have hond := UpdL.updateGo_nodup nd x.fields hfnd
  refine ⟨hond, ?_⟩
  intro k v hkv
  have hget := HierL.get_of_mem _ hond k v hkv
  rw [UpdL.updateGo_get nd hnd] at hget
  have hdata : x.fields.get k = some v → ValOk v ∧ (v ≠ [] ∨ (k, v) ∈ x.fields) := by
    intro h
    have hm := UpdL.lookup_mem _ _ _ h
    exact ⟨seg_valOk x.string v (hsegs _ hm) hnl hq, Or.inr hm⟩
  cases hn : nd.get k with
  | none => rw [hn] at hget; exact hdata hget
  | some v0 =>
    rw [hn] at hget
    simp only at hget
    obtain ⟨hne0, hv0⟩ := narrowValOk_unpack v0 (hok _ (UpdL.lookup_mem _ _ _ hn))
    split at hget
    · split at hget
      · simp only [Option.some.injEq] at hget
        subst hget
        exact ⟨valOk_filter v0 _ hv0, Or.inl hne0⟩
      · cases hget
    · simp only [Option.some.injEq] at hget
      subst hget
      refine ⟨hv0, Or.inl ?_⟩
      intro h0
      apply hne0
      rw [h0]; rfl

/-- `renderable` for the overlaid values listed in the key order of a template -/
theorem overlay_renderable (c : Ctx) (hwf : sidTableOk c.env c.cfg.sid.templates = true) (x : Sid)
    (hx : wellTyped c.env c.cfg.sid.templates x) (ov : Dict)
    (hkeys : ∀ k, x.fields.hasKey k = true → ov.hasKey k = true)
    (hvals : ∀ k v, (k, v) ∈ ov → ValOk v ∧ (v ≠ [] ∨ (k, v) ∈ x.fields))
    (t : Str × Template) (ht : t ∈ c.cfg.sid.templates) (hk : Dict.keysEq ov (keysOf t.2) = true) :
    renderable (Str.joinWith '/' ((keysOf t.2).map (fun k => (ov.get k).getD []))) := by
  obtain ⟨hfnd, hfne, _, _, hone⟩ := wellTyped_fields c hwf x hx
  have hwt := (SidL.tableOk_unpack _ _ hwf _ ht).1
  obtain ⟨_, hKnd, hKne, _, _⟩ := SidL.tplOk_unpack c.env t.2 hwt
  have hval : ∀ k, ValOk ((ov.get k).getD []) := by
    intro k
    cases hg : ov.get k with
    | none => exact ⟨by simp, by simp, by simp⟩
    | some v => exact (hvals k v (UpdL.lookup_mem _ _ _ hg)).1
  constructor
  · -- non-empty
    have hK : keysOf t.2 ≠ [] := by simpa [keysOf] using hKne
    match hKs : keysOf t.2, hK with
    | [k], _ =>
      simp only [List.map_cons, List.map_nil, Str.joinWith]
      rw [hKs] at hk
      rw [HierL.keysEq_iff] at hk
      -- every key of x is k, hence x has one field
      have hall : ∀ p ∈ x.fields, p.1 = k := by
        intro p hp
        have h1 : x.fields.hasKey p.1 = true := by
          rw [UpdL.hasKey_iff_mem]; exact List.mem_map.2 ⟨p, hp, rfl⟩
        have h2 := hkeys p.1 h1
        rw [UpdL.hasKey_iff_mem] at h2
        simpa using (hk p.1).1 h2
      have hlen1 : x.fields.length = 1 := by
        match hxf : x.fields, hfne with
        | [p], _ => rfl
        | p :: p' :: rest, _ =>
          exfalso
          rw [hxf] at hfnd hall
          simp only [List.map_cons, List.nodup_cons, List.mem_cons, not_or] at hfnd
          exact hfnd.1.1 ((hall p (by simp)).trans (hall p' (by simp)).symm)
      have hkov : k ∈ ov.map (·.1) := (hk k).2 (by simp)
      obtain ⟨⟨k', v⟩, hp, hk'⟩ := List.mem_map.1 hkov
      simp only at hk'
      subst hk'
      -- ov has distinct keys? not needed: `get` returns the first pair with key k'
      cases hg : ov.get k' with
      | none =>
        exfalso
        rw [UpdL.get_eq_none_iff] at hg
        exact hg hkov
      | some v' =>
        simp only [Option.getD_some]
        rcases (hvals k' v' (UpdL.lookup_mem _ _ _ hg)).2 with h | h
        · exact h
        · have := hone hlen1 _ h
          simp only at this
          rw [this]
          exact hx.choose_spec.2.1
    | k1 :: k2 :: rest, _ =>
      simp only [List.map_cons, Str.joinWith]
      intro h0
      have := congrArg List.length h0
      simp at this
  · -- does not end with a line feed
    intro hlast
    have hmem : '\n' ∈ Str.joinWith '/' ((keysOf t.2).map (fun k => (ov.get k).getD [])) :=
      List.mem_of_getLast? hlast
    rcases UpdL.mem_joinWith _ _ _ hmem with h | ⟨p, hp, hc⟩
    · cases h
    · obtain ⟨k, _, rfl⟩ := List.mem_map.1 hp
      exact (hval k).2.1 hc

theorem narrowQueryOk_unpack (q : Str) (h : narrowQueryOk q = true) :
    ∃ nd, Query.toDict q = .ok nd ∧ ∀ p ∈ nd, narrowValOk p.2 = true := by
  unfold narrowQueryOk at h
  split at h
  · next nd hnd => exact ⟨nd, hnd, by simpa [List.all_eq_true] using h⟩
  · cases h

theorem string_no_char (s : Str) (ch : Char) (hch : ch ≠ '/')
    (h : ∀ seg ∈ Str.splitOn '/' s, ch ∉ seg) : ch ∉ s := by
  intro hm
  rw [← Str.join_split '/' s] at hm
  rcases UpdL.mem_joinWith _ _ _ hm with h' | ⟨p, hp, hc⟩
  · exact hch h'
  · exact h p hp hc

/-- a good query applied to a canonically typed Sid: never fails; the result is the refusal or a
    canonically typed Sid carrying the overlay -/
theorem applyGood (c : Ctx) (hwf : sidHierOk c.env c.cfg.sid.templates = true) (x : Sid)
    (hx : wellTyped c.env c.cfg.sid.templates x) (hnl : '\n' ∉ x.string) (hq : '?' ∉ x.string)
    (q : Str) (hqne : q ≠ []) (hok : narrowQueryOk q = true) :
    ∃ nd, Query.toDict q = .ok nd ∧ ∃ x', c.applyQuery x.string q x.type x.fields = .ok x' ∧
      (x' = ⟨x.string ++ '?' :: q, x.type, x.fields⟩ ∨
       (wellTyped c.env c.cfg.sid.templates x' ∧
        (∀ k, x'.fields.get k = (Query.updateGo x.fields nd).get k) ∧
        '\n' ∉ x'.string ∧ '?' ∉ x'.string)) := by
  obtain ⟨htab, _, _, _⟩ := HierL.hier_unpack _ _ hwf
  obtain ⟨nd, hnd, hvok⟩ := narrowQueryOk_unpack q hok
  obtain ⟨hond, hvals⟩ := overlay_vals c htab x hx hnl hq nd (toDict_nodup q nd hnd) hvok
  refine ⟨nd, hnd, ?_⟩
  obtain ⟨y, hy, hcase⟩ := C04.c04_all_or_nothing c x hwf hx q hqne _ (update_eq x.fields q nd hnd)
    (fun t ht hk => overlay_renderable c htab x hx _
      (fun k hk' => UpdL.updateGo_hasKey nd x.fields k hk') hvals t ht hk)
    (fun p hp => (hvals p.1 p.2 hp).1.1)
  refine ⟨y, hy, ?_⟩
  rcases hcase with h | ⟨hwy, hget, _⟩
  · exact Or.inl h
  · right
    obtain ⟨hynd, _, _, hsegs, _⟩ := wellTyped_fields c htab y hwy
    have hseg : ∀ seg ∈ Str.splitOn '/' y.string, ValOk seg := by
      intro seg hs
      obtain ⟨k, hk⟩ := hsegs seg hs
      have h1 := HierL.get_of_mem _ hynd k seg hk
      rw [hget k] at h1
      exact (hvals k seg (UpdL.lookup_mem _ _ _ h1)).1
    exact ⟨hwy, hget, string_no_char _ _ (by decide) (fun seg hs => (hseg seg hs).2.1),
      string_no_char _ _ (by decide) (fun seg hs => (hseg seg hs).2.2)⟩

/-- `get_with(query=q)` on a canonically typed, query-free Sid is `apply_query` on its parts -/
theorem getWithQuery_apply (c : Ctx) (hwf : sidHierOk c.env c.cfg.sid.templates = true) (x : Sid)
    (hx : wellTyped c.env c.cfg.sid.templates x) (hq : '?' ∉ x.string) (q : Str) (hqne : q ≠ []) :
    c.getWithQuery x q = c.applyQuery x.string q x.type x.fields := by
  obtain ⟨htab, _, _, hlab⟩ := HierL.hier_unpack _ _ hwf
  obtain ⟨t, hl, hne, hacc, hf⟩ := hx
  have hm := SidL.mem_of_lookup _ _ _ hl
  have htne := HierL.tableOk_label_ne _ _ htab _ hm
  obtain ⟨hcol, hqt⟩ := hlab _ hm
  simp only at htne hcol hqt
  have hfne : x.fields ≠ [] := by
    rw [hf]
    exact SidL.fieldsOf_ne_nil t x.string (SidL.tplOk_unpack _ _ (SidL.tableOk_unpack _ _ htab _ hm).1).2.2.1
  have huri : x.uri = x.type ++ ':' :: x.string := by simp [Sid.uri, htne]
  have hsplit : Str.split1 '?' (x.uri ++ '?' :: q) = (x.uri, some q) := by
    apply Str.split1_some
    rw [huri]
    simp only [List.mem_append, List.mem_cons, not_or]
    exact ⟨hqt, by decide, hq⟩
  have hqe : q.isEmpty = false := by simp [hqne]
  have hse : x.string.isEmpty = false := by simp [hne]
  have hte : x.type.isEmpty = false := by simp [htne]
  have hfe : x.fields.isEmpty = false := by simp [hfne]
  unfold Ctx.getWithQuery Ctx.sidOfString Ctx.sidToSid
  have hne' : (x.uri ++ '?' :: q).isEmpty = false := by simp
  simp only [hse, hfe, hne', hsplit, Bool.not_false, Bool.and_false, Bool.false_eq_true, if_false]
  rw [huri, Str.split1_some ':' x.type x.string hcol]
  simp only [SidL.sidToDict_forced c htab x.type x.string htne, SidL.forcedDict, hl, hse, hacc, Bool.not_false, Bool.and_self, if_true, Option.map_some,
    Option.getD_some, hqe, hte, Bool.and_false, Bool.false_eq_true, if_false, ← hf]

/-- `get_with(query=q2)` on a refusal `string?q1` re-applies both queries to the original Sid -/
theorem getWithQuery_refused (c : Ctx) (hwf : sidHierOk c.env c.cfg.sid.templates = true) (x : Sid)
    (hx : wellTyped c.env c.cfg.sid.templates x) (hq : '?' ∉ x.string) (q1 q2 : Str) :
    c.getWithQuery ⟨x.string ++ '?' :: q1, x.type, x.fields⟩ q2 =
      c.applyQuery x.string (q1 ++ '?' :: q2) x.type x.fields := by
  obtain ⟨htab, _, _, hlab⟩ := HierL.hier_unpack _ _ hwf
  obtain ⟨t, hl, hne, hacc, hf⟩ := hx
  have hm := SidL.mem_of_lookup _ _ _ hl
  have htne := HierL.tableOk_label_ne _ _ htab _ hm
  obtain ⟨hcol, hqt⟩ := hlab _ hm
  simp only at htne hcol hqt
  have hfne : x.fields ≠ [] := by
    rw [hf]
    exact SidL.fieldsOf_ne_nil t x.string (SidL.tplOk_unpack _ _ (SidL.tableOk_unpack _ _ htab _ hm).1).2.2.1
  have huri : (⟨x.string ++ '?' :: q1, x.type, x.fields⟩ : Sid).uri ++ '?' :: q2 =
      (x.type ++ ':' :: x.string) ++ '?' :: (q1 ++ '?' :: q2) := by
    simp [Sid.uri, htne]
  have hsplit : Str.split1 '?' ((x.type ++ ':' :: x.string) ++ '?' :: (q1 ++ '?' :: q2)) =
      (x.type ++ ':' :: x.string, some (q1 ++ '?' :: q2)) := by
    apply Str.split1_some
    simp only [List.mem_append, List.mem_cons, not_or]
    exact ⟨hqt, by decide, hq⟩
  have hqe : (q1 ++ '?' :: q2).isEmpty = false := by simp
  have hse : x.string.isEmpty = false := by simp [hne]
  have hte : x.type.isEmpty = false := by simp [htne]
  have hfe : x.fields.isEmpty = false := by simp [hfne]
  unfold Ctx.getWithQuery Ctx.sidOfString Ctx.sidToSid
  simp only [huri]
  have hne' : ((x.type ++ ':' :: x.string) ++ '?' :: (q1 ++ '?' :: q2)).isEmpty = false := by simp
  have hse' : (x.string ++ '?' :: q1).isEmpty = false := by simp
  simp only [hse', hfe, hne', hsplit, Bool.not_false, Bool.and_false, Bool.false_eq_true, if_false]
  rw [Str.split1_some ':' x.type x.string hcol]
  simp only [SidL.sidToDict_forced c htab x.type x.string htne, SidL.forcedDict, hl, hse, hacc, Bool.not_false, Bool.and_self, if_true, Option.map_some,
    Option.getD_some, hqe, hte, Bool.and_false, Bool.false_eq_true, if_false, ← hf]

/-! ### `type_narrow` as two narrowing steps -/

theorem basetype_eq (c : Ctx) (x : Sid) (h : x.type ≠ []) : c.basetype x = basetypeOf c x.type := by
  have : x.type.isEmpty = false := by simp [h]
  simp [Ctx.basetype, basetypeOf, this]

/-- `type_narrow` on a typed, query-free Sid: the basetyped step, then the typed step on its result -/
theorem typeNarrow_steps (c : Ctx) (y : Sid) (hq : '?' ∉ y.string) (hty : y.type ≠ []) :
    (∀ e, narrowStep c y (narrowQ1 c y.type) = .error e → c.typeNarrow y = .error e) ∧
    (∀ x1, narrowStep c y (narrowQ1 c y.type) = .ok x1 →
      c.typeNarrow y = narrowStep c x1 (narrowQ2 c x1.type)) := by
  have h1 : Str.hasChar '?' y.string = false := (hasChar_false_iff _ _).2 hq
  have hb := basetype_eq c y hty
  unfold Ctx.typeNarrow narrowStep narrowQ1 narrowQ2
  simp only [h1, Bool.false_eq_true, if_false, hb]
  cases basetypeOf c y.type with
  | none =>
    simp only [List.isEmpty_nil, if_true]
    refine ⟨fun e h => ?_, fun x1 h => ?_⟩
    · cases h
    · simp only [Except.ok.injEq] at h
      subst h; rfl
  | some bt =>
    simp only
    constructor
    · intro e h; rw [h]
    · intro x1 h; rw [h]

theorem narrowOk_unpack (sc : SidConf) (h : narrowOk sc = true) :
    (∀ bt q, sc.basetypedNarrowing.lookup bt = some q → q ≠ [] → narrowQueryOk q = true) ∧
    (∀ ty q, sc.typedNarrowing.lookup ty = some q → q ≠ [] → narrowQueryOk q = true) ∧
    (∀ bt q ty q', sc.basetypedNarrowing.lookup bt = some q → sc.typedNarrowing.lookup ty = some q' →
      q ≠ [] → q' ≠ [] → narrowQueryOk (q ++ '?' :: q') = true) := by
  simp only [narrowOk, Bool.and_eq_true, List.all_eq_true, Bool.or_eq_true, List.isEmpty_iff] at h
  obtain ⟨⟨h1, h2⟩, h3⟩ := h
  refine ⟨?_, ?_, ?_⟩
  · intro bt q hl hne
    rcases h1 _ (UpdL.lookup_mem _ _ _ hl) with h | h
    · exact absurd h hne
    · exact h
  · intro ty q hl hne
    rcases h2 _ (UpdL.lookup_mem _ _ _ hl) with h | h
    · exact absurd h hne
    · exact h
  · intro bt q ty q' hl hl' hne hne'
    rcases h3 _ (UpdL.lookup_mem _ _ _ hl) _ (UpdL.lookup_mem _ _ _ hl') with (h | h) | h
    · exact absurd h hne
    · exact absurd h hne'
    · exact h

theorem narrowQ1_ok (c : Ctx) (hno : narrowOk c.cfg.sid = true) (ty : Str) (hne : narrowQ1 c ty ≠ []) :
    ∃ bt, c.cfg.sid.basetypedNarrowing.lookup bt = some (narrowQ1 c ty) ∧
      narrowQueryOk (narrowQ1 c ty) = true := by
  unfold narrowQ1 at hne ⊢
  cases hb : basetypeOf c ty with
  | none => rw [hb] at hne; exact absurd rfl hne
  | some bt =>
    rw [hb] at hne
    simp only at hne ⊢
    cases hl : c.cfg.sid.basetypedNarrowing.lookup bt with
    | none => rw [hl] at hne; exact absurd rfl hne
    | some q =>
      rw [hl] at hne
      simp only [Option.getD_some] at hne ⊢
      exact ⟨bt, hl, (narrowOk_unpack _ hno).1 bt q hl hne⟩

theorem narrowQ2_ok (c : Ctx) (hno : narrowOk c.cfg.sid = true) (ty : Str) (hne : narrowQ2 c ty ≠ []) :
    c.cfg.sid.typedNarrowing.lookup ty = some (narrowQ2 c ty) ∧ narrowQueryOk (narrowQ2 c ty) = true := by
  unfold narrowQ2 at hne ⊢
  cases hl : c.cfg.sid.typedNarrowing.lookup ty with
  | none => rw [hl] at hne; exact absurd rfl hne
  | some q =>
    rw [hl] at hne
    simp only [Option.getD_some] at hne ⊢
    exact ⟨trivial, (narrowOk_unpack _ hno).2.1 ty q hl hne⟩

/-- a Sid `type_narrow` may return for a good configuration: it shows an un-applied query (and is
    dropped by `unfold_search`), or it is canonically typed, query-free and line-feed-free -/
def NarrowGood (c : Ctx) (x : Sid) : Prop :=
  '?' ∈ x.string ∨ (wellTyped c.env c.cfg.sid.templates x ∧ '\n' ∉ x.string ∧ '?' ∉ x.string)

/-- one narrowing step on a canonically typed Sid, for a good query -/
theorem narrowStep_good (c : Ctx) (hwf : sidHierOk c.env c.cfg.sid.templates = true) (x : Sid)
    (hx : wellTyped c.env c.cfg.sid.templates x) (hnl : '\n' ∉ x.string) (hq : '?' ∉ x.string)
    (q : Str) (hok : q ≠ [] → narrowQueryOk q = true) :
    ∃ x', narrowStep c x q = .ok x' ∧
      (x' = x ∧ q = [] ∨ (q ≠ [] ∧ x' = ⟨x.string ++ '?' :: q, x.type, x.fields⟩) ∨
       (wellTyped c.env c.cfg.sid.templates x' ∧ '\n' ∉ x'.string ∧ '?' ∉ x'.string)) := by
  unfold narrowStep
  by_cases hqe : q = []
  · subst hqe
    exact ⟨x, rfl, Or.inl ⟨rfl, rfl⟩⟩
  · have : q.isEmpty = false := by simp [hqe]
    simp only [this, Bool.false_eq_true, if_false]
    rw [getWithQuery_apply c hwf x hx hq q hqe]
    obtain ⟨nd, _, x', hx', hcase⟩ := applyGood c hwf x hx hnl hq q hqe (hok hqe)
    refine ⟨x', hx', ?_⟩
    rcases hcase with h | ⟨h1, _, h2, h3⟩
    · exact Or.inr (Or.inl ⟨hqe, h⟩)
    · exact Or.inr (Or.inr ⟨h1, h2, h3⟩)

/-- `type_narrow` on a canonically typed Sid, for a good configuration: total, and the result is
    `NarrowGood` -/
theorem typeNarrow_good (c : Ctx) (hwf : sidHierOk c.env c.cfg.sid.templates = true)
    (hno : narrowOk c.cfg.sid = true) (y : Sid) (hy : wellTyped c.env c.cfg.sid.templates y)
    (hnl : '\n' ∉ y.string) (hq : '?' ∉ y.string) :
    ∃ x, c.typeNarrow y = .ok x ∧ NarrowGood c x := by
  obtain ⟨htab, _, _, _⟩ := HierL.hier_unpack _ _ hwf
  have hty : y.type ≠ [] := by
    obtain ⟨t, hl, _⟩ := hy
    exact HierL.tableOk_label_ne _ _ htab _ (SidL.mem_of_lookup _ _ _ hl)
  obtain ⟨_, hsteps⟩ := typeNarrow_steps c y hq hty
  obtain ⟨x1, hx1, hcase⟩ := narrowStep_good c hwf y hy hnl hq (narrowQ1 c y.type)
    (fun hne => (narrowQ1_ok c hno y.type hne).choose_spec.2)
  rw [hsteps x1 hx1]
  -- the second step on a canonically typed Sid
  have second : ∀ z, wellTyped c.env c.cfg.sid.templates z → '\n' ∉ z.string → '?' ∉ z.string →
      ∃ x, narrowStep c z (narrowQ2 c z.type) = .ok x ∧ NarrowGood c x := by
    intro z hz hznl hzq
    obtain ⟨x, hx, hc⟩ := narrowStep_good c hwf z hz hznl hzq (narrowQ2 c z.type)
      (fun hne => (narrowQ2_ok c hno z.type hne).2)
    refine ⟨x, hx, ?_⟩
    rcases hc with ⟨rfl, _⟩ | ⟨_, rfl⟩ | h
    · exact Or.inr ⟨hz, hznl, hzq⟩
    · exact Or.inl (by simp)
    · exact Or.inr h
  rcases hcase with ⟨rfl, _⟩ | ⟨hq1, rfl⟩ | ⟨h1, h2, h3⟩
  · exact second x1 hy hnl hq
  · -- the first narrowing was refused: the second step re-applies both queries
    simp only
    unfold narrowStep
    by_cases hq2 : narrowQ2 c y.type = []
    · rw [hq2]
      exact ⟨_, rfl, Or.inl (by simp)⟩
    · have : (narrowQ2 c y.type).isEmpty = false := by simp [hq2]
      simp only [this, Bool.false_eq_true, if_false]
      rw [getWithQuery_refused c hwf y hy hq]
      obtain ⟨bt, hl1, _⟩ := narrowQ1_ok c hno y.type hq1
      obtain ⟨hl2, _⟩ := narrowQ2_ok c hno y.type hq2
      have hok := (narrowOk_unpack _ hno).2.2 bt _ y.type _ hl1 hl2 hq1 hq2
      obtain ⟨nd, _, x', hx', hc⟩ := applyGood c hwf y hy hnl hq _ (by simp) hok
      refine ⟨x', hx', ?_⟩
      rcases hc with rfl | ⟨h1, _, h2, h3⟩
      · exact Or.inl (by simp)
      · exact Or.inr ⟨h1, h2, h3⟩
  · exact second x1 h1 h2 h3

end DenL
