/-
  Spil.Lemmas.DenoteExpand — helper lemmas for C07c: `expand` on ONE plain string, read through
  `Spec.DenotesPlain` / `Spec.MalformedPlain`.
-/
import Spil.Spec.Denote
import Spil.Lemmas.Expand
import Spil.Props.C07b
import Spil.Props.C04

namespace DenL

open Spec Ctx ExpL

/-- the leaf key of the root, as the model computes it -/
theorem rootLeafKey_eq (c : Ctx) (hwf : sidTableOk c.env c.cfg.sid.templates = true) (root : Str) :
    rootLeafKey c root =
      match c.basetype (plainOf c root) with
      | none => none
      | some bt =>
        match c.cfg.sid.leafKey (some bt) with
        | none => none
        | some lk => if lk.isEmpty then none else some lk := by
  unfold rootLeafKey plainOf
  by_cases hr : root.isEmpty = true
  · simp [hr, Ctx.basetype, Sid.empty]
  · simp only [hr, Bool.false_eq_true, if_false]
    unfold plainSid
    cases hf : firstAccepting c.env c.cfg.sid.templates root with
    | none => simp [Ctx.basetype, Sid.untyped]
    | some q =>
      obtain ⟨l, t⟩ := q
      have hmem := (SidL.firstAccepting_some _ _ _ _ _ hf).1
      have hne := HierL.tableOk_label_ne _ _ hwf (l, t) hmem
      have : l.isEmpty = false := by simp [hne]
      simp only [Ctx.basetype, this, Bool.false_eq_true, if_false, basetypeOf]
      rfl

/-- `expand` on a plain string with exactly one "/**": SpilException exactly when the root has no
    leaf key; otherwise a result -/
theorem expand_one (c : Ctx) (hwf : sidHierOk c.env c.cfg.sid.templates = true) (a : Str)
    (hq : '?' ∉ a) (hc : ':' ∉ a) (h1 : Str.count a ['/', '*', '*'] = 1) :
    (rootLeafKey c (rootOf a) = none ∧ c.expand a false = .error .spil) ∨
    (∃ lk r, rootLeafKey c (rootOf a) = some lk ∧ c.expand a false = .ok r) := by
  obtain ⟨htab, _, _, _⟩ := HierL.hier_unpack _ _ hwf
  obtain ⟨x, b, hs, hfill, hroot⟩ := fill_decomp a h1
  rw [expand_unfold c htab a hq hc h1, rootLeafKey_eq c htab]
  cases hb : c.basetype (plainOf c (rootOf a)) with
  | none => exact Or.inl ⟨rfl, rfl⟩
  | some bt =>
    simp only
    cases hlk : c.cfg.sid.leafKey (some bt) with
    | none => exact Or.inl ⟨rfl, by simp⟩
    | some lk =>
      by_cases hle : lk = []
      · subst hle
        exact Or.inl ⟨by simp, by simp⟩
      · right
        have hqf : ∀ k, '?' ∉ fill a k := by
          intro k
          rw [hfill k]
          exact fill_no_query x b k '?' (by decide) (by decide) (hs ▸ hq)
        have hcount := fun p hp k d => fill_count c htab a x b hs hfill p hp k d
        obtain ⟨st, hgo, _⟩ := expandGo_spec c hwf a hqf (some lk) hcount
          c.cfg.sid.templates ⟨[], [], []⟩ (fun _ h => h) (inv_init c a (some lk))
        refine ⟨lk, Ctx.sortSids st.result, by simp [hle], ?_⟩
        have hcond : ((some lk : Option Str).isNone || (some lk == some ([] : Str))) = false := by
          simp [hle]
        rw [hcond, hgo]
        simp

theorem count_ge_two_error (c : Ctx) (a : Str) (h2 : 2 ≤ Str.count a ['/', '*', '*']) :
    c.expand a false = .error .spil := by
  have h0 : (Str.count a ['/', '*', '*'] == 0) = false := by
    simp only [beq_eq_false_iff_ne]; omega
  have h1 : Str.count a ['/', '*', '*'] > 1 := by omega
  unfold Ctx.expand
  simp [h0, h1]

/-- the untyped results of typing a plain string are harmless place holders -/
def Leftover (x : Sid) : Prop := ∃ u, x = Sid.untyped u ∧ '?' ∉ u ∧ ':' ∉ u

theorem forcedSid_cases (c : Ctx) (hwf : sidTableOk c.env c.cfg.sid.templates = true) (l u : Str)
    (hq : '?' ∉ u) (hc : ':' ∉ u) :
    (forcedSid c.env c.cfg.sid.templates l u).typed = true ∨
      Leftover (forcedSid c.env c.cfg.sid.templates l u) := by
  rcases forcedSid_uri c.env c.cfg.sid.templates l u with hy | ⟨t, hl, hy⟩
  · exact Or.inr ⟨u, hy, hq, hc⟩
  · left
    rw [hy]
    have hmem := SidL.mem_of_lookup _ _ _ hl
    have := SidL.fieldsOf_ne_nil t u (SidL.tplOk_unpack _ _ (SidL.tableOk_unpack _ _ hwf _ hmem).1).2.2.1
    simpa [Sid.typed] using this

theorem plainOf_cases (c : Ctx) (hwf : sidTableOk c.env c.cfg.sid.templates = true) (a : Str)
    (hq : '?' ∉ a) (hc : ':' ∉ a) :
    (plainOf c a).typed = true ∨ Leftover (plainOf c a) := by
  unfold plainOf
  split
  · next he =>
    right
    rw [List.isEmpty_iff] at he
    subst he
    exact ⟨[], rfl, by simp, by simp⟩
  · unfold plainSid
    split
    · next l t hf =>
      left
      have hmem := (SidL.firstAccepting_some _ _ _ _ _ hf).1
      have := SidL.fieldsOf_ne_nil t a (SidL.tplOk_unpack _ _ (SidL.tableOk_unpack _ _ hwf _ hmem).1).2.2.1
      simpa [Sid.typed] using this
    · exact Or.inr ⟨a, rfl, hq, hc⟩

theorem leftover_untyped {x : Sid} (h : Leftover x) : x.typed = false := by
  obtain ⟨u, rfl, _, _⟩ := h
  rfl

/-- a typed search of a template is not a leftover, and is determined by its uri -/
theorem typedAs_uri_inj (c : Ctx) (hwf : sidHierOk c.env c.cfg.sid.templates = true)
    (p q : Str × Template) (hp : p ∈ c.cfg.sid.templates) (hq : q ∈ c.cfg.sid.templates) (u v : Str)
    (h : (typedAs p.1 p.2 u).uri = (typedAs q.1 q.2 v).uri) : typedAs p.1 p.2 u = typedAs q.1 q.2 v := by
  obtain ⟨htab, _, _, hlab⟩ := HierL.hier_unpack _ _ hwf
  have hnp := HierL.tableOk_label_ne _ _ htab p hp
  have hnq := HierL.tableOk_label_ne _ _ htab q hq
  obtain ⟨h1, h2⟩ := C14.c14_uri_inj (typedAs p.1 p.2 u) (typedAs q.1 q.2 v) (hlab p hp).1 (hlab q hq).1
    (fun e => absurd e hnp) (fun e => absurd e hnq) h
  simp only [typedAs] at h1 h2
  obtain ⟨l, t⟩ := p
  obtain ⟨l', t'⟩ := q
  simp only at h1 h2
  subst h1 h2
  rw [tpl_unique c htab l t t' hp hq]

theorem leftover_uri_ne (c : Ctx) (hwf : sidHierOk c.env c.cfg.sid.templates = true)
    (p : Str × Template) (hp : p ∈ c.cfg.sid.templates) (u : Str) (x : Sid) (hx : Leftover x) :
    x.uri ≠ (typedAs p.1 p.2 u).uri := by
  obtain ⟨htab, _, _, _⟩ := HierL.hier_unpack _ _ hwf
  have hnp := HierL.tableOk_label_ne _ _ htab p hp
  obtain ⟨v, rfl, _, hc⟩ := hx
  intro h
  have e : (typedAs p.1 p.2 u).uri = p.1 ++ ':' :: u := by simp [typedAs, Sid.uri, hnp]
  rw [e] at h
  simp only [Sid.untyped, Sid.uri, List.isEmpty_nil, if_true] at h
  apply hc
  rw [h]; simp

/-- STAGE B: `expand` on one plain string -/
theorem expand_plain (c : Ctx) (hwf : sidHierOk c.env c.cfg.sid.templates = true) (a : Str)
    (hq : '?' ∉ a) (hc : ':' ∉ a) (hr : ¬ ['/', '*'] <+: a) :
    (MalformedPlain c a → c.expand a false = .error .spil) ∧
    (¬ MalformedPlain c a → ∃ r, c.expand a false = .ok r ∧
       (∀ x, (x ∈ r ∧ x.typed = true) ↔ DenotesPlain c a x) ∧
       (∀ x ∈ r, x.typed = true ∨ Leftover x)) := by
  obtain ⟨htab, _, _, _⟩ := HierL.hier_unpack _ _ hwf
  simp only [MalformedPlain, DenotesPlain, slashStars]
  have hcases : Str.count a ['/', '*', '*'] = 0 ∨ Str.count a ['/', '*', '*'] = 1 ∨
      2 ≤ Str.count a ['/', '*', '*'] := by
    omega
  rcases hcases with h0 | h1 | h2
  · -- no "/**"
    have hnm : ¬ (2 ≤ Str.count a ['/', '*', '*'] ∨
        (Str.count a ['/', '*', '*'] = 1 ∧ rootLeafKey c (rootOf a) = none)) := by
      rintro (h | ⟨h, _⟩) <;> omega
    refine ⟨fun h => absurd h hnm, fun _ => ?_⟩
    obtain ⟨r, hr'⟩ := C07.c07_simple_typing_total c hwf a hq hc
    have he : c.expand a false = .ok r := by
      rw [C07.c07_expand_plain c a h0 false]; exact hr'
    refine ⟨r, he, ?_, ?_⟩
    · intro x
      rw [C07.c07_simple_typing c hwf a hq hc hr r hr' x]
      constructor
      · rintro ⟨p, hp, hacc, hne, rfl⟩
        exact Or.inl ⟨h0, hne, p, hp, hacc, rfl⟩
      · rintro (⟨_, hne, p, hp, hacc, rfl⟩ | ⟨h1, _⟩)
        · exact ⟨p, hp, hacc, hne, rfl⟩
        · omega
    · intro x hx
      obtain ⟨a', _, heq⟩ := simpleTyping_eq c hwf a hq hc
      rw [heq] at hr'
      simp only [Except.ok.injEq] at hr'
      subst hr'
      have hplain : ∀ x ∈ [plainOf c a], x.typed = true ∨ Leftover x := by
        intro x hx
        simp only [List.mem_singleton] at hx
        subst hx
        exact plainOf_cases c htab a hq hc
      split at hx
      · exact hplain x hx
      · split at hx
        · exact hplain x hx
        · have hx' := mem_sortSids hx
          obtain ⟨⟨l, d⟩, _, rfl⟩ := List.mem_map.1 hx'
          exact forcedSid_cases c htab l a hq hc
  · -- one "/**"
    obtain ⟨hroot, hsp⟩ := expand_spec c hwf a hq hc h1
    rcases expand_one c hwf a hq hc h1 with ⟨hnone, herr⟩ | ⟨lk, r, hsome, hok⟩
    · exact ⟨fun _ => herr, fun hnm => absurd (Or.inr ⟨h1, hnone⟩) hnm⟩
    · refine ⟨?_, fun _ => ⟨r, hok, ?_⟩⟩
      · rintro (h | ⟨_, h⟩)
        · omega
        · rw [hsome] at h; cases h
      -- the leftovers
      have hleft : ∀ x ∈ r, x.typed = true ∨ Leftover x := by
        intro x hx
        rcases hsp with he | ⟨bt, lk', st, _, _, he, hinv, _, _, _⟩
        · rw [he] at hok; cases hok
        · rw [he] at hok
          simp only [Except.ok.injEq] at hok
          subst hok
          obtain ⟨u, hu, l, d, _, _, rfl⟩ := hinv.result_sound x (mem_sortSids hx)
          obtain ⟨k, rfl⟩ := hinv.tested_fill u hu
          obtain ⟨x0, b, hs, hfill, _⟩ := fill_decomp a h1
          rw [hfill k]
          exact forcedSid_cases c htab l _
            (fill_no_query x0 b k '?' (by decide) (by decide) (hs ▸ hq))
            (fill_no_query x0 b k ':' (by decide) (by decide) (hs ▸ hc))
      -- what `rootLeafKey = some lk` means for the model
      have hrk := rootLeafKey_eq c htab (rootOf a)
      rw [hsome] at hrk
      have hsound : ∀ x, x ∈ r → x.typed = true → DenotesPlain c a x := by
        simp only [DenotesPlain, slashStars]
        intro x hx ht
        obtain ⟨k, p, hp, rootSid, bt, lk', hrs, hbt, hlk, hleaf, hacc, rfl⟩ :=
          C07.c07_expand_sound c hwf a hq hc h1 r hok x hx ht
        rw [hroot] at hrs
        simp only [Except.ok.injEq] at hrs
        subst hrs
        rw [hbt] at hrk
        simp only [hlk] at hrk
        have hlk' : lk' = lk := by
          split at hrk
          · cases hrk
          · exact (Option.some.inj hrk).symm
        subst hlk'
        exact Or.inr ⟨h1, lk', k, hsome, p, hp, hleaf, hacc, rfl⟩
      refine ⟨fun x => ⟨fun ⟨hx, ht⟩ => hsound x hx ht, ?_⟩, hleft⟩
      rintro (⟨h0, _⟩ | ⟨_, lk2, k, hlk2, p, hp, hleaf, hacc, rfl⟩)
      · omega
      · rw [hsome] at hlk2
        simp only [Option.some.injEq] at hlk2
        subst hlk2
        -- invert the model's computation of the leaf key
        cases hbt : c.basetype (plainOf c (rootOf a)) with
        | none => rw [hbt] at hrk; cases hrk
        | some bt =>
          rw [hbt] at hrk
          simp only at hrk
          cases hlk : c.cfg.sid.leafKey (some bt) with
          | none => rw [hlk] at hrk; cases hrk
          | some lk' =>
            rw [hlk] at hrk
            simp only at hrk
            have hlk' : lk' = lk := by
              split at hrk
              · cases hrk
              · exact (Option.some.inj hrk).symm
            subst hlk'
            obtain ⟨y, hy, huri⟩ := C07.c07_expand_complete c hwf a hq hc h1 r hok _ bt lk' hroot hbt hlk
              k p hp hleaf hacc
            rcases hleft y hy with hty | hlo
            · rcases hsound y hy hty with ⟨h0, _⟩ | ⟨_, _, k', _, p', hp', _, _, rfl⟩
              · simp only [slashStars] at h0; omega
              · have := typedAs_uri_inj c hwf p' p hp' hp _ _ huri
                rw [this] at hy hty
                exact ⟨hy, hty⟩
            · exact absurd huri (leftover_uri_ne c hwf p hp _ y hlo)
  · -- two or more "/**"
    exact ⟨fun _ => count_ge_two_error c a h2, fun hnm => absurd (Or.inl h2) hnm⟩

end DenL
