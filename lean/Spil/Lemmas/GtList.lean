/-
  Spil.Lemmas.GtList — `FindByGlob.sorted_search` / `do_find` over an arbitrary star search, the
  list Finder's star search for one pattern, and the string of a re-resolved '>' ↦ '*' uri.
-/
import Spil.Lemmas.GtPick
import Spil.Lemmas.StrSplit

namespace GtL

open Spec Find

/-! ### `sorted_search` / `do_find` over any star search -/

/-- the '>' branch of `do_find`: the index comes from the FIRST search, every search is
    re-resolved with '>' ↦ '*' and star-searched on its own, the concatenation is picked from -/
theorem doFindGlob_gt_eq (c : Ctx) (star : List Str → Except Err (List Str)) (s0 : Sid)
    (rest : List Sid) (idx : Nat) (hidx : GtAt idx s0.string) :
    c.doFindGlob star (s0 :: rest) =
      match Ctx.flatMapE (fun x => match c.strOfUri (gtStar x.uri) with
          | .error e => .error e
          | .ok s => star [s]) (s0 :: rest) with
      | .error e => .error e
      | .ok founds => .ok (sortedPick idx founds) := by
  have hany : (s0 :: rest).any (fun x => Str.hasChar '>' x.string) = true := by
    simp [hasChar_of_gtAt idx s0.string hidx]
  unfold GtAt at hidx
  simp only [Ctx.doFindGlob, List.isEmpty_cons, Bool.false_eq_true, if_false, hany, if_true,
    Ctx.sortedSearch, hidx]
  rfl

theorem doFindGlob_gt (c : Ctx) (star : List Str → Except Err (List Str)) (s0 : Sid)
    (rest : List Sid) (idx : Nat) (hidx : GtAt idx s0.string) (pats : List Str)
    (hres : Ctx.mapE (fun x => c.strOfUri (gtStar x.uri)) (s0 :: rest) = .ok pats)
    (outs : List (List Str)) (hstar : Ctx.mapE (fun p => star [p]) pats = .ok outs) :
    c.doFindGlob star (s0 :: rest) = .ok (sortedPick idx outs.flatten) := by
  rw [doFindGlob_gt_eq c star s0 rest idx hidx,
    flatMapE_of_mapE _ _ outs (mapE_comp (fun x => c.strOfUri (gtStar x.uri)) (fun p => star [p]) _
      (fun x y hxy => by simp only [hxy]) _ pats outs hres hstar)]

/-- when no search contains '>' `do_find` is the star search -/
theorem doFindGlob_star (c : Ctx) (star : List Str → Except Err (List Str)) (searches : List Sid)
    (hne : searches ≠ []) (h : searches.any (fun x => Str.hasChar '>' x.string) = false) :
    c.doFindGlob star searches = star (searches.map (·.string)) := by
  have : searches.isEmpty = false := by cases searches <;> simp_all
  simp only [Ctx.doFindGlob, this, h, Bool.false_eq_true, if_false]

/-! ### the list Finder's star search -/

theorem starSearch_one (e : Env) (l : List Str) (p : Str) (hb : '[' ∉ p) :
    starSearch e ⟨l, false⟩ [p] = .ok (Lst.dedupBy (· == ·) (l.filter (fun x => globB e p x))) := by
  rw [C08.c08_star_search e l [p] (fun q hq => by
    simp only [List.mem_singleton] at hq; subst hq; exact hb)]
  simp

/-- the '>' search of a list Finder, for the patterns `pats` the re-resolved searches render -/
theorem list_gt (c : Ctx) (l : List Str) (s0 : Sid) (rest : List Sid) (idx : Nat)
    (hidx : GtAt idx s0.string) (pats : List Str)
    (hres : Ctx.mapE (fun x => c.strOfUri (gtStar x.uri)) (s0 :: rest) = .ok pats)
    (hb : ∀ p ∈ pats, '[' ∉ p) :
    ∃ M, starSearch c.env ⟨l, false⟩ pats = .ok M ∧
      c.doFindGlob (starSearch c.env ⟨l, false⟩) (s0 :: rest) = .ok (sortedPick idx M) ∧
      ∀ x, x ∈ M ↔ (x ∈ l ∧ ∃ p ∈ pats, Glob p x) := by
  have hM := C08.c08_star_search c.env l pats hb
  obtain ⟨_, hmem⟩ := C08.c08_star_search_mem c.env l pats hb _ hM
  refine ⟨_, hM, ?_, hmem⟩
  have hstar : Ctx.mapE (fun p => starSearch c.env ⟨l, false⟩ [p]) pats =
      .ok (pats.map (fun p => Lst.dedupBy (· == ·) (l.filter (fun x => globB c.env p x)))) :=
    mapE_eq_map _ _ _ (fun p hp => starSearch_one c.env l p (hb p hp))
  rw [doFindGlob_gt c _ s0 rest idx hidx pats hres _ hstar]
  congr 1
  apply C09.c09_pick_set
  intro x
  rw [hmem]
  simp only [List.mem_flatten, List.mem_map]
  constructor
  · rintro ⟨_, ⟨p, hp, rfl⟩, hx⟩
    rw [Lst.mem_dedupBy, List.mem_filter] at hx
    exact ⟨hx.1, p, hp, (C08.c08_glob2re c.env p x (hb p hp)).1 hx.2⟩
  · rintro ⟨hx, p, hp, hg⟩
    refine ⟨_, ⟨p, hp, rfl⟩, ?_⟩
    rw [Lst.mem_dedupBy, List.mem_filter]
    exact ⟨hx, (C08.c08_glob2re c.env p x (hb p hp)).2 hg⟩

/-! ### the string of `Sid(uri with '>' ↦ '*')` -/

theorem gtStar_eq_nil (s : Str) (h : gtStar s = []) : s = [] := by
  cases s with
  | nil => rfl
  | cons _ _ => simp [gtStar] at h

theorem gtStar_uri (s : Sid) :
    gtStar s.uri = if s.type.isEmpty then gtStar s.string else gtStar s.type ++ ':' :: gtStar s.string := by
  unfold Sid.uri
  split
  · rfl
  · rw [gtStar_append, gtStar_cons]; rfl

/-- `Sid(uri)` without a query keeps the text after the type prefix as its string -/
theorem sidToSid_string (c : Ctx) (u : Str) (x : Sid) (hq : '?' ∉ u) (h : c.sidToSid u = .ok x) :
    x.string = match Str.split1 ':' u with
      | (_, some rest) => rest
      | (_, none) => u := by
  unfold Ctx.sidToSid at h
  rw [Str.split1_none '?' u hq] at h
  simp only [List.isEmpty_nil, if_true] at h
  rcases hsp : Str.split1 ':' u with ⟨t, _ | rest⟩
  · rw [hsp] at h
    simp only at h ⊢
    cases hd : c.sidToDict u none with
    | error e => rw [hd] at h; cases h
    | ok r => rw [hd] at h; simp only at h; injection h with h; rw [← h]
  · rw [hsp] at h
    simp only at h ⊢
    cases hd : c.sidToDict rest (some t) with
    | error e => rw [hd] at h; cases h
    | ok r => rw [hd] at h; simp only at h; injection h with h; rw [← h]

/-- re-resolving the uri of a search Sid with '>' ↦ '*' gives a Sid whose string is the search's
    string with '>' ↦ '*' — whenever it answers at all.  The side conditions are on characters:
    no '?' in the uri (`unfold_search` drops searches with an un-applied query), no ':' in the type,
    nor in the string of an untyped Sid (a uri is split at its first ':'). -/
theorem sidOfString_gtStar_string (c : Ctx) (s x : Sid) (hq : '?' ∉ s.uri) (ht : ':' ∉ s.type)
    (hs : s.type.isEmpty = true → ':' ∉ s.string) (h : c.sidOfString (gtStar s.uri) = .ok x) :
    x.string = gtStar s.string := by
  unfold Ctx.sidOfString at h
  split at h
  · next he =>
    injection h with h
    have hu : s.uri = [] := gtStar_eq_nil _ (by simpa using he)
    have : s.string = [] := by
      unfold Sid.uri at hu
      split at hu
      · exact hu
      · simp at hu
    rw [← h, this]; rfl
  · have hq' : '?' ∉ gtStar s.uri := by rwa [mem_gtStar '?' (by decide) (by decide)]
    rw [sidToSid_string c _ x hq' h, gtStar_uri]
    by_cases hty : s.type.isEmpty = true
    · have : ':' ∉ gtStar s.string := by rw [mem_gtStar ':' (by decide) (by decide)]; exact hs hty
      rw [if_pos hty, Str.split1_none ':' _ this]
    · have : ':' ∉ gtStar s.type := by rwa [mem_gtStar ':' (by decide) (by decide)]
      rw [if_neg hty, Str.split1_some ':' _ _ this]

theorem strOfUri_gtStar (c : Ctx) (s : Sid) (hq : '?' ∉ s.uri) (ht : ':' ∉ s.type)
    (hs : s.type.isEmpty = true → ':' ∉ s.string) (h : ∃ x, c.sidOfString (gtStar s.uri) = .ok x) :
    c.strOfUri (gtStar s.uri) = .ok (gtStar s.string) := by
  obtain ⟨x, hx⟩ := h
  unfold Ctx.strOfUri
  rw [hx]
  show Except.ok x.string = _
  rw [sidOfString_gtStar_string c s x hq ht hs hx]

end GtL
