/-
  Spil.Lemmas.PathL — helper lemmas for the path theorems (C05, C06): which exceptions the
  resolver / formatter / path functions can raise at all, and the structure of `path_to_sid`.
-/
import Spil.Model.Path
import Spil.Lemmas.Sid

namespace PathL

/-! ### dictionaries and template keys -/

theorem hasKey_get (d : Dict) (k : Str) (h : d.hasKey k = true) : ∃ v, d.get k = some v := by
  induction d with
  | nil => simp [Dict.hasKey] at h
  | cons p d ih =>
    obtain ⟨k', v'⟩ := p
    unfold Dict.get
    rw [List.lookup_cons]
    cases hb : k == k' with
    | true => exact ⟨v', rfl⟩
    | false =>
      have hne : (k' == k) = false := by
        have : k ≠ k' := by simpa using hb
        simpa using fun h' => this h'.symm
      simp only [Dict.hasKey, List.any_cons, hne, Bool.false_or] at h
      exact ih h

theorem mem_keys_cons_ph (k : Str) (e : Re) (rest : Template) (k' : Str)
    (h : k' ∈ Template.keys rest) : k' ∈ Template.keys (.ph k e :: rest) := by
  simp only [Template.keys, List.mem_cons, List.mem_filter]
  by_cases hk : k' = k
  · exact Or.inl hk
  · exact Or.inr ⟨h, by simpa using hk⟩

/-- `fmt.format(**data)` cannot raise KeyError when every placeholder key is in `data` -/
theorem format_some_of_hasKeys (t : Template) (d : Dict)
    (h : ∀ k ∈ Template.keys t, d.hasKey k = true) : ∃ s, Template.format t d = some s := by
  induction t with
  | nil => exact ⟨[], rfl⟩
  | cons tok rest ih =>
    cases tok with
    | lit s =>
      obtain ⟨r, hr⟩ := ih (fun k hk => h k (by simpa [Template.keys] using hk))
      exact ⟨s ++ r, by simp [Template.format, hr]⟩
    | ph k e =>
      obtain ⟨r, hr⟩ := ih (fun k' hk => h k' (mem_keys_cons_ph k e rest k' hk))
      obtain ⟨v, hv⟩ := hasKey_get d k (h k (by simp [Template.keys]))
      exact ⟨v ++ r, by simp [Template.format, hr, hv]⟩

/-- behind the key-set test, `fmt.format(**data)` cannot raise KeyError -/
theorem format_some_of_keysEq (t : Template) (d : Dict) (h : Dict.keysEq d (Template.keys t) = true) :
    ∃ s, Template.format t d = some s := by
  apply format_some_of_hasKeys
  simp only [Dict.keysEq, Bool.and_eq_true, List.all_eq_true] at h
  exact h.2

/-! ### the only exception of `resolve_*` is ResolvaException -/

theorem matchToDict_err (cd : Bool) (caps : Caps) : ∀ (acc : Dict) (x : Err),
    Template.matchToDict cd caps acc = .error x → x = .resolva := by
  induction caps with
  | nil => intro acc x h; simp [Template.matchToDict] at h
  | cons p caps ih =>
    obtain ⟨name, v⟩ := p
    intro acc x h
    simp only [Template.matchToDict] at h
    split at h
    · split at h
      · simpa using h.symm
      · exact ih _ _ h
    · exact ih _ _ h

theorem resolveTpl_err (e : Env) (cd : Bool) (t : Template) (s : Str) (x : Err)
    (h : Resolver.resolveTpl e cd t s = .error x) : x = .resolva := by
  unfold Resolver.resolveTpl at h
  split at h
  · simp at h
  · split at h
    · next hm =>
      simp only [Except.error.injEq] at h
      subst h
      exact matchToDict_err _ _ _ _ hm
    · simp at h

theorem resolveOne_err (e : Env) (r : Resolver) (s label : Str) (x : Err)
    (h : Resolver.resolveOne e r s label = .error x) : x = .resolva := by
  unfold Resolver.resolveOne at h
  split at h
  · simp at h
  · split at h
    · simp at h
    · exact resolveTpl_err _ _ _ _ _ h

theorem resolveFirstGo_err (e : Env) (cd : Bool) (s : Str) (ts : List (Str × Template)) (x : Err)
    (h : Resolver.resolveFirstGo e cd s ts = .error x) : x = .resolva := by
  induction ts with
  | nil => simp [Resolver.resolveFirstGo] at h
  | cons p ts ih =>
    obtain ⟨l, t⟩ := p
    simp only [Resolver.resolveFirstGo] at h
    split at h
    · next hm =>
      simp only [Except.error.injEq] at h
      subst h
      exact resolveTpl_err _ _ _ _ _ hm
    · simp at h
    · exact ih h

theorem resolveFirst_err (e : Env) (r : Resolver) (s : Str) (x : Err)
    (h : Resolver.resolveFirst e r s = .error x) : x = .resolva := by
  unfold Resolver.resolveFirst at h
  split at h
  · simp at h
  · exact resolveFirstGo_err _ _ _ _ _ h

/-- the label `resolve_first` returns is one of the resolver's labels -/
theorem resolveFirstGo_label (e : Env) (cd : Bool) (s : Str) (ts : List (Str × Template))
    (l : Str) (d : Dict) (h : Resolver.resolveFirstGo e cd s ts = .ok (some (l, d))) :
    (ts.lookup l).isSome = true := by
  induction ts with
  | nil => simp [Resolver.resolveFirstGo] at h
  | cons p ts ih =>
    obtain ⟨l', t⟩ := p
    simp only [Resolver.resolveFirstGo] at h
    rw [List.lookup_cons]
    split at h
    · simp at h
    · simp only [Except.ok.injEq, Option.some.injEq, Prod.mk.injEq] at h
      rw [h.1]
      simp
    · cases hb : l == l' with
      | true => rfl
      | false => exact ih h

theorem resolveFirst_label (e : Env) (r : Resolver) (s l : Str) (d : Dict)
    (h : Resolver.resolveFirst e r s = .ok (some (l, d))) : (r.lookup l).isSome = true := by
  unfold Resolver.resolveFirst at h
  split at h
  · simp at h
  · exact resolveFirstGo_label _ _ _ _ _ _ h

/-! ### the only exception of `format_*` is ResolvaException (from the reverse check) -/

theorem formatTpl_err (e : Env) (r : Resolver) (label : Str) (t : Template) (data : Dict) (x : Err)
    (h : Resolver.formatTpl e r label t data = .error x) : x = .resolva := by
  unfold Resolver.formatTpl at h
  split at h
  · simp at h
  · next hk =>
    have hk' : Dict.keysEq data (Template.keys t) = true := by simpa using hk
    obtain ⟨f, hf⟩ := format_some_of_keysEq t data hk'
    rw [hf] at h
    simp only at h
    split at h
    · next hm =>
      simp only [Except.error.injEq] at h
      subst h
      exact resolveOne_err _ _ _ _ _ hm
    · simp at h
    · simp at h

theorem formatOne_err (e : Env) (r : Resolver) (data : Dict) (label : Str) (x : Err)
    (h : Resolver.formatOne e r data label = .error x) : x = .resolva := by
  unfold Resolver.formatOne at h
  split at h
  · simp at h
  · split at h
    · simp at h
    · exact formatTpl_err _ _ _ _ _ _ h

theorem formatFirstGo_err (e : Env) (r : Resolver) (data : Dict) (ts : List (Str × Template))
    (x : Err) (h : Resolver.formatFirstGo e r data ts = .error x) : x = .resolva := by
  induction ts with
  | nil => simp [Resolver.formatFirstGo] at h
  | cons p ts ih =>
    obtain ⟨l, t⟩ := p
    simp only [Resolver.formatFirstGo] at h
    split at h
    · next hm =>
      simp only [Except.error.injEq] at h
      subst h
      exact formatTpl_err _ _ _ _ _ _ hm
    · simp at h
    · exact ih h

theorem formatFirst_err (e : Env) (r : Resolver) (data : Dict) (x : Err)
    (h : Resolver.formatFirst e r data = .error x) : x = .resolva := by
  unfold Resolver.formatFirst at h
  split at h
  · simp at h
  · exact formatFirstGo_err _ _ _ _ _ h

/-! ### without the duplicate-placeholder check nothing is raised at all -/

theorem resolveOne_total (e : Env) (r : Resolver) (hcd : r.checkDup = false) (s label : Str) :
    ∃ od, Resolver.resolveOne e r s label = .ok od := by
  unfold Resolver.resolveOne
  split
  · exact ⟨_, rfl⟩
  · split
    · exact ⟨_, rfl⟩
    · rw [hcd]; exact SidL.resolveTpl_total _ _ _

theorem formatTpl_total (e : Env) (r : Resolver) (hcd : r.checkDup = false) (label : Str)
    (t : Template) (data : Dict) : ∃ of, Resolver.formatTpl e r label t data = .ok of := by
  cases h : Resolver.formatTpl e r label t data with
  | ok of => exact ⟨of, rfl⟩
  | error x =>
    exfalso
    unfold Resolver.formatTpl at h
    split at h
    · simp at h
    · next hk =>
      have hk' : Dict.keysEq data (Template.keys t) = true := by simpa using hk
      obtain ⟨f, hf⟩ := format_some_of_keysEq t data hk'
      rw [hf] at h
      simp only at h
      obtain ⟨od, hod⟩ := resolveOne_total e r hcd f label
      rw [hod] at h
      cases od <;> simp at h

theorem formatOne_total (e : Env) (r : Resolver) (hcd : r.checkDup = false) (data : Dict)
    (label : Str) : ∃ of, Resolver.formatOne e r data label = .ok of := by
  unfold Resolver.formatOne
  split
  · exact ⟨_, rfl⟩
  · split
    · exact ⟨_, rfl⟩
    · exact formatTpl_total e r hcd _ _ _

theorem formatFirstGo_total (e : Env) (r : Resolver) (hcd : r.checkDup = false) (data : Dict)
    (ts : List (Str × Template)) : ∃ of, Resolver.formatFirstGo e r data ts = .ok of := by
  induction ts with
  | nil => exact ⟨none, rfl⟩
  | cons p ts ih =>
    obtain ⟨l, t⟩ := p
    obtain ⟨of, hof⟩ := formatTpl_total e r hcd l t data
    simp only [Resolver.formatFirstGo, hof]
    cases of with
    | none => exact ih
    | some f => exact ⟨_, rfl⟩

theorem formatFirst_total (e : Env) (r : Resolver) (hcd : r.checkDup = false) (data : Dict) :
    ∃ of, Resolver.formatFirst e r data = .ok of := by
  unfold Resolver.formatFirst
  split
  · exact ⟨_, rfl⟩
  · exact formatFirstGo_total e r hcd data _

/-- `dict_to_sid(data, _type)` raises only for empty data -/
theorem dictToSidStr_total (c : Ctx) (data : Dict) (ty : Str) (hne : data.isEmpty = false) :
    ∃ s, c.dictToSidStr data ty = .ok s := by
  unfold Ctx.dictToSidStr
  rw [hne]
  simp only [Bool.false_eq_true, if_false]
  split
  · obtain ⟨of, hof⟩ := formatFirst_total c.env c.sidR rfl data
    rw [hof]; exact ⟨_, rfl⟩
  · obtain ⟨of, hof⟩ := formatOne_total c.env c.sidR rfl data ty
    rw [hof]; exact ⟨_, rfl⟩

/-! ### `dict_to_path`, `sid.path`, `path_to_dict`, `path_to_sid` -/

/-- `dict_to_path` raises SpilException or (reverse check) ResolvaException only -/
theorem dictToPath_err (c : Ctx) (pc : PathConf) (data : Dict) (ty : Str) (x : Err)
    (h : c.dictToPath pc data ty = .error x) : x = .spil ∨ x = .resolva := by
  unfold Ctx.dictToPath at h
  split at h
  · left; simpa using h.symm
  · split at h
    · left; simpa using h.symm
    · next t ht =>
      simp only at h
      split at h
      · left; simpa using h.symm
      · split at h
        · left; simpa using h.symm
        · next hk =>
          have hk' : Dict.keysEq (Ctx.pathData pc data (Template.keys t)) (Template.keys t) = true := by
            simpa using hk
          obtain ⟨f, hf⟩ := format_some_of_keysEq t _ hk'
          rw [hf] at h
          simp only at h
          split at h
          · next hm =>
            simp only [Except.error.injEq] at h
            subst h
            exact Or.inr (formatOne_err _ _ _ _ _ hm)
          · split at h
            · simp at h
            · left; simpa using h.symm

/-- `sid.path(config)` raises only for an unknown configuration or a reverse-check clash -/
theorem sidPath_err (c : Ctx) (cfg : Option Str) (x : Sid) (e : Err)
    (h : c.sidPath cfg x = .error e) : e = .other ∨ e = .resolva := by
  unfold Ctx.sidPath at h
  split at h
  · simp at h
  · split at h
    · left; simpa using h.symm
    · next pc hpc =>
      split at h
      · simp at h
      · simp at h
      · next e' hne hd =>
        simp only [Except.error.injEq] at h
        subst h
        rcases dictToPath_err c pc _ _ _ hd with h1 | h1
        · exact absurd h1 (fun h' => hne (h' ▸ rfl))
        · exact Or.inr h1

/-- with a known configuration the only exception of `sid.path(config)` is the reverse-check clash
    of that configuration's resolver -/
theorem sidPath_err_pc (c : Ctx) (cfg : Option Str) (pc : PathConf)
    (hpc : c.cfg.pathConf? cfg = some pc) (x : Sid) (e : Err)
    (h : c.sidPath cfg x = .error e) :
    ∃ data, Resolver.formatOne c.env pc.resolver data x.type = .error .resolva := by
  unfold Ctx.sidPath at h
  split at h
  · simp at h
  · rw [hpc] at h
    simp only at h
    split at h
    · simp at h
    · simp at h
    · next e' hne hd =>
      unfold Ctx.dictToPath at hd
      split at hd
      · exact absurd (by simpa using hd.symm) hne
      · split at hd
        · exact absurd (by simpa using hd.symm) hne
        · next t ht =>
          simp only at hd
          split at hd
          · exact absurd (by simpa using hd.symm) hne
          · split at hd
            · exact absurd (by simpa using hd.symm) hne
            · next hk =>
              have hk' : Dict.keysEq (Ctx.pathData pc x.fields (Template.keys t)) (Template.keys t) = true := by
                simpa using hk
              obtain ⟨f, hf⟩ := format_some_of_keysEq t _ hk'
              rw [hf] at hd
              simp only at hd
              split at hd
              · next y hm =>
                have := formatOne_err _ _ _ _ _ hm
                subst this
                exact ⟨_, hm⟩
              · split at hd
                · simp at hd
                · exact absurd (by simpa using hd.symm) hne

/-- `path_to_dict(path)` without a forced type, with the `let`s removed -/
theorem pathToDict_none_eq (c : Ctx) (pc : PathConf) (p : Str) :
    c.pathToDict pc p none =
      (match Resolver.resolveFirst c.env pc.resolver p with
      | .error .resolva => .ok none
      | .error x => .error x
      | .ok none => .ok none
      | .ok (some (template, data)) =>
        match c.cfg.sid.keyTypes.lookup (((Str.splitStr template c.cfg.sid.sep).head?).getD []) with
        | none => .error .type
        | some keys =>
          .ok (some (template, (keys.filter (fun k => (Ctx.mapToSid pc data).hasKey k)).map
            (fun k => (k, ((Ctx.mapToSid pc data).get k).getD []))))) := rfl

/-- `path_to_dict` (untyped call) raises only TypeError, for a basetype missing in `key_types` -/
theorem pathToDict_err (c : Ctx) (pc : PathConf) (p : Str) (e : Err)
    (h : c.pathToDict pc p none = .error e) : e = .type := by
  rw [pathToDict_none_eq] at h
  split at h
  · simp at h
  · next _ x hne hr =>
    exact absurd (resolveFirst_err _ _ _ _ hr) hne
  · simp at h
  · split at h
    · simpa using h.symm
    · simp at h

/-- what `path_to_dict` does when `key_types` is complete: it never raises -/
theorem pathToDict_total (c : Ctx) (pc : PathConf) (p : Str)
    (hkt : ∀ label, (pc.resolver.lookup label).isSome →
       (c.cfg.sid.keyTypes.lookup (((Str.splitStr label c.cfg.sid.sep).head?).getD [])).isSome) :
    ∃ r, c.pathToDict pc p none = .ok r := by
  cases h : c.pathToDict pc p none with
  | ok r => exact ⟨r, rfl⟩
  | error e =>
    exfalso
    rw [pathToDict_none_eq] at h
    split at h
    · simp at h
    · next _ x hne hr =>
      exact absurd (resolveFirst_err _ _ _ _ hr) hne
    · simp at h
    · next _ template data hr =>
      have := hkt template (resolveFirst_label _ _ _ _ _ hr)
      split at h
      · next hl => rw [hl] at this; simp at this
      · simp at h

/-- the structure of a successful `path_to_sid`: the Sid has fields and owns the path -/
theorem pathToSid_some (c : Ctx) (p : Str) (cfg : Option Str) (x : Sid)
    (h : c.pathToSid p cfg = .ok (some x)) :
    x.fields.isEmpty = false ∧ c.sidPath cfg x = .ok (some p) := by
  unfold Ctx.pathToSid at h
  split at h
  · simp at h
  · split at h
    · simp at h
    · simp at h
    · next ty fields hd =>
      split at h
      · simp at h
      · next hf =>
        split at h
        · simp at h
        · next s hs =>
          split at h
          · simp at h
          · simp only at h
            split at h
            · simp at h
            · next p' hp' =>
              split at h
              · next hg =>
                simp only [Except.ok.injEq, Option.some.injEq] at h
                subst h
                have : p' = some p := by simpa using hg
                subst this
                exact ⟨by simpa using hf, hp'⟩
              · simp at h

/-- the exceptions of `path_to_sid` -/
theorem pathToSid_err (c : Ctx) (p : Str) (cfg : Option Str) (e : Err)
    (h : c.pathToSid p cfg = .error e) : e = .other ∨ e = .type ∨ e = .resolva := by
  unfold Ctx.pathToSid at h
  split at h
  · left; simpa using h.symm
  · next pc hpc =>
    split at h
    · next e' hd =>
      simp only [Except.error.injEq] at h
      subst h
      exact Or.inr (Or.inl (pathToDict_err _ _ _ _ hd))
    · simp at h
    · next ty fields hd =>
      split at h
      · simp at h
      · next hf =>
        have hf' : fields.isEmpty = false := by simpa using hf
        obtain ⟨s, hs⟩ := dictToSidStr_total c fields ty hf'
        rw [hs] at h
        simp only at h
        split at h
        · simp at h
        · split at h
          · next e' hp =>
            simp only [Except.error.injEq] at h
            subst h
            rcases sidPath_err _ _ _ _ hp with h1 | h1
            · exact Or.inl h1
            · exact Or.inr (Or.inr h1)
          · split at h <;> simp at h

/-- totality of `path_to_sid` under the three conventions -/
theorem pathToSid_total (c : Ctx) (p : Str) (cfg : Option Str) (pc : PathConf)
    (hpc : c.cfg.pathConf? cfg = some pc)
    (hkt : ∀ label, (pc.resolver.lookup label).isSome →
       (c.cfg.sid.keyTypes.lookup (((Str.splitStr label c.cfg.sid.sep).head?).getD [])).isSome)
    (hclash : ∀ data label, Resolver.formatOne c.env pc.resolver data label ≠ .error .resolva) :
    ∃ r, c.pathToSid p cfg = .ok r := by
  cases h : c.pathToSid p cfg with
  | ok r => exact ⟨r, rfl⟩
  | error e =>
    exfalso
    unfold Ctx.pathToSid at h
    rw [hpc] at h
    simp only at h
    obtain ⟨r, hr⟩ := pathToDict_total c pc p hkt
    rw [hr] at h
    match r with
    | none => simp at h
    | some (ty, fields) =>
      simp only at h
      split at h
      · simp at h
      · next hf =>
        have hf' : fields.isEmpty = false := by simpa using hf
        obtain ⟨s, hs⟩ := dictToSidStr_total c fields ty hf'
        rw [hs] at h
        simp only at h
        split at h
        · simp at h
        · split at h
          · next e' hp =>
            obtain ⟨data, hdata⟩ := sidPath_err_pc c cfg pc hpc _ _ hp
            exact hclash _ _ hdata
          · split at h <;> simp at h

/-! ### the value mapping -/

theorem lookup_of_mem_nodup (m : List (Str × Str)) (hnd : (m.map (·.1)).Nodup) (k v : Str)
    (h : (k, v) ∈ m) : m.lookup k = some v := by
  induction m with
  | nil => simp at h
  | cons p m ih =>
    obtain ⟨k', v'⟩ := p
    simp only [List.map_cons, List.nodup_cons] at hnd
    simp only [List.mem_cons, Prod.mk.injEq] at h
    rcases h with ⟨rfl, rfl⟩ | h
    · simp
    · have hne : (k == k') = false := by
        have : k ≠ k' := by
          intro heq; subst heq
          exact hnd.1 (List.mem_map.mpr ⟨(k, v), h, rfl⟩)
        simpa using this
      rw [List.lookup_cons, hne]
      exact ih hnd.2 h

end PathL
