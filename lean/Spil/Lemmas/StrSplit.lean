/-
  Spil.Lemmas.Str — lemmas about `Str.splitOn`, `Str.joinWith`, `Str.split1`, `Str.pad3`.
-/
import Spil.Model.Str
import Spil.Lemmas.Str

namespace Str

/-- a string without separator is its own single piece -/
theorem splitOn_of_not_mem (sep : Char) (s : Str) (h : sep ∉ s) : splitOn sep s = [s] := by
  induction s with
  | nil => simp [splitOn]
  | cons c cs ih =>
    have hc : c ≠ sep := by intro e; apply h; simp [e]
    have hcs : sep ∉ cs := by intro e; apply h; simp [e]
    simp [splitOn, hc, ih hcs]

/-- the first piece ends at the first separator -/
theorem splitOn_append_sep (sep : Char) (p rest : Str) (h : sep ∉ p) :
    splitOn sep (p ++ sep :: rest) = p :: splitOn sep rest := by
  induction p with
  | nil => simp [splitOn]
  | cons c cs ih =>
    have hc : c ≠ sep := by intro e; apply h; simp [e]
    have hcs : sep ∉ cs := by intro e; apply h; simp [e]
    simp [splitOn, hc, ih hcs]

/-- every piece is separator-free -/
theorem splitOn_not_mem (sep : Char) (s : Str) : ∀ p ∈ splitOn sep s, sep ∉ p := by
  induction s with
  | nil => simp [splitOn]
  | cons c cs ih =>
    simp only [splitOn]; split
    · intro p hp
      simp only [List.mem_cons] at hp
      rcases hp with rfl | hp
      · simp
      · exact ih p hp
    · next hc =>
      match hs : splitOn sep cs with
      | [] => exact absurd hs (splitOn_ne_nil sep cs)
      | q :: qs =>
        rw [hs] at ih
        intro p hp
        simp only [List.mem_cons] at hp
        rcases hp with rfl | hp
        · have := ih q (by simp)
          simp only [List.mem_cons, not_or]
          exact ⟨fun e => hc e.symm, this⟩
        · exact ih p (by simp [hp])

/-- a string either has no separator or splits at its first separator -/
theorem first_sep (sep : Char) (s : Str) :
    sep ∉ s ∨ ∃ p rest, s = p ++ sep :: rest ∧ sep ∉ p := by
  induction s with
  | nil => simp
  | cons c cs ih =>
    by_cases hc : c = sep
    · right; exact ⟨[], cs, by simp [hc], by simp⟩
    · rcases ih with h | ⟨p, rest, h1, h2⟩
      · left; simp only [List.mem_cons, not_or]; exact ⟨fun e => hc e.symm, h⟩
      · right; refine ⟨c :: p, rest, by simp [h1], ?_⟩
        simp only [List.mem_cons, not_or]; exact ⟨fun e => hc e.symm, h2⟩

/-- cutting at the first separator is unique -/
theorem first_sep_unique (sep : Char) (p q r1 r2 : Str) (hp : sep ∉ p) (hq : sep ∉ q)
    (h : p ++ sep :: r1 = q ++ sep :: r2) : p = q ∧ r1 = r2 := by
  induction p generalizing q with
  | nil =>
    cases q with
    | nil => simpa using h
    | cons d ds =>
      simp at h
      exact absurd (by simp [h.1]) hq
  | cons c cs ih =>
    cases q with
    | nil =>
      simp at h
      exact absurd (by simp [h.1]) hp
    | cons d ds =>
      simp at h
      have hcs : sep ∉ cs := by intro e; apply hp; simp [e]
      have hds : sep ∉ ds := by intro e; apply hq; simp [e]
      have := ih ds hcs hds h.2
      exact ⟨by simp [h.1, this.1], this.2⟩

theorem split1_none (sep : Char) (s : Str) (h : sep ∉ s) : split1 sep s = (s, none) := by
  induction s with
  | nil => simp [split1]
  | cons c cs ih =>
    have hc : c ≠ sep := by intro e; apply h; simp [e]
    have hcs : sep ∉ cs := by intro e; apply h; simp [e]
    simp [split1, hc, ih hcs]

theorem split1_some (sep : Char) (p rest : Str) (h : sep ∉ p) :
    split1 sep (p ++ sep :: rest) = (p, some rest) := by
  induction p with
  | nil => simp [split1]
  | cons c cs ih =>
    have hc : c ≠ sep := by intro e; apply h; simp [e]
    have hcs : sep ∉ cs := by intro e; apply h; simp [e]
    simp [split1, hc, ih hcs]

theorem pad3_one : pad3 1 = ['0', '0', '1'] := by decide

end Str
