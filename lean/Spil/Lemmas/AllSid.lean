/-
  Spil.Lemmas.AllSid — the Sid-level operations `FindInConstants` uses (`Sid(uri)`, `get_with(key=…)`,
  `parent`, `/`) on well-typed Sids of a configuration that follows the conventions (`sidHierOk`):
  what `_append_value` yields, as explicit strings.
-/
import Spil.Lemmas.AllConst
import Spil.Lemmas.Expand
import Spil.Props.C02
import Spil.Props.C04

namespace AllL

open Spec

/-! ### definitions used in the statements -/

/-- some configured template lists exactly the keys `K` (in this order) and accepts `str` -/
def typedAs (c : Ctx) (K : List Str) (str : Str) : Bool :=
  c.cfg.sid.templates.any (fun a => keysOf a.2 == K && accepts c.env a.2 str)

/-- all '/'-segments of `str` but the last, joined: the string of the parent -/
def parentStr (str : Str) : Str := Str.joinWith '/' (Str.splitOn '/' str).dropLast

/-- `str` with its last '/'-segment replaced by `v` -/
def replaceLast (str v : Str) : Str := Str.joinWith '/' ((Str.splitOn '/' str).dropLast ++ [v])

/-- a constant value that can be a '/'-segment: non-empty, no '/', no newline -/
def constValOk (v : Str) : Bool := !v.isEmpty && !v.contains '/' && !v.contains '\n'

/-- `Sid(fr).get_with(key=v)` is a typed Sid: `Sid(fr)` is typed (by the first template accepting
    `fr`), and some template lists its keys followed by `key` and accepts `fr/v` -/
def admitsChild (c : Ctx) (key fr v : Str) : Bool :=
  match firstAccepting c.env c.cfg.sid.templates fr with
  | none => false
  | some a => typedAs c (keysOf a.2 ++ [key]) (fr ++ '/' :: v)

/-- the keys `Sid(fr)` has (none when untyped) -/
def keysOfStr (c : Ctx) (fr : Str) : List Str :=
  match firstAccepting c.env c.cfg.sid.templates fr with
  | none => []
  | some a => keysOf a.2

/-- configuration convention for a constants key: a template that lists the keys of another
    template (one without `key`) plus `key` lists `key` LAST (so that appending the key's value to
    the parent's string gives the child's string) -/
def keyAppends (ts : List (Str × Template)) (key : Str) : Bool :=
  ts.all (fun a => ts.all (fun b =>
    !(!(keysOf a.2).contains key &&
      (keysOf b.2).all (fun k => k == key || (keysOf a.2).contains k) &&
      (keysOf a.2).all (fun k => (keysOf b.2).contains k) && (keysOf b.2).contains key)
    || keysOf b.2 == keysOf a.2 ++ [key]))

/-- `renderable` is decidable (used by the kernel-checked examples) -/
instance (s : Str) : Decidable (renderable s) := by
  unfold renderable
  exact inferInstance

theorem constValOk_iff (v : Str) : constValOk v = true ↔ v ≠ [] ∧ '/' ∉ v ∧ '\n' ∉ v := by
  unfold constValOk
  cases v with
  | nil => simp
  | cons a l => simp

theorem replaceLast_eq (str v : Str) (h : 2 ≤ (Str.splitOn '/' str).length) :
    replaceLast str v = parentStr str ++ '/' :: v := by
  unfold replaceLast parentStr
  apply HierL.joinWith_concat
  intro h0
  have := congrArg List.length h0
  rw [List.length_dropLast] at this
  simp at this
  omega

theorem replaceLast_single (str v : Str) (h : (Str.splitOn '/' str).length = 1) :
    replaceLast str v = v := by
  unfold replaceLast
  match hs : Str.splitOn '/' str, h with
  | [a], _ => rfl

/-! ### small facts -/

theorem wellTyped_typed (c : Ctx) (hwf : sidHierOk c.env c.cfg.sid.templates = true) (x : Sid)
    (hx : wellTyped c.env c.cfg.sid.templates x) : x.typed = true := by
  obtain ⟨h1, _, _, _⟩ := HierL.hier_unpack _ _ hwf
  have H := SidL.tableOk_unpack _ _ h1
  obtain ⟨t, hl, _, hacc, hf⟩ := hx
  have hwt := (H _ (SidL.mem_of_lookup _ _ _ hl)).1
  obtain ⟨_, hKne, _, _, _, hlen⟩ := HierL.typed_facts c.env t hwt x.string hacc
  rw [← hf] at hlen
  unfold Sid.typed
  cases hxf : x.fields with
  | nil =>
    rw [hxf] at hlen
    cases hk : keysOf t with
    | nil => exact absurd hk hKne
    | cons _ _ => rw [hk] at hlen; simp at hlen
  | cons _ _ => rfl

/-- `Sid(sid.uri)` of a well-typed Sid without query is the Sid (C02 `c02_uri`, for Sids typed by
    ANY template that accepts them) -/
theorem sidOfString_uri (c : Ctx) (hwf : sidHierOk c.env c.cfg.sid.templates = true) (x : Sid)
    (hx : wellTyped c.env c.cfg.sid.templates x) (hq : '?' ∉ x.string) :
    c.sidOfString x.uri = .ok x := by
  obtain ⟨h1, _, _, hplain⟩ := HierL.hier_unpack _ _ hwf
  obtain ⟨t, hl, hne, hacc, hf⟩ := hx
  have hmem := SidL.mem_of_lookup _ _ _ hl
  have hlne : x.type ≠ [] := HierL.tableOk_label_ne _ _ h1 _ hmem
  have huri : x.uri = x.type ++ ':' :: x.string := by
    have : x.type.isEmpty = false := by simp [hlne]
    simp [Sid.uri, this]
  have hq' : '?' ∉ x.type ++ ':' :: x.string := by
    simp only [List.mem_append, List.mem_cons, not_or]
    exact ⟨(hplain _ hmem).2, by decide, hq⟩
  rw [huri, C01.c01_forced c h1 x.type x.string hlne (hplain _ hmem).1 hq']
  have hne' : x.string.isEmpty = false := by simp [hne]
  simp only [forcedSid, hl, hne', hacc, Bool.not_false, Bool.and_self, if_true]
  rw [HierL.sid_eta x _ hf]

/-- what `star_search` makes of a well-typed search Sid before `get_as` -/
theorem resolve_self (c : Ctx) (hwf : sidHierOk c.env c.cfg.sid.templates = true) (s : Sid)
    (hs : wellTyped c.env c.cfg.sid.templates s) (hq : '?' ∉ s.string) :
    (if s.typed then c.sidOfString s.uri else .ok Sid.empty) = .ok s := by
  rw [wellTyped_typed c hwf s hs, if_pos rfl, sidOfString_uri c hwf s hs hq]

theorem mem_of_mem_splitOn (sep : Char) (s p : Str) (hp : p ∈ Str.splitOn sep s) (ch : Char)
    (hc : ch ∈ p) : ch ∈ s := by
  induction s generalizing p with
  | nil =>
    simp only [Str.splitOn, List.mem_singleton] at hp
    subst hp
    exact hc
  | cons a s ih =>
    simp only [Str.splitOn] at hp
    split at hp
    · rcases List.mem_cons.1 hp with rfl | hp
      · cases hc
      · exact List.mem_cons_of_mem _ (ih p hp hc)
    · split at hp
      · next h0 => exact absurd h0 (Str.splitOn_ne_nil sep s)
      · next q qs hq =>
        rcases List.mem_cons.1 hp with rfl | hp
        · rcases List.mem_cons.1 hc with rfl | hc
          · exact List.mem_cons_self
          · exact List.mem_cons_of_mem _ (ih q (by rw [hq]; simp) hc)
        · exact List.mem_cons_of_mem _ (ih p (by rw [hq]; simp [hp]) hc)

/-- a character of a '/'-join of some segments of `s`, other than '/', is a character of `s` -/
theorem mem_join_sub (s : Str) (segs : List Str) (hsub : ∀ p ∈ segs, p ∈ Str.splitOn '/' s)
    (ch : Char) (hne : ch ≠ '/') (hc : ch ∈ Str.joinWith '/' segs) : ch ∈ s := by
  rcases UpdL.mem_joinWith '/' segs ch hc with h | ⟨p, hp, hcp⟩
  · exact absurd h hne
  · exact mem_of_mem_splitOn '/' s p (hsub p hp) ch hcp

/-! ### `Dict.set` at / after the last key -/

theorem set_last (A : Dict) (key u v : Str) (h : key ∉ A.map (·.1)) :
    Dict.set (A ++ [(key, u)]) key v = A ++ [(key, v)] := by
  induction A with
  | nil => simp [Dict.set]
  | cons p A ih =>
    obtain ⟨k0, v0⟩ := p
    simp only [List.map_cons, List.mem_cons, not_or] at h
    have hb : (k0 == key) = false := by simpa using fun e => h.1 e.symm
    simp only [List.cons_append, Dict.set, hb, Bool.false_eq_true, if_false, ih h.2]

theorem overlay_one (fields : Dict) (key v : Str) :
    Ctx.overlayKw fields [(key, some v)] = Dict.set fields key v := by
  simp [Ctx.overlayKw, Dict.update]

/-! ### `get_with(key=v)` kept when typed (`withVal`) -/

section withVal

variable (d : DCtx)

/-- the overlaid dictionary is a reordering of `zip K vals`, `K` the key list of a template: the
    value is kept exactly when some template with the keys `K` accepts the joined values -/
theorem withVal_of_dictOf (hwf : sidHierOk d.ctx.env d.ctx.cfg.sid.templates = true) (x : Sid) (hx : x.typed = true) (key v : Str) (K vals : List Str)
    (hd : HierL.DictOf d.ctx.cfg.sid.templates K vals (Dict.set x.fields key v)) (hK : K ≠ [])
    (hsl : ∀ u ∈ vals, '/' ∉ u) (hr : renderable (Str.joinWith '/' vals)) :
    withVal d key x v =
      .ok (if typedAs d.ctx K (Str.joinWith '/' vals) then [Str.joinWith '/' vals] else []) := by
  have hxf : x.fields.isEmpty = false := by
    unfold Sid.typed at hx
    simpa using hx
  have hne : (Dict.set x.fields key v).isEmpty = false := by
    have := hd.ne_nil hK
    cases h : Dict.set x.fields key v with
    | nil => exact absurd h this
    | cons _ _ => rfl
  unfold withVal Ctx.getWithKw Ctx.sidOfFields
  simp only [hxf, Bool.and_false, Bool.false_eq_true, if_false, overlay_one, hne]
  rw [HierL.dictToSid_eq d.ctx hwf K vals _ hd hK hsl hr]
  simp only []
  unfold typedAs
  cases hf : d.ctx.cfg.sid.templates.find?
      (fun a => keysOf a.2 == K && accepts d.ctx.env a.2 (Str.joinWith '/' vals)) with
  | none =>
    have : d.ctx.cfg.sid.templates.any
        (fun a => keysOf a.2 == K && accepts d.ctx.env a.2 (Str.joinWith '/' vals)) = false := by
      rw [List.any_eq_false]
      intro a ha
      have := List.find?_eq_none.1 hf a ha
      simpa using this
    simp [this, Sid.typed, Sid.empty]
  | some a =>
    have : d.ctx.cfg.sid.templates.any
        (fun a => keysOf a.2 == K && accepts d.ctx.env a.2 (Str.joinWith '/' vals)) = true :=
      List.any_eq_true.2 ⟨a, List.mem_of_find?_eq_some hf, by have h := List.find?_some hf; exact h⟩
    have hz : (K.zip vals).isEmpty = false := by
      cases hk : K with
      | nil => exact absurd hk hK
      | cons k K' =>
        cases hv : vals with
        | nil =>
          have := hd.len
          rw [hk, hv] at this
          simp at this
        | cons _ _ => rfl
    simp [this, Sid.typed, hz]

/-- no template has the key set of the overlaid dictionary: nothing is kept -/
theorem withVal_no_keys (hwf : sidHierOk d.ctx.env d.ctx.cfg.sid.templates = true) (x : Sid) (hx : x.typed = true) (key v : Str)
    (h : ∀ a ∈ d.ctx.cfg.sid.templates, Dict.keysEq (Dict.set x.fields key v) (keysOf a.2) = false) :
    withVal d key x v = .ok [] := by
  have hxf : x.fields.isEmpty = false := by
    unfold Sid.typed at hx
    simpa using hx
  unfold withVal Ctx.getWithKw Ctx.sidOfFields Ctx.dictToSid
  simp only [hxf, Bool.and_false, Bool.false_eq_true, if_false, overlay_one]
  rw [UpdL.dictToTypes_nil d.ctx hwf _ h]
  by_cases he : (Dict.set x.fields key v).isEmpty = true <;> simp [he, Sid.typed, Sid.empty]

/-- an untyped non-empty Sid: `get_with` gives the empty Sid, nothing is kept -/
theorem withVal_untyped (fr key v : Str) (hne : fr ≠ []) :
    withVal d key (Sid.untyped fr) v = .ok [] := by
  have : fr.isEmpty = false := by simp [hne]
  simp [withVal, Ctx.getWithKw, Sid.untyped, this, Sid.typed, Sid.empty]

end withVal

/-! ### the value appended at / after the last key -/

theorem renderable_snoc (ps : List Str) (v : Str) (hne : v ≠ []) (hnl : '\n' ∉ v) :
    renderable (Str.joinWith '/' (ps ++ [v])) := by
  obtain ⟨a, ha⟩ := UpdL.joinWith_last '/' (ps ++ [v]) (by simp)
  rw [ha]
  have hl : (ps ++ [v]).getLast (by simp) = v := by simp
  rw [hl]
  constructor
  · intro h0
    have := congrArg List.length h0
    cases v with
    | nil => exact hne rfl
    | cons _ _ => simp at this
  · rw [List.getLast?_append]
    cases hv : v.getLast? with
    | none =>
      rw [List.getLast?_eq_none_iff] at hv
      exact absurd hv hne
    | some ch =>
      simp only [Option.some_or]
      intro h
      injection h with h
      subst h
      exact hnl (List.mem_of_getLast? hv)

theorem keyAppends_unpack (ts : List (Str × Template)) (key : Str) (h : keyAppends ts key = true) :
    ∀ a ∈ ts, ∀ b ∈ ts, key ∉ keysOf a.2 → (∀ k, k ∈ keysOf b.2 ↔ k ∈ keysOf a.2 ++ [key]) →
      keysOf b.2 = keysOf a.2 ++ [key] := by
  intro a ha b hb hka hk
  simp only [keyAppends, List.all_eq_true, Bool.or_eq_true, Bool.not_eq_true', beq_iff_eq] at h
  rcases h a ha b hb with h | h
  · exfalso
    have h1 : (keysOf b.2).all (fun k => k == key || (keysOf a.2).contains k) = true := by
      simp only [List.all_eq_true, Bool.or_eq_true, beq_iff_eq, List.contains_iff_mem]
      intro k hk'
      have := (hk k).1 hk'
      simp only [List.mem_append, List.mem_singleton] at this
      exact this.symm
    have h2 : (keysOf a.2).all (fun k => (keysOf b.2).contains k) = true := by
      simp only [List.all_eq_true, List.contains_iff_mem]
      intro k hk'
      exact (hk k).2 (by simp [hk'])
    have h3 : (keysOf b.2).contains key = true := by
      simp only [List.contains_iff_mem]
      exact (hk key).2 (by simp)
    have h0 : (keysOf a.2).contains key = false := by
      simpa [List.contains_iff_mem] using hka
    rw [h0, h1, h2, h3] at h
    cases h
  · exact h

section last

variable (d : DCtx)

/-- `_append_value(root)` for one value, `key` being the LAST key of the well-typed `root`: the
    last segment is replaced; kept when some template with the keys of `root` accepts the result -/
theorem withVal_last (hwf : sidHierOk d.ctx.env d.ctx.cfg.sid.templates = true) (root : Sid)
    (hr : wellTyped d.ctx.env d.ctx.cfg.sid.templates root) (key : Str)
    (hlast : (root.fields.map (·.1)).getLast? = some key) (v : Str) (hv : constValOk v = true) :
    withVal d key root v =
      .ok (if typedAs d.ctx (root.fields.map (·.1)) (replaceLast root.string v)
           then [replaceLast root.string v] else []) := by
  obtain ⟨h1, _, _, _⟩ := HierL.hier_unpack _ _ hwf
  have H := SidL.tableOk_unpack _ _ h1
  have hty := wellTyped_typed d.ctx hwf root hr
  obtain ⟨t, hl, _, hacc, hf⟩ := hr
  have hmem := SidL.mem_of_lookup _ _ _ hl
  obtain ⟨hnd, hKne, hlen, hfst, _, _⟩ := HierL.typed_facts d.ctx.env t (H _ hmem).1 root.string hacc
  rw [← hf] at hfst
  rw [hfst] at hlast ⊢
  obtain ⟨hvne, hvsl, hvnl⟩ := (constValOk_iff v).1 hv
  obtain ⟨K0, hK0⟩ := List.getLast?_eq_some_iff.1 hlast
  have hsne : Str.splitOn '/' root.string ≠ [] := Str.splitOn_ne_nil '/' root.string
  have hsegs := List.dropLast_concat_getLast hsne
  generalize hsl : (Str.splitOn '/' root.string).getLast hsne = sl at hsegs
  have hlen0 : K0.length = (Str.splitOn '/' root.string).dropLast.length := by
    rw [List.length_dropLast, hlen, hK0]
    simp
  have hkey : key ∉ K0 := by
    rw [hK0] at hnd
    intro hk
    have := List.nodup_append.1 hnd
    exact this.2.2 key hk key (by simp) rfl
  have hset : Dict.set root.fields key v =
      (keysOf t).zip ((Str.splitOn '/' root.string).dropLast ++ [v]) := by
    rw [hf]
    unfold fieldsOf
    show Dict.set ((keysOf t).zip (Str.splitOn '/' root.string)) key v = _
    rw [hK0]
    conv => lhs; rw [← hsegs]
    rw [List.zip_append hlen0, List.zip_append hlen0]
    exact set_last _ key sl v (by rw [List.map_fst_zip (Nat.le_of_eq hlen0)]; exact hkey)
  have hd : HierL.DictOf d.ctx.cfg.sid.templates (keysOf t)
      ((Str.splitOn '/' root.string).dropLast ++ [v]) (Dict.set root.fields key v) :=
    { nodup := hnd
      len := by rw [List.length_append, ← hlen0, hK0]; simp
      perm := by rw [hset]
      ref := ⟨_, hmem, rfl⟩ }
  have hsl' : ∀ u ∈ (Str.splitOn '/' root.string).dropLast ++ [v], '/' ∉ u := by
    intro u hu
    rcases List.mem_append.1 hu with hu | hu
    · exact Str.splitOn_not_mem '/' root.string u (List.dropLast_subset _ hu)
    · simp only [List.mem_singleton] at hu
      subst hu
      exact hvsl
  exact withVal_of_dictOf d hwf root hty key v _ _ hd hKne hsl' (renderable_snoc _ v hvne hvnl)

/-- `_append_value(Sid(fr))` for one value, `key` NOT among the keys of `Sid(fr)`: `fr/v`, kept
    when `Sid(fr)` is typed and some template lists its keys followed by `key` and accepts `fr/v` -/
theorem withVal_child (hwf : sidHierOk d.ctx.env d.ctx.cfg.sid.templates = true) (key : Str)
    (hka : keyAppends d.ctx.cfg.sid.templates key = true) (fr : Str) (hne : fr ≠ [])
    (hk : key ∉ keysOfStr d.ctx fr) (v : Str) (hv : constValOk v = true) :
    withVal d key (ExpL.plainOf d.ctx fr) v =
      .ok (if admitsChild d.ctx key fr v then [fr ++ '/' :: v] else []) := by
  obtain ⟨h1, _, _, _⟩ := HierL.hier_unpack _ _ hwf
  have H := SidL.tableOk_unpack _ _ h1
  obtain ⟨hvne, hvsl, hvnl⟩ := (constValOk_iff v).1 hv
  have hfe : fr.isEmpty = false := by simp [hne]
  unfold ExpL.plainOf plainSid admitsChild
  unfold keysOfStr at hk
  simp only [hfe, Bool.false_eq_true, if_false]
  cases hfa : firstAccepting d.ctx.env d.ctx.cfg.sid.templates fr with
  | none =>
    simp only [Bool.false_eq_true, if_false]
    exact withVal_untyped d fr key v hne
  | some a =>
    obtain ⟨l, t⟩ := a
    rw [hfa] at hk
    simp only at hk ⊢
    obtain ⟨hmem, hacc⟩ := SidL.firstAccepting_some _ _ _ _ _ hfa
    obtain ⟨hnd, hKne, hlen, hfst, _, hflen⟩ := HierL.typed_facts d.ctx.env t (H _ hmem).1 fr hacc
    have hty : (⟨fr, l, fieldsOf t fr⟩ : Sid).typed = true := by
      unfold Sid.typed
      cases hff : fieldsOf t fr with
      | nil =>
        rw [hff] at hflen
        cases hkk : keysOf t with
        | nil => exact absurd hkk hKne
        | cons _ _ => rw [hkk] at hflen; simp at hflen
      | cons _ _ => rfl
    have hset : Dict.set (fieldsOf t fr) key v =
        (keysOf t ++ [key]).zip (Str.splitOn '/' fr ++ [v]) := by
      rw [UpdL.set_append_new _ key v (by rw [hfst]; exact hk)]
      unfold fieldsOf
      show (keysOf t).zip (Str.splitOn '/' fr) ++ [(key, v)] = _
      rw [List.zip_append hlen.symm]
      rfl
    have hjoin : Str.joinWith '/' (Str.splitOn '/' fr ++ [v]) = fr ++ '/' :: v := by
      rw [HierL.joinWith_concat '/' _ v (Str.splitOn_ne_nil '/' fr), Str.join_split]
    by_cases hex : ∃ b ∈ d.ctx.cfg.sid.templates,
        Dict.keysEq (Dict.set (fieldsOf t fr) key v) (keysOf b.2) = true
    · obtain ⟨b, hb, hkb⟩ := hex
      have hbK : keysOf b.2 = keysOf t ++ [key] := by
        apply keyAppends_unpack _ key hka (l, t) hmem b hb hk
        intro k
        rw [HierL.keysEq_iff, hset, List.map_fst_zip (by simp [hlen])] at hkb
        exact (hkb k).symm
      have hd : HierL.DictOf d.ctx.cfg.sid.templates (keysOf t ++ [key])
          (Str.splitOn '/' fr ++ [v]) (Dict.set (fieldsOf t fr) key v) :=
        { nodup := by
            rw [List.nodup_append]
            refine ⟨hnd, by simp, ?_⟩
            intro a ha b hb
            simp only [List.mem_singleton] at hb
            subst hb
            intro e
            subst e
            exact hk ha
          len := by simp [hlen]
          perm := by rw [hset]
          ref := ⟨b, hb, hbK⟩ }
      have hsl' : ∀ u ∈ Str.splitOn '/' fr ++ [v], '/' ∉ u := by
        intro u hu
        rcases List.mem_append.1 hu with hu | hu
        · exact Str.splitOn_not_mem '/' fr u hu
        · simp only [List.mem_singleton] at hu
          subst hu
          exact hvsl
      have := withVal_of_dictOf d hwf ⟨fr, l, fieldsOf t fr⟩ hty key v _ _ hd (by simp) hsl'
        (renderable_snoc _ v hvne hvnl)
      rw [hjoin] at this
      exact this
    · have hno : ∀ b ∈ d.ctx.cfg.sid.templates,
          Dict.keysEq (Dict.set (fieldsOf t fr) key v) (keysOf b.2) = false := by
        intro b hb
        cases hkb : Dict.keysEq (Dict.set (fieldsOf t fr) key v) (keysOf b.2) with
        | false => rfl
        | true => exact absurd ⟨b, hb, hkb⟩ hex
      rw [withVal_no_keys d hwf ⟨fr, l, fieldsOf t fr⟩ hty key v hno]
      have : typedAs d.ctx (keysOf t ++ [key]) (fr ++ '/' :: v) = false := by
        unfold typedAs
        rw [List.any_eq_false]
        intro b hb
        have := hno b hb
        intro hh
        simp only [Bool.and_eq_true, beq_iff_eq] at hh
        have hke : Dict.keysEq (Dict.set (fieldsOf t fr) key v) (keysOf b.2) = true := by
          rw [HierL.keysEq_iff, hset, List.map_fst_zip (by simp [hlen]), hh.1]
          intro k; exact Iff.rfl
        rw [hke] at this
        cases this
      simp [this]

/-- `_append_value(root)`, `key` the last key of `root`: the values that give a typed Sid, in the
    order of `values`, each replacing the last segment of the root -/
theorem appendValues_last (hwf : sidHierOk d.ctx.env d.ctx.cfg.sid.templates = true) (root : Sid)
    (hr : wellTyped d.ctx.env d.ctx.cfg.sid.templates root) (key : Str)
    (hlast : (root.fields.map (·.1)).getLast? = some key) (values : List Str)
    (hv : values.all constValOk = true) :
    d.appendValues key values root =
      .ok ((values.filter (fun v => typedAs d.ctx (root.fields.map (·.1)) (replaceLast root.string v))).map
        (replaceLast root.string)) := by
  rw [appendValues_eq, flatMapE_pure _ (fun v =>
    if typedAs d.ctx (root.fields.map (·.1)) (replaceLast root.string v)
    then [replaceLast root.string v] else []) values
    (fun v hvm => withVal_last d hwf root hr key hlast v (List.all_eq_true.1 hv v hvm))]
  congr 1
  induction values with
  | nil => rfl
  | cons v vs ih =>
    simp only [List.flatMap_cons, List.filter_cons]
    rw [ih (by simp only [List.all_cons, Bool.and_eq_true] at hv; exact hv.2)]
    split <;> simp

/-- `_append_value(Sid(fr))`, `key` not among the keys of `Sid(fr)`: `fr/v` for the values that
    give a typed Sid, in the order of `values` -/
theorem appendValues_child (hwf : sidHierOk d.ctx.env d.ctx.cfg.sid.templates = true) (key : Str)
    (hka : keyAppends d.ctx.cfg.sid.templates key = true) (fr : Str) (hne : fr ≠ [])
    (hk : key ∉ keysOfStr d.ctx fr) (values : List Str) (hv : values.all constValOk = true) :
    d.appendValues key values (ExpL.plainOf d.ctx fr) =
      .ok ((values.filter (admitsChild d.ctx key fr)).map (fun v => fr ++ '/' :: v)) := by
  rw [appendValues_eq, flatMapE_pure _ (fun v =>
    if admitsChild d.ctx key fr v then [fr ++ '/' :: v] else []) values
    (fun v hvm => withVal_child d hwf key hka fr hne hk v (List.all_eq_true.1 hv v hvm))]
  congr 1
  induction values with
  | nil => rfl
  | cons v vs ih =>
    simp only [List.flatMap_cons, List.filter_cons]
    rw [ih (by simp only [List.all_cons, Bool.and_eq_true] at hv; exact hv.2)]
    split <;> simp

/-! ### one found root -/

theorem plainOf_string (c : Ctx) (s : Str) : (ExpL.plainOf c s).string = s := by
  unfold ExpL.plainOf
  by_cases hs : s = []
  · subst hs; rfl
  · have : s.isEmpty = false := by simp [hs]
    simp only [this, Bool.false_eq_true, if_false]
    unfold plainSid
    cases firstAccepting c.env c.cfg.sid.templates s <;> rfl

/-- the key's value is fixed in the search: `found_root / value`, whatever its type -/
theorem perRoot_fixed (h1 : sidTableOk d.ctx.env d.ctx.cfg.sid.templates = true) (key : Str)
    (values : List Str) (root : Sid) (v : Str) (hv : root.fields.get key = some v)
    (hvs : v ≠ ['*']) (hvq : '?' ∉ v) (hvc : ':' ∉ v) (fr : Str) (hq : '?' ∉ fr) (hc : ':' ∉ fr) :
    perRoot d key values root fr = .ok [fr ++ '/' :: v] := by
  have hb : (v != ['*']) = true := by simpa using hvs
  unfold perRoot Ctx.div
  rw [ExpL.sidOfString_plain d.ctx h1 fr hq hc]
  simp only [hv, hb, if_true, plainOf_string]
  rw [ExpL.sidOfString_plain d.ctx h1 (fr ++ '/' :: v)
    (by simp only [List.mem_append, List.mem_cons, not_or]; exact ⟨hq, by decide, hvq⟩)
    (by simp only [List.mem_append, List.mem_cons, not_or]; exact ⟨hc, by decide, hvc⟩)]
  simp only [plainOf_string]

/-- the key is searched ('*'): the constant values are appended to the found root -/
theorem perRoot_star (hwf : sidHierOk d.ctx.env d.ctx.cfg.sid.templates = true) (key : Str)
    (hka : keyAppends d.ctx.cfg.sid.templates key = true)
    (values : List Str) (hvals : values.all constValOk = true) (root : Sid)
    (hv : root.fields.get key = some ['*']) (fr : Str) (hne : fr ≠ []) (hq : '?' ∉ fr)
    (hc : ':' ∉ fr) (hk : key ∉ keysOfStr d.ctx fr) :
    perRoot d key values root fr =
      .ok ((values.filter (admitsChild d.ctx key fr)).map (fun v => fr ++ '/' :: v)) := by
  obtain ⟨h1, _, _, _⟩ := HierL.hier_unpack _ _ hwf
  unfold perRoot
  rw [ExpL.sidOfString_plain d.ctx h1 fr hq hc]
  simp only [hv, bne_self_eq_false, Bool.false_eq_true, if_false]
  exact appendValues_child d hwf key hka fr hne hk values hvals

/-! ### the parent of the root -/

/-- a root with at least two fields: its parent is the well-typed Sid of all segments but the
    last, and is not the root itself -/
theorem parent_ge2 (c : Ctx) (hwf : sidHierOk c.env c.cfg.sid.templates = true) (root : Sid)
    (hr : wellTyped c.env c.cfg.sid.templates root) (hn : 2 ≤ root.fields.length)
    (hren : renderable (parentStr root.string)) :
    ∃ rp, c.parent root = .ok rp ∧ wellTyped c.env c.cfg.sid.templates rp ∧
      rp.string = parentStr root.string ∧ rp.fields = root.fields.dropLast ∧
      Sid.eqv root rp = false ∧ (∃ last, rp.string ++ '/' :: last = root.string) := by
  obtain ⟨h1, _, _, hplain⟩ := HierL.hier_unpack _ _ hwf
  have H := SidL.tableOk_unpack _ _ h1
  have hr' := hr
  obtain ⟨t, hl, _, hacc, hf⟩ := hr'
  have hmem := SidL.mem_of_lookup _ _ _ hl
  obtain ⟨_, _, hlen, _, _, hflen⟩ := HierL.typed_facts c.env t (H _ hmem).1 root.string hacc
  rw [← hf] at hflen
  have hsl : (Str.splitOn '/' root.string).length = root.fields.length := by rw [hlen, hflen]
  have hps : parentStr root.string =
      Str.joinWith '/' ((Str.splitOn '/' root.string).take (root.fields.length - 1)) := by
    unfold parentStr
    rw [List.dropLast_eq_take, hsl]
  obtain ⟨rp, hp1, _, hp3, hp4, hp5, hp6⟩ := HierL.parent_core c hwf root hr hn (by rw [← hps]; exact hren)
  refine ⟨rp, hp1, hp3, by rw [hp5, hps], by rw [hp4, List.dropLast_eq_take], ?_, ⟨_, hp6⟩⟩
  cases he : Sid.eqv root rp with
  | false => rfl
  | true =>
    exfalso
    have huri : root.uri = rp.uri := by simpa [Sid.eqv] using he
    obtain ⟨t', hl', _, _, _⟩ := hp3
    have hmem' := SidL.mem_of_lookup _ _ _ hl'
    have hne1 : root.type ≠ [] := HierL.tableOk_label_ne _ _ h1 _ hmem
    have hne2 : rp.type ≠ [] := HierL.tableOk_label_ne _ _ h1 _ hmem'
    have := (C14.c14_uri_inj root rp (hplain _ hmem).1 (hplain _ hmem').1
      (fun h => absurd h hne1) (fun h => absurd h hne2) huri).2
    have hl2 := congrArg List.length hp6
    rw [this] at hl2
    simp at hl2

/-- a root with exactly one field is its own parent -/
theorem parent_single (c : Ctx) (hwf : sidHierOk c.env c.cfg.sid.templates = true) (root : Sid)
    (hr : wellTyped c.env c.cfg.sid.templates root) (hn : root.fields.length = 1)
    (hq : '?' ∉ root.string) : c.parent root = .ok root := by
  rw [← sidOfString_uri c hwf root hr hq]
  unfold Ctx.parent Ctx.copy
  match hf : root.fields, hn with
  | [a], _ => simp

theorem eqv_self (x : Sid) : Sid.eqv x x = true := by simp [Sid.eqv]

/-- the value of the last key is the last segment -/
theorem get_last_key (c : Ctx) (hwf : sidHierOk c.env c.cfg.sid.templates = true) (root : Sid)
    (hr : wellTyped c.env c.cfg.sid.templates root) (key : Str)
    (hlast : (root.fields.map (·.1)).getLast? = some key) :
    root.fields.get key = (Str.splitOn '/' root.string).getLast? := by
  obtain ⟨h1, _, _, _⟩ := HierL.hier_unpack _ _ hwf
  have H := SidL.tableOk_unpack _ _ h1
  obtain ⟨t, hl, _, hacc, hf⟩ := hr
  have hmem := SidL.mem_of_lookup _ _ _ hl
  obtain ⟨hnd, _, hlen, hfst, hsnd, _⟩ := HierL.typed_facts c.env t (H _ hmem).1 root.string hacc
  rw [← hf] at hfst hsnd
  have hnd' : (root.fields.map (·.1)).Nodup := by rw [hfst]; exact hnd
  obtain ⟨ys, hys⟩ := List.getLast?_eq_some_iff.1 hlast
  have hfne : root.fields ≠ [] := by
    intro h0; rw [h0] at hys; simp at hys
  have hlastf := List.dropLast_concat_getLast hfne
  have hk : (root.fields.getLast hfne).1 = key := by
    have : (root.fields.map (·.1)).getLast? = some (root.fields.getLast hfne).1 := by
      rw [List.getLast?_map, List.getLast?_eq_some_getLast hfne]; rfl
    rw [hlast] at this
    injection this with this
    exact this.symm
  have hmemf : (key, (root.fields.getLast hfne).2) ∈ root.fields := by
    rw [← hk]
    exact List.getLast_mem hfne
  rw [HierL.get_of_mem root.fields hnd' key _ hmemf, ← hsnd, List.getLast?_map,
    List.getLast?_eq_some_getLast hfne]
  rfl

end last

end AllL
