/-
  Spil.Lemmas.DetC06 — the dictionary `sid.path()` re-renders for a Sid that `path_to_dict` read
  from a path carries, under `pathConfOk`, exactly the captured path values (or vocabulary
  defaults): it satisfies `valuesOk`, so the reverse check of `format_one` cannot clash.
-/
import Spil.Lemmas.DetDollar

namespace Det

open Spec

/-! ### association lists -/

theorem lookup_some_mem {β : Type} : ∀ (l : List (Str × β)) (k : Str) (v : β),
    l.lookup k = some v → (k, v) ∈ l
  | [], k, v, h => by simp at h
  | (k0, v0) :: l, k, v, h => by
    rw [List.lookup_cons] at h
    cases hb : k == k0 with
    | true =>
      rw [hb] at h
      simp only [Option.some.injEq] at h
      have : k = k0 := by simpa using hb
      subst this h
      simp
    | false =>
      rw [hb] at h
      exact List.mem_cons_of_mem _ (lookup_some_mem l k v h)

theorem lookup_of_mem_distinct {β : Type} : ∀ (l : List (Str × β)),
    distinctStr (l.map (·.1)) = true → ∀ (k : Str) (v : β), (k, v) ∈ l → l.lookup k = some v
  | [], _, k, v, h => by simp at h
  | (k0, v0) :: l, hd, k, v, h => by
    simp only [List.map_cons, distinctStr, Bool.and_eq_true, Bool.not_eq_true',
      List.contains_eq_mem, decide_eq_false_iff_not] at hd
    simp only [List.mem_cons, Prod.mk.injEq] at h
    rw [List.lookup_cons]
    rcases h with ⟨rfl, rfl⟩ | h
    · simp
    · have hne : k ≠ k0 := by
        rintro rfl
        exact hd.1 (List.mem_map.mpr ⟨(k, v), h, rfl⟩)
      have hb : (k == k0) = false := by simpa using hne
      rw [hb]
      exact lookup_of_mem_distinct l hd.2 k v h

theorem ite_pair {α β : Type} (c : Prop) [Decidable c] (a : α) (x y : β) :
    (if c then (a, x) else (a, y)) = (a, if c then x else y) := by
  by_cases h : c <;> simp [h]

/-- a key-preserving map acts on `get` value-wise -/
theorem get_map_kv (g : Str → Str → Str) (F : Str × Str → Str × Str)
    (hF : ∀ p, F p = (p.1, g p.1 p.2)) (k : Str) : ∀ d : Dict,
    Dict.get (d.map F) k = (Dict.get d k).map (g k)
  | [] => rfl
  | (k0, v0) :: d => by
    simp only [List.map_cons, hF, Dict.get, List.lookup_cons]
    cases hb : k == k0 with
    | true =>
      have : k = k0 := by simpa using hb
      subst this; rfl
    | false => exact get_map_kv g F hF k d

theorem get_keyed (h : Str → Str) (k v0 : Str) : ∀ ks : List Str,
    Dict.get (ks.map (fun k => (k, h k))) k = some v0 → v0 = h k
  | [], hg => by simp [Dict.get] at hg
  | k0 :: ks, hg => by
    simp only [List.map_cons, Dict.get, List.lookup_cons] at hg
    cases hb : k == k0 with
    | true =>
      rw [hb] at hg
      have : k = k0 := by simpa using hb
      subst this
      simpa using hg.symm
    | false =>
      rw [hb] at hg
      exact get_keyed h k v0 ks hg

/-! ### `get_key` -/

theorem getKey_of_mem_distinct : ∀ (m : List (Str × Str)),
    distinctStr (m.map (·.2)) = true → ∀ u s, (u, s) ∈ m → Ctx.getKey m s = u
  | [], _, u, s, h => by simp at h
  | (k0, v0) :: m, hd, u, s, h => by
    simp only [List.map_cons, distinctStr, Bool.and_eq_true, Bool.not_eq_true',
      List.contains_eq_mem, decide_eq_false_iff_not] at hd
    simp only [List.mem_cons, Prod.mk.injEq] at h
    unfold Ctx.getKey
    rw [List.find?_cons]
    by_cases hv : v0 = s
    · subst hv
      simp only [beq_self_eq_true]
      rcases h with ⟨rfl, _⟩ | h
      · rfl
      · exact absurd (List.mem_map.mpr ⟨(u, v0), h, rfl⟩) hd.1
    · have hb : (v0 == s) = false := by simpa using hv
      simp only [hb]
      rcases h with ⟨_, rfl⟩ | h
      · exact absurd rfl hv
      · have := getKey_of_mem_distinct m hd.2 u s h
        unfold Ctx.getKey at this
        exact this

theorem getKey_not_mem (m : List (Str × Str)) (u : Str) (h : ∀ pv ∈ m, pv.2 ≠ u) :
    Ctx.getKey m u = u := by
  unfold Ctx.getKey
  have : m.find? (·.2 == u) = none := by
    rw [List.find?_eq_none]
    intro x hx
    simpa using h x hx
  rw [this]

/-! ### the three value passes -/

/-- path value → sid value -/
def g0 (pc : PathConf) (k v : Str) : Str :=
  match pc.mapping.lookup k with
  | some m => if m.isEmpty then v else (m.lookup v).getD v
  | none => v

/-- default for an empty value -/
def g1 (pc : PathConf) (k v : Str) : Str :=
  match pc.defaults.lookup k with
  | some d => if v.isEmpty && !d.isEmpty then d else v
  | none => v

/-- sid value → path value -/
def g2 (pc : PathConf) (k v : Str) : Str :=
  match pc.mapping.lookup k with
  | some m => if v.isEmpty || m.isEmpty then v else Ctx.getKey m v
  | none => v

theorem mapToSid_get (pc : PathConf) (d0 : Dict) (k : Str) :
    (Ctx.mapToSid pc d0).get k = (d0.get k).map (g0 pc k) := by
  unfold Ctx.mapToSid
  apply get_map_kv (g0 pc)
  rintro ⟨k', v⟩
  simp only [g0]
  generalize pc.mapping.lookup k' = o
  cases o <;> simp only [ite_pair]

theorem foldl_get (pc : PathConf) (step : Dict → Str → Dict)
    (hstep : ∀ d k' k v, (step d k').get k = some v →
      d.get k = some v ∨ pc.defaults.lookup k = some v) :
    ∀ (ks : List Str) (d : Dict) (k v : Str), (ks.foldl step d).get k = some v →
      d.get k = some v ∨ pc.defaults.lookup k = some v
  | [], d, k, v, h => Or.inl h
  | k' :: ks, d, k, v, h => by
    rw [List.foldl_cons] at h
    rcases foldl_get pc step hstep ks _ k v h with h1 | h1
    · exact hstep d k' k v h1
    · exact Or.inr h1

theorem pathData_get (pc : PathConf) (data : Dict) (keys : List Str) (k v : Str)
    (h : (Ctx.pathData pc data keys).get k = some v) :
    (∃ v0, data.get k = some v0 ∧ v = g2 pc k (g1 pc k v0)) ∨ pc.defaults.lookup k = some v := by
  unfold Ctx.pathData at h
  rcases foldl_get pc _ (by
    intro d k' k v hg
    split at hg
    · next dv hdv =>
      split at hg
      · simp only [Dict.get, List.lookup_append] at hg
        cases hd : List.lookup k d with
        | some x => rw [hd] at hg; left; simpa [Dict.get, hd] using hg
        | none =>
          rw [hd] at hg
          simp only [Option.none_or, List.lookup_cons, List.lookup_nil] at hg
          right
          cases hb : k == k' with
          | true =>
            rw [hb] at hg
            have : k = k' := by simpa using hb
            subst this
            rw [hdv]; exact hg
          | false => rw [hb] at hg; simp at hg
      · exact Or.inl hg
    · exact Or.inl hg) keys _ k v h with h1 | h1
  · left
    rw [get_map_kv (g2 pc) _ (by
      rintro ⟨k', v'⟩
      simp only [g2]
      generalize pc.mapping.lookup k' = o
      cases o <;> simp only [ite_pair])] at h1
    rw [get_map_kv (g1 pc) _ (by
      rintro ⟨k', v'⟩
      simp only [g1]
      generalize pc.defaults.lookup k' = o
      cases o <;> simp only [ite_pair])] at h1
    cases hd : data.get k with
    | none => rw [hd] at h1; simp at h1
    | some v0 =>
      rw [hd] at h1
      simp only [Option.map_some, Option.some.injEq] at h1
      exact ⟨v0, rfl, h1.symm⟩
  · exact Or.inr h1

/-! ### `pathConfOk`, unfolded -/

theorem confOk_labels (e : Env) (pc : PathConf) (h : pathConfOk e pc = true) :
    distinctStr (pc.templates.map (·.1)) = true := by
  simp only [pathConfOk, Bool.and_eq_true] at h
  exact h.1.1.1

theorem confOk_tpl (e : Env) (pc : PathConf) (h : pathConfOk e pc = true) (l : Str) (t : Template)
    (hm : (l, t) ∈ pc.templates) : pathTplOk e t = true := by
  simp only [pathConfOk, Bool.and_eq_true, List.all_eq_true] at h
  exact h.1.1.2 (l, t) hm

theorem confOk_default (e : Env) (pc : PathConf) (h : pathConfOk e pc = true) (k dv : Str)
    (hd : pc.defaults.lookup k = some dv) (l : Str) (t : Template) (hm : (l, t) ∈ pc.templates)
    (ex : Re) (htok : Tok.ph k ex ∈ t) :
    ex.accepts e dv = true ∧ (ex ≠ Re.star Cls.notSlash ∨ unmapped pc k = true) := by
  simp only [pathConfOk, Bool.and_eq_true, List.all_eq_true] at h
  have := h.2 (k, dv) (lookup_some_mem _ _ _ hd) (l, t) hm (.ph k ex) htok
  simp only [bne_self_eq_false, Bool.false_or, Bool.and_eq_true, Bool.or_eq_true,
    Bool.not_eq_true', beq_eq_false_iff_ne, ne_eq] at this
  exact this

theorem confOk_mapping (e : Env) (pc : PathConf) (h : pathConfOk e pc = true) (k : Str)
    (m : List (Str × Str)) (hm : pc.mapping.lookup k = some m) :
    (∀ pv ∈ m, pv.2 ≠ []) ∧
      ∀ l t, (l, t) ∈ pc.templates → ∀ ex, Tok.ph k ex ∈ t →
        (∀ pv ∈ m, ex.accepts e pv.2 = false) ∧
        (∀ pv ∈ m, ex.accepts e pv.1 = true → ex.accepts e (Ctx.getKey m pv.2) = true) := by
  simp only [pathConfOk, mappingOk, Bool.and_eq_true, List.all_eq_true] at h
  have := h.1.2 (k, m) (lookup_some_mem _ _ _ hm)
  refine ⟨?_, ?_⟩
  · intro pv hpv
    have := this.1.2 pv hpv
    simpa using this
  · intro l t hlt ex htok
    have := this.2 (l, t) hlt (.ph k ex) htok
    simp only [bne_self_eq_false, Bool.false_or, Bool.and_eq_true, List.all_eq_true,
      Bool.not_eq_true', Bool.or_eq_true] at this
    refine ⟨this.1, ?_⟩
    intro pv hpv hacc
    rcases this.2 pv hpv with h1 | h1
    · rw [hacc] at h1; exact absurd h1 (by simp)
    · exact h1

theorem valuesOk_iff (e : Env) (t : Template) (d : Dict) :
    valuesOk e t d = true ↔ ∀ k ex, Tok.ph k ex ∈ t → ∃ v, d.get k = some v ∧
      (if ex == Re.star Cls.notSlash then !Str.hasChar '/' v else ex.accepts e v) = true := by
  simp only [valuesOk, List.all_eq_true]
  constructor
  · intro h k ex hm
    have := h _ hm
    simp only at this
    cases hg : d.get k with
    | none => rw [hg] at this; simp at this
    | some v => rw [hg] at this; exact ⟨v, rfl, this⟩
  · intro h tok hm
    cases tok with
    | lit s => rfl
    | ph k ex =>
      obtain ⟨v, hv, hc⟩ := h k ex hm
      simp only [hv]
      exact hc

theorem phAtom_of_mem (k : Str) (ex : Re) : ∀ (t : Template) (fl : List Atom),
    flatAtoms t = some fl → Tok.ph k ex ∈ t → ∃ a ∈ fl, phAtom k ex = some a
  | [], _, _, hm => by simp at hm
  | .lit s :: rest, fl, h, hm => by
    obtain ⟨as, has, rfl⟩ := (flatAtoms_lit s rest fl).mp h
    simp only [List.mem_cons, reduceCtorEq, false_or] at hm
    obtain ⟨a, ha, hp⟩ := phAtom_of_mem k ex rest as has hm
    exact ⟨a, by simp [ha], hp⟩
  | .ph k' ex' :: rest, fl, h, hm => by
    obtain ⟨a', as, ha', has, rfl⟩ := (flatAtoms_ph k' ex' rest fl).mp h
    simp only [List.mem_cons, Tok.ph.injEq] at hm
    rcases hm with ⟨rfl, rfl⟩ | hm
    · exact ⟨a', by simp, ha'⟩
    · obtain ⟨a, ha, hp⟩ := phAtom_of_mem k ex rest as has hm
      exact ⟨a, by simp [ha], hp⟩

theorem mem_phKeys (k : Str) (ex : Re) : ∀ t : Template, Tok.ph k ex ∈ t → k ∈ phKeys t
  | [], hm => by simp at hm
  | .lit s :: rest, hm => by
    simp only [List.mem_cons, reduceCtorEq, false_or] at hm
    exact mem_phKeys k ex rest hm
  | .ph k' ex' :: rest, hm => by
    simp only [List.mem_cons, Tok.ph.injEq] at hm
    simp only [phKeys, List.mem_cons]
    rcases hm with ⟨rfl, _⟩ | hm
    · exact Or.inl rfl
    · exact Or.inr (mem_phKeys k ex rest hm)

/-- a non-free placeholder only has non-empty words -/
theorem closed_word_ne_nil (e : Env) (k : Str) (ex : Re) (a : Atom) (ha : phAtom k ex = some a)
    (hoka : atomOk e a = true) (hex : ex ≠ Re.star Cls.notSlash) (u : Str) (hu : aword e a u) :
    u ≠ [] := by
  simp only [phAtom] at ha
  split at ha
  · next h => exact absurd (by simpa using h) hex
  · simp only [Option.map_eq_some_iff] at ha
    obtain ⟨alts, _, rfl⟩ := ha
    obtain ⟨w, hw, hm⟩ := hu
    simp only [atomOk, Bool.and_eq_true, List.all_eq_true, Bool.not_eq_true',
      List.isEmpty_eq_false_iff] at hoka
    have hwne : w ≠ [] := (hoka.2 w hw).1
    intro h0; subst h0
    cases w with
    | nil => exact hwne rfl
    | cons _ _ => simp at hm

/-- path value → sid value → (default) → path value: a captured word comes back as a word the
    expression accepts (the same word when the mapping is one-to-one; the first word listed for its
    sid value otherwise; the default when a free key captured the empty string) -/
theorem value_reaccepted (e : Env) (pc : PathConf) (hwf : pathConfOk e pc = true) (l : Str)
    (t : Template) (hlt : (l, t) ∈ pc.templates) (k : Str) (ex : Re) (htok : Tok.ph k ex ∈ t)
    (a : Atom) (ha : phAtom k ex = some a) (hoka : atomOk e a = true) (u : Str)
    (hu : aword e a u) : ex.accepts e (g2 pc k (g1 pc k (g0 pc k u))) = true := by
  have hacc : ex.accepts e u = true := (ph_accepts e k ex a ha u).mpr hu
  -- the core: when the default pass leaves `u` and every non-empty value alone
  have core : (∀ x, (x = u ∨ x ≠ []) → g1 pc k x = x) →
      ex.accepts e (g2 pc k (g1 pc k (g0 pc k u))) = true := by
    intro hg1
    cases hm : pc.mapping.lookup k with
    | none =>
      have h0 : g0 pc k u = u := by simp [g0, hm]
      rw [h0, hg1 u (Or.inl rfl)]
      simpa [g2, hm] using hacc
    | some m =>
      obtain ⟨hnonempty, hcl⟩ := confOk_mapping e pc hwf k m hm
      obtain ⟨hnot, hsyn⟩ := hcl l t hlt ex htok
      by_cases hme : m.isEmpty = true
      · have h0 : g0 pc k u = u := by simp [g0, hm, hme]
        rw [h0, hg1 u (Or.inl rfl)]
        simpa [g2, hm, hme] using hacc
      · cases hlu : m.lookup u with
        | some s =>
          have h0 : g0 pc k u = s := by simp [g0, hm, hme, hlu]
          have hmem := lookup_some_mem m u s hlu
          have hsne : s ≠ [] := hnonempty _ hmem
          rw [h0, hg1 s (Or.inr hsne)]
          have : s.isEmpty = false := by simpa using hsne
          simp only [g2, hm, this, Bool.false_or, hme]
          exact hsyn (u, s) hmem hacc
        | none =>
          have h0 : g0 pc k u = u := by simp [g0, hm, hme, hlu]
          rw [h0, hg1 u (Or.inl rfl)]
          simp only [g2, hm]
          split
          · exact hacc
          · rw [getKey_not_mem]
            · exact hacc
            · intro pv hpv heq
              have := hnot pv hpv
              rw [heq, hacc] at this
              simp at this
  cases hd : pc.defaults.lookup k with
  | none =>
    apply core
    intro x _
    simp [g1, hd]
  | some dd =>
    obtain ⟨hdacc, hcase⟩ := confOk_default e pc hwf k dd hd l t hlt ex htok
    rcases hcase with hns | hun
    · -- a closed placeholder: its words are non-empty, the default never replaces one
      apply core
      intro x hx
      have hxne : x ≠ [] := by
        rcases hx with rfl | hx
        · exact closed_word_ne_nil e k ex a ha hoka hns x hu
        · exact hx
      have : x.isEmpty = false := by simpa using hxne
      simp [g1, hd, this]
    · -- a free placeholder with a default: the key is not mapped
      have h0 : g0 pc k u = u := by
        simp only [unmapped] at hun
        simp only [g0]
        split
        · next m hm => rw [hm] at hun; simp only at hun; simp [hun]
        · rfl
      have h2 : ∀ x, g2 pc k x = x := by
        intro x
        simp only [unmapped] at hun
        simp only [g2]
        split
        · next m hm => rw [hm] at hun; simp only at hun; simp [hun]
        · rfl
      rw [h0, h2]
      simp only [g1, hd]
      split
      · exact hdacc
      · exact hacc

/-- the dictionary `dict_to_path` renders for fields that `path_to_dict` read with template `t`
    satisfies `valuesOk` for `t` (as soon as it has all the keys of `t`) -/
theorem valuesOk_pathData (e : Env) (pc : PathConf) (hwf : pathConfOk e pc = true) (l : Str)
    (t : Template) (hlt : (l, t) ∈ pc.templates) (d0 : Dict) (hv0 : valuesOk e t d0 = true)
    (ks : List Str)
    (hkeys : Dict.keysEq (Ctx.pathData pc
      ((ks.filter (fun k => (Ctx.mapToSid pc d0).hasKey k)).map
        (fun k => (k, ((Ctx.mapToSid pc d0).get k).getD []))) (Template.keys t))
      (Template.keys t) = true) :
    valuesOk e t (Ctx.pathData pc
      ((ks.filter (fun k => (Ctx.mapToSid pc d0).hasKey k)).map
        (fun k => (k, ((Ctx.mapToSid pc d0).get k).getD []))) (Template.keys t)) = true := by
  have hok := confOk_tpl e pc hwf l t hlt
  obtain ⟨fl, hfl, _, hatom, _⟩ := (pathTplOk_iff e t).mp hok
  rw [valuesOk_iff] at hv0 ⊢
  intro k ex htok
  obtain ⟨u, hu, hcu⟩ := hv0 k ex htok
  obtain ⟨a, hafl, ha⟩ := phAtom_of_mem k ex t fl hfl htok
  have hoka : atomOk e a = true := by
    simp only [List.all_eq_true] at hatom
    exact hatom a hafl
  have hk : k ∈ Template.keys t := by
    rw [keys_eq_dedup, mem_dedup]; exact mem_phKeys k ex t htok
  simp only [Dict.keysEq, Bool.and_eq_true, List.all_eq_true] at hkeys
  obtain ⟨v, hv⟩ := PathL.hasKey_get _ k (hkeys.2 k hk)
  refine ⟨v, hv, ?_⟩
  rcases pathData_get pc _ _ k v hv with ⟨v0, hv0', rfl⟩ | hdef
  · have h1 := get_keyed _ k v0 _ hv0'
    rw [mapToSid_get, hu] at h1
    simp only [Option.map_some, Option.getD_some] at h1
    subst h1
    have hre := value_reaccepted e pc hwf l t hlt k ex htok a ha hoka u
      ((valuesOk_clause e k ex a ha u).mp hcu)
    exact (valuesOk_clause e k ex a ha _).mpr ((ph_accepts e k ex a ha _).mp hre)
  · obtain ⟨hacc, _⟩ := confOk_default e pc hwf k v hdef l t hlt ex htok
    exact (valuesOk_clause e k ex a ha _).mpr ((ph_accepts e k ex a ha _).mp hacc)

/-! ### `path_to_dict`, `sid.path`, `path_to_sid` -/

theorem resolveFirstGo_mem (e : Env) (cd : Bool) (s : Str) : ∀ (ts : List (Str × Template))
    (l : Str) (d : Dict), Resolver.resolveFirstGo e cd s ts = .ok (some (l, d)) →
    ∃ t, (l, t) ∈ ts ∧ Resolver.resolveTpl e cd t s = .ok (some d)
  | [], l, d, h => by simp [Resolver.resolveFirstGo] at h
  | (l', t') :: ts, l, d, h => by
    simp only [Resolver.resolveFirstGo] at h
    split at h
    · simp at h
    · next d' hr =>
      simp only [Except.ok.injEq, Option.some.injEq, Prod.mk.injEq] at h
      obtain ⟨rfl, rfl⟩ := h
      exact ⟨t', by simp, hr⟩
    · obtain ⟨t, ht, hr⟩ := resolveFirstGo_mem e cd s ts l d h
      exact ⟨t, by simp [ht], hr⟩

/-- what a successful `path_to_dict` returns -/
theorem pathToDict_some (c : Ctx) (pc : PathConf) (p ty : Str) (fields : Dict)
    (h : c.pathToDict pc p none = .ok (some (ty, fields))) :
    ∃ (t : Template) (d0 : Dict) (ks : List Str), (ty, t) ∈ pc.templates ∧
      Resolver.resolveTpl c.env true t p = .ok (some d0) ∧
      fields = (ks.filter (fun k => (Ctx.mapToSid pc d0).hasKey k)).map
        (fun k => (k, ((Ctx.mapToSid pc d0).get k).getD [])) := by
  rw [PathL.pathToDict_none_eq] at h
  split at h
  · simp at h
  · simp at h
  · simp at h
  · next template data hr =>
    split at h
    · simp at h
    · next ks _ =>
      simp only [Except.ok.injEq, Option.some.injEq, Prod.mk.injEq] at h
      obtain ⟨rfl, rfl⟩ := h
      unfold Resolver.resolveFirst at hr
      split at hr
      · simp at hr
      · obtain ⟨t, ht, hrt⟩ := resolveFirstGo_mem _ _ _ _ _ _ hr
        exact ⟨t, data, ks, ht, hrt, rfl⟩

/-- an exception of `sid.path(config)` is a clash of the reverse check on the dictionary that
    `dict_to_path` prepared, which has exactly the keys of the template -/
theorem sidPath_err_data (c : Ctx) (cfg : Option Str) (pc : PathConf)
    (hpc : c.cfg.pathConf? cfg = some pc) (x : Sid) (e : Err)
    (h : c.sidPath cfg x = .error e) :
    ∃ t, pc.resolver.lookup x.type = some t ∧
      Dict.keysEq (Ctx.pathData pc x.fields (Template.keys t)) (Template.keys t) = true ∧
      Resolver.formatOne c.env pc.resolver (Ctx.pathData pc x.fields (Template.keys t)) x.type =
        .error .resolva := by
  unfold Ctx.sidPath at h
  split at h
  · simp at h
  · rw [hpc] at h
    simp only at h
    split at h
    · simp at h
    · simp at h
    · next e' hne hd =>
      unfold Ctx.dictToPath at hd
      split at hd
      · exact absurd (by simpa using hd.symm) hne
      · split at hd
        · exact absurd (by simpa using hd.symm) hne
        · next t ht =>
          simp only at hd
          split at hd
          · exact absurd (by simpa using hd.symm) hne
          · split at hd
            · exact absurd (by simpa using hd.symm) hne
            · next hk =>
              have hk' : Dict.keysEq (Ctx.pathData pc x.fields (Template.keys t)) (Template.keys t) = true := by
                simpa using hk
              obtain ⟨f, hf⟩ := PathL.format_some_of_keysEq t _ hk'
              rw [hf] at hd
              simp only at hd
              split at hd
              · next y hm =>
                have := PathL.formatOne_err _ _ _ _ _ hm
                subst this
                exact ⟨t, ht, hk', hm⟩
              · split at hd
                · simp at hd
                · exact absurd (by simpa using hd.symm) hne

/-- `path_to_sid` never raises under `pathConfOk` -/
theorem pathToSid_total (c : Ctx) (p : Str) (cfg : Option Str) (pc : PathConf)
    (hpc : c.cfg.pathConf? cfg = some pc) (hwf : pathConfOk c.env pc = true)
    (hkt : ∀ label, (pc.resolver.lookup label).isSome →
       (c.cfg.sid.keyTypes.lookup (((Str.splitStr label c.cfg.sid.sep).head?).getD [])).isSome) :
    ∃ r, c.pathToSid p cfg = .ok r := by
  cases h : c.pathToSid p cfg with
  | ok r => exact ⟨r, rfl⟩
  | error e =>
    exfalso
    unfold Ctx.pathToSid at h
    rw [hpc] at h
    simp only at h
    obtain ⟨r, hr⟩ := PathL.pathToDict_total c pc p hkt
    rw [hr] at h
    match r, hr with
    | none, _ => simp at h
    | some (ty, fields), hr =>
      simp only at h
      split at h
      · simp at h
      · next hf =>
        have hf' : fields.isEmpty = false := by simpa using hf
        obtain ⟨s, hs⟩ := PathL.dictToSidStr_total c fields ty hf'
        rw [hs] at h
        simp only at h
        split at h
        · simp at h
        · split at h
          · next e' hp =>
            obtain ⟨t, hlook, hkeys, hclash⟩ := sidPath_err_data c cfg pc hpc _ _ hp
            simp only at hlook hkeys hclash
            obtain ⟨t', d0, ks, hlt, hres, rfl⟩ := pathToDict_some c pc p ty fields hr
            have hlook' : pc.resolver.lookup ty = some t' :=
              lookup_of_mem_distinct pc.templates (confOk_labels c.env pc hwf) ty t' hlt
            rw [hlook'] at hlook
            simp only [Option.some.injEq] at hlook
            subst hlook
            have hv0 := captures_ok c.env t' p d0 (confOk_tpl c.env pc hwf ty t' hlt) hres
            have hv := valuesOk_pathData c.env pc hwf ty t' hlt d0 hv0 ks hkeys
            exact no_clash c.env pc.resolver ty t' hlook' (confOk_tpl c.env pc hwf ty t' hlt) _ hv hclash
          · split at h <;> simp at h

/-- `Sid(path=p, config=c)` never raises under `pathConfOk` -/
theorem sidOfPath_total (c : Ctx) (p : Str) (cfg : Option Str) (pc : PathConf)
    (hpc : c.cfg.pathConf? cfg = some pc) (hwf : pathConfOk c.env pc = true)
    (hkt : ∀ label, (pc.resolver.lookup label).isSome →
       (c.cfg.sid.keyTypes.lookup (((Str.splitStr label c.cfg.sid.sep).head?).getD [])).isSome) :
    ∃ x, c.sidOfPath p cfg = .ok x := by
  unfold Ctx.sidOfPath
  split
  · exact ⟨_, rfl⟩
  · obtain ⟨r, hr⟩ := pathToSid_total c p cfg pc hpc hwf hkt
    rw [hr]
    exact ⟨_, rfl⟩

end Det
