/-
  Spil.Lemmas.PathXL — the whole-code path model (`Spil.Model.PathX`) IS the model the theorems are
  about (`Spil.Model.Path`) for every path configuration without typed mapping and extra keys.
-/
import Spil.Model.PathX

namespace PathXL

open Ctx

theorem plain_unpack (pc : PathConf) (h : pc.plain = true) :
    pc.typedMapping = [] ∧ pc.sidToExtra = [] ∧ pc.extraToSid = [] := by
  simp only [PathConf.plain, Bool.and_eq_true, List.isEmpty_iff] at h
  exact ⟨h.1.1, h.1.2, h.2⟩

theorem mapToSidX_eq (pc : PathConf) (h : pc.typedMapping = []) (t : Str) (d : Dict) :
    mapToSidX pc t d = mapToSid pc d := by
  unfold mapToSidX mapToSid
  apply List.map_congr_left
  intro kv _
  obtain ⟨k, v⟩ := kv
  simp only [h, List.lookup_nil]
  cases pc.mapping.lookup k with
  | none => rfl
  | some m => by_cases hm : m.isEmpty = true <;> simp [hm]

theorem extraToSidStep_eq (pc : PathConf) (h : pc.extraToSid = []) (d : Dict) :
    extraToSidStep pc d = d := by
  simp [extraToSidStep, h]

theorem addExtraKeys_eq (pc : PathConf) (h : pc.sidToExtra = []) (d : Dict) :
    addExtraKeys pc d = d := by
  simp [addExtraKeys, h]

theorem mapToSid_keys (pc : PathConf) (d : Dict) : (mapToSid pc d).keys = d.keys := by
  induction d with
  | nil => rfl
  | cons kv rest ih =>
    obtain ⟨k, v⟩ := kv
    have ih' : List.map (·.1) (mapToSid pc rest) = List.map (·.1) rest := ih
    unfold mapToSid at ih' ⊢
    simp only [Dict.keys, List.map_cons, List.cons.injEq]
    refine ⟨?_, ih'⟩
    cases pc.mapping.lookup k with
    | none => rfl
    | some m => by_cases hm : m.isEmpty = true <;> simp [hm]

theorem hasKey_iff_mem_keys (d : Dict) (k : Str) : d.hasKey k = true ↔ k ∈ d.keys := by
  simp only [Dict.hasKey, Dict.keys, List.any_eq_true, List.mem_map, beq_iff_eq]

theorem keysEq_of_keys_eq (d : Dict) (ks : List Str) (h : d.keys = ks) : d.keysEq ks = true := by
  subst h
  simp only [Dict.keysEq, Bool.and_eq_true, List.all_eq_true]
  refine ⟨?_, ?_⟩
  · intro p hp
    simp only [List.contains_iff_mem]
    exact List.mem_map.2 ⟨p, hp, rfl⟩
  · intro k hk
    exact (hasKey_iff_mem_keys d k).2 hk

/-- `path_to_dict`: the whole code is the model of the theorems -/
theorem pathToDictX_eq (c : Ctx) (pc : PathConf) (h : pc.plain = true) (path : Str) (ty : Option Str) :
    c.pathToDictX pc path ty = c.pathToDict pc path ty := by
  obtain ⟨h1, _, h3⟩ := plain_unpack pc h
  unfold pathToDictX pathToDict
  simp only [mapToSidX_eq pc h1, extraToSidStep_eq pc h3]
  generalize (if (match ty with | some t => !t.isEmpty | none => false) = true then
      (match Resolver.resolveOne c.env pc.resolver path (ty.getD []) with
        | .error x => (.error x : Except Err (Option (Str × Dict)))
        | .ok none => .ok none
        | .ok (some d) => .ok (some (ty.getD [], d)))
    else Resolver.resolveFirst c.env pc.resolver path) = r
  cases r with
  | error x => cases x <;> rfl
  | ok o =>
    cases o with
    | none => rfl
    | some td =>
      obtain ⟨template, data0⟩ := td
      simp only
      cases c.cfg.sid.keyTypes.lookup ((Str.splitStr template c.cfg.sid.sep).head?.getD []) with
      | none => rfl
      | some keys =>
        simp only [keysEq_of_keys_eq _ _ (mapToSid_keys pc data0), Bool.not_true, Bool.false_eq_true,
          if_false]

theorem pathDataX_eq (pc : PathConf) (h : pc.plain = true) (ty : Str) (d : Dict) (ks : List Str) :
    pathDataX pc ty d ks = pathData pc d ks := by
  obtain ⟨h1, h2, _⟩ := plain_unpack pc h
  unfold pathDataX pathData
  simp only [addExtraKeys_eq pc h2, h1, List.lookup_nil]
  rfl

/-- `dict_to_path`: the whole code is the model of the theorems -/
theorem dictToPathX_eq (c : Ctx) (pc : PathConf) (h : pc.plain = true) (data : Dict) (ty : Str) :
    c.dictToPathX pc data ty = c.dictToPath pc data ty := by
  unfold dictToPathX dictToPath
  simp only [pathDataX_eq pc h]
  rfl

/-- every path configuration of the configuration is plain -/
def allPlain (cfg : Conf) : Bool := cfg.paths.all PathConf.plain

theorem pathConf_plain (c : Ctx) (h : allPlain c.cfg = true) (config : Option Str) (pc : PathConf)
    (hp : c.cfg.pathConf? config = some pc) : pc.plain = true := by
  simp only [allPlain, List.all_eq_true] at h
  apply h
  unfold Conf.pathConf? at hp
  exact List.mem_of_find?_eq_some hp

theorem sidPathX_eq (c : Ctx) (h : allPlain c.cfg = true) (config : Option Str) (x : Sid) :
    c.sidPathX config x = c.sidPath config x := by
  unfold sidPathX sidPath
  split
  · rfl
  · cases hp : c.cfg.pathConf? config with
    | none => rfl
    | some pc => simp only [dictToPathX_eq c pc (pathConf_plain c h config pc hp)]; rfl

theorem pathToSidX_eq (c : Ctx) (h : allPlain c.cfg = true) (path : Str) (config : Option Str) :
    c.pathToSidX path config = c.pathToSid path config := by
  unfold pathToSidX pathToSid
  cases hp : c.cfg.pathConf? config with
  | none => rfl
  | some pc =>
    simp only [pathToDictX_eq c pc (pathConf_plain c h config pc hp), sidPathX_eq c h]
    rfl

/-- `Sid(path=p, config=c)`: what the driver computes is what C05 / C06 speak about -/
theorem sidOfPathX_eq (c : Ctx) (h : allPlain c.cfg = true) (path : Str) (config : Option Str) :
    c.sidOfPathX path config = c.sidOfPath path config := by
  unfold sidOfPathX sidOfPath
  simp only [pathToSidX_eq c h]
  rfl

end PathXL
