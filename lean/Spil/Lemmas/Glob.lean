/-
  Spil.Lemmas.Glob — string-level facts for the completeness half of C11: the relation `StarRel`
  ("`b` is `a` with some `*` characters replaced by admissible values"), that it implies the glob
  relation `Spec.Glob`, that it splits along '/' components, survives `PurePath.normalize`, and
  gives `World.compMatch` component by component.
-/
import Spil.Spec.Glob
import Spil.Lemmas.Find
import Spil.Lemmas.StrSplit

namespace GlobL

open Spec

/-! ### `All2` -/

theorem All2.length_eq {α β} {R : α → β → Prop} {a : List α} {b : List β} (h : All2 R a b) :
    a.length = b.length := by
  induction h with
  | nil => rfl
  | cons _ _ ih => simp [ih]

theorem All2.get {α β} {R : α → β → Prop} {a : List α} {b : List β} (h : All2 R a b) :
    ∀ (i : Nat) (x : α) (y : β), a[i]? = some x → b[i]? = some y → R x y := by
  induction h with
  | nil => intro i x y hx; simp at hx
  | cons h1 _ ih =>
    intro i x y hx hy
    cases i with
    | zero =>
      simp only [List.getElem?_cons_zero, Option.some.injEq] at hx hy
      subst hx; subst hy; exact h1
    | succ i =>
      simp only [List.getElem?_cons_succ] at hx hy
      exact ih i x y hx hy

theorem All2.mono {α β} {R S : α → β → Prop} {a : List α} {b : List β} (h : All2 R a b)
    (hrs : ∀ x ∈ a, ∀ y, R x y → S x y) : All2 S a b := by
  induction h with
  | nil => exact .nil
  | cons h1 _ ih =>
    exact .cons (hrs _ (by simp) _ h1) (ih (fun x hx y hr => hrs x (List.mem_cons_of_mem _ hx) y hr))

theorem All2.append {α β} {R : α → β → Prop} {a c : List α} {b d : List β} (h : All2 R a b)
    (h' : All2 R c d) : All2 R (a ++ c) (b ++ d) := by
  induction h with
  | nil => exact h'
  | cons h1 _ ih => exact .cons h1 ih

theorem All2.refl {α} {R : α → α → Prop} (l : List α) (h : ∀ a ∈ l, R a a) : All2 R l l := by
  induction l with
  | nil => exact .nil
  | cons a l ih => exact .cons (h a (by simp)) (ih (fun x hx => h x (List.mem_cons_of_mem _ hx)))

theorem All2.filter {α β} {R : α → β → Prop} (p : α → Bool) (q : β → Bool)
    (hpq : ∀ a b, R a b → p a = q b) {a : List α} {b : List β} (h : All2 R a b) :
    All2 R (a.filter p) (b.filter q) := by
  induction h with
  | nil => exact .nil
  | @cons x y as bs h1 _ ih =>
    simp only [List.filter_cons]
    rw [hpq x y h1]
    split
    · exact .cons h1 ih
    · exact ih

theorem All2.zip_all {α β} (f : α → β → Bool) {a : List α} {b : List β}
    (h : All2 (fun x y => f x y = true) a b) : (a.zip b).all (fun p => f p.1 p.2) = true := by
  induction h with
  | nil => rfl
  | cons h1 _ ih => simp [List.zip_cons_cons, List.all_cons, h1, ih]

/-! ### `splitOn` / `joinWith` -/

theorem splitOn_cons_eq (sep c : Char) (s : Str) :
    Str.splitOn sep (c :: s) =
      if c = sep then [] :: Str.splitOn sep s
      else (c :: (Str.splitOn sep s).headD []) :: (Str.splitOn sep s).tail := by
  simp only [Str.splitOn]
  split
  · rfl
  · match hs : Str.splitOn sep s with
    | [] => exact absurd hs (Str.splitOn_ne_nil sep s)
    | p :: ps => simp

theorem splitOn_eq_cons (sep : Char) (s : Str) :
    Str.splitOn sep s = (Str.splitOn sep s).headD [] :: (Str.splitOn sep s).tail := by
  match hs : Str.splitOn sep s with
  | [] => exact absurd hs (Str.splitOn_ne_nil sep s)
  | p :: ps => simp

theorem splitOn_append_nosep (sep : Char) (v b : Str) (h : sep ∉ v) :
    Str.splitOn sep (v ++ b) =
      (v ++ (Str.splitOn sep b).headD []) :: (Str.splitOn sep b).tail := by
  induction v with
  | nil => simpa using splitOn_eq_cons sep b
  | cons c cs ih =>
    simp only [List.mem_cons, not_or] at h
    have hc : c ≠ sep := fun e => h.1 e.symm
    rw [List.cons_append, splitOn_cons_eq, if_neg hc, ih h.2]
    simp

theorem mem_joinWith (sep : Char) (l : List Str) (a : Str) (x : Char) (ha : a ∈ l) (hx : x ∈ a) :
    x ∈ Str.joinWith sep l := by
  induction l with
  | nil => simp at ha
  | cons p l ih =>
    cases l with
    | nil =>
      simp only [List.mem_singleton] at ha
      subst ha
      simpa [Str.joinWith] using hx
    | cons q qs =>
      simp only [Str.joinWith, List.mem_append, List.mem_cons]
      rcases List.mem_cons.1 ha with rfl | ha
      · exact Or.inl hx
      · exact Or.inr (Or.inr (ih ha))

/-- the characters of a piece are characters of the string -/
theorem mem_of_mem_splitOn (sep : Char) (s a : Str) (x : Char) (ha : a ∈ Str.splitOn sep s)
    (hx : x ∈ a) : x ∈ s := by
  have := mem_joinWith sep _ a x ha hx
  rwa [Str.join_split] at this

theorem joinWith_ne_nil (sep : Char) (c : Str) (cs : List Str) (hc : c ≠ []) :
    Str.joinWith sep (c :: cs) ≠ [] := by
  cases cs with
  | nil => simpa [Str.joinWith] using hc
  | cons q qs => simp [Str.joinWith, hc]

/-! ### `StarRel` -/

/-- `b` is `a` with some of its `*` characters replaced by strings satisfying `P` -/
inductive StarRel (P : Str → Prop) : Str → Str → Prop
  | nil : StarRel P [] []
  | lit (c : Char) {a b : Str} : StarRel P a b → StarRel P (c :: a) (c :: b)
  | star (v : Str) {a b : Str} : P v → StarRel P a b → StarRel P ('*' :: a) (v ++ b)

theorem StarRel.refl (P : Str → Prop) (a : Str) : StarRel P a a := by
  induction a with
  | nil => exact .nil
  | cons c a ih => exact .lit c ih

theorem StarRel.append_lit {P : Str → Prop} (l : Str) {a b : Str} (h : StarRel P a b) :
    StarRel P (l ++ a) (l ++ b) := by
  induction l with
  | nil => exact h
  | cons c l ih => exact .lit c ih

theorem StarRel.mono {P Q : Str → Prop} (hpq : ∀ v, P v → Q v) {a b : Str} (h : StarRel P a b) :
    StarRel Q a b := by
  induction h with
  | nil => exact .nil
  | lit c _ ih => exact .lit c ih
  | star v hv _ ih => exact .star v (hpq v hv) ih

theorem glob_star_any (p s v : Str) (hv : '/' ∉ v) (h : Glob p s) : Glob ('*' :: p) (v ++ s) := by
  induction v with
  | nil => exact .starSkip h
  | cons x v ih =>
    simp only [List.mem_cons, not_or] at hv
    exact .starTake (fun e => hv.1 e.symm) (ih hv.2)

/-- `StarRel` implies the glob relation of C08 (pattern without `[`, values without '/') -/
theorem StarRel.glob {P : Str → Prop} (hP : ∀ v, P v → '/' ∉ v) {a b : Str} (h : StarRel P a b)
    (hb : '[' ∉ a) : Glob a b := by
  induction h with
  | nil => exact .nil
  | @lit c a b _ ih =>
    simp only [List.mem_cons, not_or] at hb
    have ih' := ih hb.2
    by_cases h1 : c = '*'
    · subst h1
      exact .starTake (by decide) (.starSkip ih')
    · by_cases h2 : c = '?'
      · subst h2
        exact .one (by decide) ih'
      · exact .lit h1 h2 (fun e => hb.1 e.symm) ih'
  | star v hv _ ih =>
    simp only [List.mem_cons, not_or] at hb
    exact glob_star_any _ _ v (hP v hv) (ih hb.2)

/-- `StarRel` splits along the '/' components -/
theorem StarRel.comps {P : Str → Prop} (hP : ∀ v, P v → '/' ∉ v) {a b : Str} (h : StarRel P a b) :
    All2 (StarRel P) (Str.splitOn '/' a) (Str.splitOn '/' b) := by
  induction h with
  | nil => exact .cons .nil .nil
  | @lit c a b _ ih =>
    rw [splitOn_cons_eq, splitOn_cons_eq]
    by_cases hc : c = '/'
    · rw [if_pos hc, if_pos hc]; exact .cons .nil ih
    · rw [if_neg hc, if_neg hc]
      rw [splitOn_eq_cons '/' a, splitOn_eq_cons '/' b] at ih
      cases ih with
      | cons h1 h2 => exact .cons (.lit c h1) h2
  | @star v a b hv _ ih =>
    rw [splitOn_cons_eq, if_neg (by decide), splitOn_append_nosep '/' v b (hP v hv)]
    rw [splitOn_eq_cons '/' a, splitOn_eq_cons '/' b] at ih
    cases ih with
    | cons h1 h2 => exact .cons (.star v hv h1) h2

/-! ### admissible path values -/

/-- the values a `*` of a rendered path pattern may stand for -/
def VP (v : Str) : Prop := valOk v = true

theorem valOk_cons (v : Str) (h : valOk v = true) :
    ∃ c cs, v = c :: cs ∧ c ≠ '.' ∧ '/' ∉ v := by
  cases v with
  | nil => simp [valOk] at h
  | cons c cs =>
    simp only [valOk, List.isEmpty_cons, Bool.not_false, Bool.true_and, Bool.and_eq_true,
      Bool.not_eq_true', Str.hasChar, Str.startsWith] at h
    refine ⟨c, cs, rfl, ?_, ?_⟩
    · intro e
      subst e
      simp [List.isPrefixOf] at h
    · intro hm
      have : (c :: cs).any (· == '/') = true := List.any_eq_true.2 ⟨'/', hm, by simp⟩
      rw [h.1] at this
      cases this

theorem VP_noslash (v : Str) (h : VP v) : '/' ∉ v := by
  obtain ⟨_, _, _, _, h2⟩ := valOk_cons v h
  exact h2

theorem keep_cons_ne_dot (c : Char) (s : Str) (hc : c ≠ '.') : PurePath.keep (c :: s) = true := by
  simp only [PurePath.keep, List.isEmpty_cons, Bool.not_false, Bool.true_and, bne_iff_ne, ne_eq]
  intro e
  injection e with e1 _
  exact hc e1

theorem keep_cons_tail (c : Char) (s : Str) (hs : s ≠ []) : PurePath.keep (c :: s) = true := by
  simp only [PurePath.keep, List.isEmpty_cons, Bool.not_false, Bool.true_and, bne_iff_ne, ne_eq]
  intro e
  injection e with _ e2
  exact hs e2

theorem keep_ne_nil (s : Str) (h : PurePath.keep s = true) : s ≠ [] := by
  intro e; subst e; simp [PurePath.keep] at h

/-- components related by `StarRel VP` are equal or both kept by `PurePosixPath` -/
theorem StarRel.keep {a b : Str} (h : StarRel VP a b) :
    a = b ∨ (PurePath.keep a = true ∧ PurePath.keep b = true) := by
  induction h with
  | nil => exact Or.inl rfl
  | @lit c a b _ ih =>
    rcases ih with rfl | ⟨ka, kb⟩
    · exact Or.inl rfl
    · exact Or.inr ⟨keep_cons_tail c a (keep_ne_nil a ka), keep_cons_tail c b (keep_ne_nil b kb)⟩
  | @star v a b hv _ _ =>
    obtain ⟨c, cs, rfl, hc, _⟩ := valOk_cons v hv
    exact Or.inr ⟨keep_cons_ne_dot '*' a (by decide), keep_cons_ne_dot c (cs ++ b) hc⟩

theorem StarRel.keep_eq {a b : Str} (h : StarRel VP a b) : PurePath.keep a = PurePath.keep b := by
  rcases h.keep with rfl | ⟨ka, kb⟩
  · rfl
  · rw [ka, kb]

theorem startsWith_dot_cons (c : Char) (s : Str) : Str.startsWith (c :: s) ['.'] = ('.' == c) := by
  simp [Str.startsWith, List.isPrefixOf]

/-- the hidden-name rule: a name related to a pattern starts with '.' only if the pattern does -/
theorem StarRel.hidden {a b : Str} (h : StarRel VP a b) (hb : Str.startsWith b ['.'] = true) :
    Str.startsWith a ['.'] = true := by
  cases h with
  | nil => simp [Str.startsWith, List.isPrefixOf] at hb
  | lit c _ => rw [startsWith_dot_cons] at hb ⊢; exact hb
  | star v hv _ =>
    obtain ⟨c, cs, rfl, hc, _⟩ := valOk_cons v hv
    rw [List.cons_append, startsWith_dot_cons] at hb
    exact absurd (by simpa using hb) (fun e : '.' = c => hc e.symm)

theorem leadingSlashes_cons (c : Char) (r : Str) :
    PurePath.leadingSlashes (c :: r) = if c = '/' then PurePath.leadingSlashes r + 1 else 0 := by
  by_cases hc : c = '/'
  · subst hc; simp [PurePath.leadingSlashes]
  · rw [if_neg hc]
    unfold PurePath.leadingSlashes
    split
    · next h => simp at h; exact absurd h.1 hc
    · rfl

theorem StarRel.leading {a b : Str} (h : StarRel VP a b) :
    PurePath.leadingSlashes a = PurePath.leadingSlashes b := by
  induction h with
  | nil => rfl
  | lit c _ ih => rw [leadingSlashes_cons, leadingSlashes_cons, ih]
  | @star v a b hv _ _ =>
    obtain ⟨c, cs, rfl, _, hs⟩ := valOk_cons v hv
    have hc : c ≠ '/' := by
      intro e; apply hs; simp [e]
    rw [leadingSlashes_cons, List.cons_append, leadingSlashes_cons, if_neg (by decide), if_neg hc]

/-! ### `PurePath.normalize` -/

/-- the components of a normalised path, from the number of leading slashes and the kept
    components of the raw string -/
def normComps (n : Nat) (kept : List Str) : List Str :=
  let pre : List Str := if n = 2 then [[], []] else if n = 0 then [] else [[]]
  if kept.isEmpty then (if n = 0 then [['.']] else pre ++ [[]]) else pre ++ kept

/-- `PurePath.normalize` as a function of the leading slashes and the kept components -/
def normOf (n : Nat) (comps : List Str) : Str :=
  let root : Str := if n == 2 then ['/', '/'] else if n ≥ 1 then ['/'] else []
  let body := Str.joinWith '/' comps
  if root.isEmpty && body.isEmpty then ['.'] else root ++ body

theorem normalize_eq (x : Str) :
    PurePath.normalize x =
      normOf (PurePath.leadingSlashes x) ((Str.splitOn '/' x).filter PurePath.keep) := rfl

theorem splitOn_normOf (n : Nat) (kept : List Str) (hfree : ∀ c ∈ kept, '/' ∉ c)
    (hne : ∀ c ∈ kept, c ≠ []) : Str.splitOn '/' (normOf n kept) = normComps n kept := by
  unfold normOf normComps
  cases kept with
  | nil =>
    by_cases h2 : n = 2
    · subst h2; decide
    · by_cases h0 : n = 0
      · subst h0; decide
      · have h1 : n ≥ 1 := by omega
        simp [h2, h0, h1, Str.joinWith, Str.splitOn]
  | cons c cs =>
    have hj : Str.splitOn '/' (Str.joinWith '/' (c :: cs)) = c :: cs :=
      Str.split_join '/' _ (by simp) hfree
    have hb : Str.joinWith '/' (c :: cs) ≠ [] := joinWith_ne_nil '/' c cs (hne c (by simp))
    have hbe : (Str.joinWith '/' (c :: cs)).isEmpty = false := by
      cases hh : Str.joinWith '/' (c :: cs) with
      | nil => exact absurd hh hb
      | cons _ _ => rfl
    by_cases h2 : n = 2
    · subst h2
      simp [hbe, Str.splitOn, hj]
    · by_cases h0 : n = 0
      · subst h0
        simp [hbe, hj]
      · have h1 : n ≥ 1 := by omega
        simp [h2, h0, h1, Str.splitOn, hj]

theorem splitOn_normalize (x : Str) :
    Str.splitOn '/' (PurePath.normalize x) =
      normComps (PurePath.leadingSlashes x) ((Str.splitOn '/' x).filter PurePath.keep) := by
  rw [normalize_eq]
  exact splitOn_normOf _ _
    (fun c hc => Str.splitOn_not_mem '/' x c (List.mem_filter.1 hc).1)
    (fun c hc => keep_ne_nil c (List.mem_filter.1 hc).2)

theorem All2.normComps {R : Str → Str → Prop} (hrefl : ∀ x, R x x) (n : Nat) {ks ke : List Str}
    (h : All2 R ks ke) : All2 R (normComps n ks) (normComps n ke) := by
  unfold GlobL.normComps
  cases h with
  | nil => exact All2.refl _ (fun a _ => hrefl a)
  | cons h1 h2 =>
    simp only [List.isEmpty_cons, Bool.false_eq_true, if_false]
    exact All2.append (All2.refl _ (fun a _ => hrefl a)) (.cons h1 h2)

/-- the components of the normalised pattern and of the normalised path are still related -/
theorem StarRel.norm_comps {a b : Str} (h : StarRel VP a b) :
    All2 (StarRel VP) (Str.splitOn '/' (PurePath.normalize a))
      (Str.splitOn '/' (PurePath.normalize b)) := by
  rw [splitOn_normalize, splitOn_normalize, h.leading]
  apply All2.normComps (StarRel.refl VP)
  exact All2.filter _ _ (fun x y hxy => hxy.keep_eq) (h.comps VP_noslash)

/-! ### `compMatch` -/

theorem compMatch_eq (pat name : Str) :
    World.compMatch pat name =
      (globB ⟨fun _ => false⟩ pat name &&
        !(Str.hasChar '*' pat && !Str.startsWith pat ['.'] && Str.startsWith name ['.'])) := by
  unfold World.compMatch globB
  cases Find.glob2re pat with
  | none => rfl
  | some items => rfl

theorem StarRel.compMatch {a b : Str} (h : StarRel VP a b) (hb : '[' ∉ a) :
    World.compMatch a b = true := by
  rw [compMatch_eq, Bool.and_eq_true]
  refine ⟨(Find.globB_iff_glob _ a hb b).2 (h.glob VP_noslash hb), ?_⟩
  cases hs : Str.startsWith b ['.'] with
  | false => simp
  | true => simp [h.hidden hs]

/-- component-wise `compMatch` of the normalised pattern and path -/
theorem StarRel.norm_compMatch {a b : Str} (h : StarRel VP a b)
    (hb : '[' ∉ PurePath.normalize a) :
    All2 (fun x y => World.compMatch x y = true) (Str.splitOn '/' (PurePath.normalize a))
      (Str.splitOn '/' (PurePath.normalize b)) := by
  apply All2.mono h.norm_comps
  intro x hx y hxy
  exact hxy.compMatch (fun hm => hb (mem_of_mem_splitOn '/' _ x '[' hx hm))

/-- what `glob.glob` needs: the path is a node and matches component by component -/
theorem mem_glob (w : World) (pat p : Str) (hp : p ∈ w.nodes.map (·.1))
    (h : All2 (fun x y => World.compMatch x y = true) (Str.splitOn '/' pat) (Str.splitOn '/' p)) :
    p ∈ w.glob pat := by
  unfold World.glob
  refine List.mem_filter.2 ⟨hp, ?_⟩
  simp only [Bool.and_eq_true, beq_iff_eq]
  exact ⟨(All2.length_eq h).symm, All2.zip_all _ h⟩

end GlobL
