/-
  Spil.Lemmas.DetSeg — parses of a string by a list of atoms; a `segDet` segment has at most one
  parse; a parse of a string with as many '/' as the atoms have '/' atoms splits at the '/' atoms;
  hence it is unique.
-/
import Spil.Lemmas.DetWords

namespace Det

open Spec

/-- the words of one atom -/
def aword (e : Env) : Atom → Str → Prop
  | .cls k, u => ∃ c, u = [c] ∧ k.test e c = true
  | .closed _ alts, u => ∃ a ∈ alts, matchesSeq e a u
  | .free _, u => '/' ∉ u

/-- the captured values an atom contributes -/
def aval : Atom → Str → List Str
  | .cls _, _ => []
  | .closed _ _, u => [u]
  | .free _, u => [u]

/-- `w` is the concatenation of one word per atom; `vs` are the words of the placeholders -/
inductive Parse (e : Env) : List Atom → Str → List Str → Prop
  | nil : Parse e [] [] []
  | cons (a : Atom) (as : List Atom) (u w : Str) (vs : List Str) :
      aword e a u → Parse e as w vs → Parse e (a :: as) (u ++ w) (aval a u ++ vs)

theorem parse_nil_iff (e : Env) (w : Str) (vs : List Str) : Parse e [] w vs ↔ w = [] ∧ vs = [] := by
  constructor
  · intro h; cases h; exact ⟨rfl, rfl⟩
  · rintro ⟨rfl, rfl⟩; exact Parse.nil

theorem parse_cons_iff (e : Env) (a : Atom) (as : List Atom) (w : Str) (vs : List Str) :
    Parse e (a :: as) w vs ↔ ∃ u w' vs', w = u ++ w' ∧ vs = aval a u ++ vs' ∧ aword e a u ∧
      Parse e as w' vs' := by
  constructor
  · intro h
    cases h with
    | cons _ _ u w' vs' h1 h2 => exact ⟨u, w', vs', rfl, rfl, h1, h2⟩
  · rintro ⟨u, w', vs', rfl, rfl, h1, h2⟩
    exact Parse.cons a as u w' vs' h1 h2

theorem parse_append (e : Env) : ∀ (as bs : List Atom) (w : Str) (vs : List Str),
    Parse e (as ++ bs) w vs ↔ ∃ w1 w2 v1 v2, w = w1 ++ w2 ∧ vs = v1 ++ v2 ∧ Parse e as w1 v1 ∧
      Parse e bs w2 v2
  | [], bs, w, vs => by
    simp only [List.nil_append, parse_nil_iff]
    constructor
    · intro h; exact ⟨[], w, [], vs, rfl, rfl, ⟨rfl, rfl⟩, h⟩
    · rintro ⟨w1, w2, v1, v2, rfl, rfl, ⟨rfl, rfl⟩, h⟩; simpa using h
  | a :: as, bs, w, vs => by
    simp only [List.cons_append, parse_cons_iff, parse_append e as bs]
    constructor
    · rintro ⟨u, w', vs', rfl, rfl, h1, w1, w2, v1, v2, rfl, rfl, h2, h3⟩
      exact ⟨u ++ w1, w2, aval a u ++ v1, v2, by simp, by simp, ⟨u, w1, v1, rfl, rfl, h1, h2⟩, h3⟩
    · rintro ⟨w1, w2, v1, v2, rfl, rfl, ⟨u, w', vs', rfl, rfl, h1, h2⟩, h3⟩
      exact ⟨u, w' ++ w2, vs' ++ v2, by simp, by simp, h1, w', w2, vs', v2, rfl, rfl, h2, h3⟩

theorem parse_single_iff (e : Env) (a : Atom) (w : Str) (vs : List Str) :
    Parse e [a] w vs ↔ aword e a w ∧ vs = aval a w := by
  rw [parse_cons_iff]
  constructor
  · rintro ⟨u, w', vs', rfl, rfl, h1, h2⟩
    obtain ⟨rfl, rfl⟩ := (parse_nil_iff e _ _).mp h2
    simpa using h1
  · rintro ⟨h1, rfl⟩
    exact ⟨w, [], [], by simp, by simp, h1, Parse.nil⟩

/-! ### unique words -/

theorem aword_left_unique (e : Env) (a : Atom) (h : leftOk e a = true) (u u' x x' : Str)
    (hu : aword e a u) (hu' : aword e a u') (heq : u ++ x = u' ++ x') : u = u' := by
  cases a with
  | cls k =>
    obtain ⟨c, rfl, _⟩ := hu
    obtain ⟨c', rfl, _⟩ := hu'
    simp at heq
    simp [heq.1]
  | closed key alts =>
    obtain ⟨a, ha, hm⟩ := hu
    obtain ⟨b, hb, hm'⟩ := hu'
    exact prefixFree_unique e alts h a b ha hb u u' x x' hm hm' heq
  | free key => simp [leftOk] at h

theorem aword_right_unique (e : Env) (a : Atom) (h : rightOk e a = true) (u u' x x' : Str)
    (hu : aword e a u) (hu' : aword e a u') (heq : x ++ u = x' ++ u') : u = u' := by
  cases a with
  | cls k =>
    obtain ⟨c, rfl, _⟩ := hu
    obtain ⟨c', rfl, _⟩ := hu'
    exact List.append_inj_right' heq rfl
  | closed key alts =>
    obtain ⟨a, ha, hm⟩ := hu
    obtain ⟨b, hb, hm'⟩ := hu'
    exact suffixFree_unique e alts h a b ha hb u u' x x' hm hm' heq
  | free key => simp [rightOk] at h

/-- right-ok atoms at the end are peeled identically in any two parses of the same string -/
theorem peelRight (e : Env) : ∀ (R rest : List Atom), R.all (rightOk e) = true →
    ∀ (w : Str) (vs vs' : List Str), Parse e (rest ++ R) w vs → Parse e (rest ++ R) w vs' →
    ∃ w' v0 v1 v1', vs = v1 ++ v0 ∧ vs' = v1' ++ v0 ∧ Parse e rest w' v1 ∧ Parse e rest w' v1'
  | [], rest, _, w, vs, vs', h, h' => by
    simp only [List.append_nil] at h h'
    exact ⟨w, [], vs, vs', by simp, by simp, h, h'⟩
  | a :: R, rest, hR, w, vs, vs', h, h' => by
    simp only [List.all_cons, Bool.and_eq_true] at hR
    have e1 : rest ++ a :: R = (rest ++ [a]) ++ R := by simp
    rw [e1] at h h'
    obtain ⟨w', v0, v1, v1', rfl, rfl, p1, p1'⟩ := peelRight e R (rest ++ [a]) hR.2 w _ _ h h'
    obtain ⟨x, u, y, z, hw, rfl, q1, q2⟩ := (parse_append e rest [a] w' v1).mp p1
    obtain ⟨x', u', y', z', hw', rfl, q1', q2'⟩ := (parse_append e rest [a] w' v1').mp p1'
    obtain ⟨a1, rfl⟩ := (parse_single_iff e a u z).mp q2
    obtain ⟨a1', rfl⟩ := (parse_single_iff e a u' z').mp q2'
    have huu : u = u' := aword_right_unique e a hR.1 u u' x x' a1 a1' (by rw [← hw, ← hw'])
    subst huu
    have hxx : x = x' := List.append_cancel_right (by rw [← hw, ← hw'])
    subst hxx
    exact ⟨x, aval a u ++ v0, y, y', by simp, by simp, q1, q1'⟩

/-- a `segDet` segment parses a string in at most one way -/
theorem seg_unique (e : Env) : ∀ (seg : List Atom), segDet e seg = true →
    ∀ (w : Str) (vs vs' : List Str), Parse e seg w vs → Parse e seg w vs' → vs = vs'
  | [], _, w, vs, vs', h, h' => by
    rw [parse_nil_iff] at h h'
    rw [h.2, h'.2]
  | a :: as, hd, w, vs, vs', h, h' => by
    simp only [segDet, Bool.or_eq_true, Bool.and_eq_true] at hd
    rcases hd with (⟨hl, hrest⟩ | ⟨hf, hr⟩) | hr
    · obtain ⟨u, w1, v1, rfl, rfl, a1, p1⟩ := (parse_cons_iff e a as w vs).mp h
      obtain ⟨u', w1', v1', hw, rfl, a1', p1'⟩ := (parse_cons_iff e a as _ vs').mp h'
      have huu : u = u' := aword_left_unique e a hl u u' w1 w1' a1 a1' hw
      subst huu
      have hww : w1 = w1' := List.append_cancel_left hw
      subst hww
      rw [seg_unique e as hrest w1 v1 v1' p1 p1']
    · obtain ⟨w', v0, v1, v1', rfl, rfl, p1, p1'⟩ := peelRight e as [a] hr w vs vs' h h'
      cases a with
      | free key =>
        rw [parse_single_iff] at p1 p1'
        rw [p1.2, p1'.2]
      | cls k => simp [Atom.isFree] at hf
      | closed key alts => simp [Atom.isFree] at hf
    · obtain ⟨w', v0, v1, v1', rfl, rfl, p1, p1'⟩ := peelRight e (a :: as) [] hr w vs vs' h h'
      rw [parse_nil_iff] at p1 p1'
      rw [p1.2, p1'.2]

/-! ### counting '/' -/

theorem aword_slash (e : Env) (a : Atom) (h : a.isSlash = true) (u : Str) (hu : aword e a u) :
    u = ['/'] := by
  cases a with
  | cls k =>
    cases k with
    | lit c =>
      simp only [Atom.isSlash, beq_iff_eq] at h
      subst h
      obtain ⟨c, rfl, hc⟩ := hu
      simp only [Cls.test, beq_iff_eq] at hc
      rw [hc]
    | _ => simp [Atom.isSlash] at h
  | _ => simp [Atom.isSlash] at h

theorem parse_count_le (e : Env) : ∀ (as : List Atom) (w : Str) (vs : List Str), Parse e as w vs →
    as.countP Atom.isSlash ≤ List.count '/' w
  | [], w, vs, _ => by simp
  | a :: as, w, vs, h => by
    obtain ⟨u, w1, v1, rfl, rfl, a1, p1⟩ := (parse_cons_iff e a as w vs).mp h
    have ih := parse_count_le e as w1 v1 p1
    rw [List.countP_cons, List.count_append]
    by_cases hs : a.isSlash = true
    · rw [aword_slash e a hs u a1]
      simp [hs]; omega
    · simp [hs]; omega

/-- a parse split at the '/' atoms: first segment `seg`, remaining segments `ss` -/
def SegParse (e : Env) : List Atom → List (List Atom) → Str → List Str → Prop
  | seg, [], w, vs => Parse e seg w vs ∧ '/' ∉ w
  | seg, s' :: ss, w, vs => ∃ w1 w2 v1 v2, w = w1 ++ '/' :: w2 ∧ vs = v1 ++ v2 ∧
      Parse e seg w1 v1 ∧ '/' ∉ w1 ∧ SegParse e s' ss w2 v2

theorem segParse_cons (e : Env) (a : Atom) (u : Str) (ha : aword e a u) (hu : '/' ∉ u) :
    ∀ (seg : List Atom) (ss : List (List Atom)) (w : Str) (vs : List Str),
    SegParse e seg ss w vs → SegParse e (a :: seg) ss (u ++ w) (aval a u ++ vs)
  | seg, [], w, vs, h => by
    simp only [SegParse] at h ⊢
    exact ⟨Parse.cons a seg u w vs ha h.1, by simp [hu, h.2]⟩
  | seg, s' :: ss, w, vs, h => by
    simp only [SegParse] at h ⊢
    obtain ⟨w1, w2, v1, v2, rfl, rfl, p1, hw1, p2⟩ := h
    exact ⟨u ++ w1, w2, aval a u ++ v1, v2, by simp, by simp, Parse.cons a seg u w1 v1 ha p1,
      by simp [hu, hw1], p2⟩

theorem count_eq_zero_not_mem (u : Str) (h : List.count '/' u = 0) : '/' ∉ u := by
  intro hm
  have := List.count_pos_iff.mpr hm
  omega

/-- a parse that consumes as many '/' as there are '/' atoms splits at the '/' atoms -/
theorem segParse_of_parse (e : Env) : ∀ (fl : List Atom) (w : Str) (vs : List Str),
    Parse e fl w vs → List.count '/' w = fl.countP Atom.isSlash →
    SegParse e (splitSegs fl).1 (splitSegs fl).2 w vs
  | [], w, vs, h, _ => by
    rw [parse_nil_iff] at h
    obtain ⟨rfl, rfl⟩ := h
    simp only [splitSegs, SegParse]
    exact ⟨Parse.nil, by simp⟩
  | a :: as, w, vs, h, hc => by
    obtain ⟨u, w1, v1, rfl, rfl, a1, p1⟩ := (parse_cons_iff e a as w vs).mp h
    have hle := parse_count_le e as w1 v1 p1
    rw [List.countP_cons, List.count_append] at hc
    by_cases hs : a.isSlash = true
    · have hu := aword_slash e a hs u a1
      subst hu
      simp only [hs, if_true, List.count_cons_self, List.count_nil] at hc
      have ih := segParse_of_parse e as w1 v1 p1 (by omega)
      simp only [splitSegs, hs, if_true, SegParse]
      have hv : aval a ['/'] = [] := by
        cases a with
        | cls k => rfl
        | _ => simp [Atom.isSlash] at hs
      exact ⟨[], w1, [], v1, by simp, by simp [hv], Parse.nil, by simp, ih⟩
    · simp only [hs] at hc
      have h0 : List.count '/' u = 0 := by simp at hc; omega
      have ih := segParse_of_parse e as w1 v1 p1 (by simp at hc; omega)
      simp only [splitSegs, hs]
      exact segParse_cons e a u a1 (count_eq_zero_not_mem u h0) _ _ _ _ ih

theorem segParse_unique (e : Env) : ∀ (ss : List (List Atom)) (seg : List Atom),
    segDet e seg = true → ss.all (segDet e) = true →
    ∀ (w : Str) (vs vs' : List Str), SegParse e seg ss w vs → SegParse e seg ss w vs' → vs = vs'
  | [], seg, hd, _, w, vs, vs', h, h' => by
    simp only [SegParse] at h h'
    exact seg_unique e seg hd w vs vs' h.1 h'.1
  | s' :: ss, seg, hd, hds, w, vs, vs', h, h' => by
    simp only [SegParse] at h h'
    simp only [List.all_cons, Bool.and_eq_true] at hds
    obtain ⟨w1, w2, v1, v2, rfl, rfl, p1, hw1, p2⟩ := h
    obtain ⟨w1', w2', v1', v2', hw, rfl, p1', hw1', p2'⟩ := h'
    obtain ⟨rfl, rfl⟩ := Str.first_sep_unique '/' w1 w1' w2 w2' hw1 hw1' hw
    rw [seg_unique e seg hd w1 v1 v1' p1 p1', segParse_unique e ss s' hds.1 hds.2 w2 v2 v2' p2 p2']

/-- the parse of a string with exactly as many '/' as the atoms have '/' atoms is unique -/
theorem parse_unique (e : Env) (fl : List Atom) (hd : (segsOf fl).all (segDet e) = true)
    (w : Str) (hc : List.count '/' w = fl.countP Atom.isSlash) (vs vs' : List Str)
    (h : Parse e fl w vs) (h' : Parse e fl w vs') : vs = vs' := by
  simp only [segsOf, List.all_cons, Bool.and_eq_true] at hd
  exact segParse_unique e _ _ hd.1 hd.2 w vs vs' (segParse_of_parse e fl w vs h hc)
    (segParse_of_parse e fl w vs' h' hc)

end Det
