/-
  Spil.Lemmas.Unfold — lemmas about the or-operator model (`Ctx.orOnPath`, `Ctx.orQueryGo`),
  `Str.isInfix` / `Str.replace`, `Lst.replaceFirst` and `Lst.dedupBy` for a general `eq`.
-/
import Spil.Spec.Unfold
import Spil.Lemmas.StrSplit
import Spil.Lemmas.Lst

namespace Str

/-! ### `isInfix` as `List.IsInfix` -/

theorem isInfix_iff (sub s : Str) : isInfix sub s = true ↔ sub <:+: s := by
  induction s with
  | nil => simp [isInfix, List.infix_nil]
  | cons c cs ih =>
    simp only [isInfix, Bool.or_eq_true, ih, List.infix_cons_iff, List.isPrefixOf_iff_prefix]

theorem isInfix_eq_false_iff (sub s : Str) : isInfix sub s = false ↔ ¬ sub <:+: s := by
  rw [← isInfix_iff]; simp

/-- every piece of a split is an infix of the string -/
theorem splitOn_infix (sep : Char) : ∀ (s : Str), ∀ p ∈ splitOn sep s, p <:+: s := by
  intro s
  induction s with
  | nil => intro p hp; simp [splitOn] at hp; subst hp; exact List.infix_rfl
  | cons c cs ih =>
    intro p hp
    simp only [splitOn] at hp
    split at hp
    · rcases List.mem_cons.1 hp with rfl | hp
      · exact (List.nil_prefix).isInfix
      · exact (ih p hp).trans (List.suffix_cons c cs).isInfix
    · revert hp
      cases hsp : splitOn sep cs with
      | nil => exact absurd hsp (splitOn_ne_nil sep cs)
      | cons q qs =>
        intro hp
        simp only [List.mem_cons] at hp
        rcases hp with rfl | hp
        · have hq : q <:+: cs := ih q (by simp [hsp])
          -- q is in fact a prefix of cs
          have : q <+: cs := by
            have := join_split sep cs
            rw [hsp] at this
            cases qs with
            | nil => simp [joinWith] at this; subst this; exact List.prefix_rfl
            | cons r rs => simp only [joinWith] at this; exact ⟨_, this⟩
          exact (List.cons_prefix_cons.2 ⟨rfl, this⟩).isInfix
        · exact (ih p (by simp [hsp, hp])).trans (List.suffix_cons c cs).isInfix

theorem lstrip_suffix : ∀ s : Str, lstrip s <:+ s
  | [] => List.suffix_rfl
  | c :: cs => by
    simp only [lstrip]; split
    · exact (lstrip_suffix cs).trans (List.suffix_cons c cs)
    · exact List.suffix_rfl

theorem strip_infix (s : Str) : strip s <:+: s := by
  unfold strip
  have h1 := lstrip_suffix (lstrip s).reverse
  have h2 : (lstrip (lstrip s).reverse).reverse <+: lstrip s := by
    have := List.reverse_prefix.2 h1
    simpa using this
  exact h2.isInfix.trans (lstrip_suffix s).isInfix

/-! ### `replace` -/

theorem replaceGo_skip (find rep : Str) (a y : Str) :
    replaceGo find rep a.length (a ++ y) = replaceGo find rep 0 y := by
  induction a with
  | nil => rfl
  | cons c cs ih => simpa [replaceGo] using ih

theorem replaceGo_of_not_infix (find rep : Str) :
    ∀ y : Str, isInfix find y = false → replaceGo find rep 0 y = y
  | [], _ => rfl
  | c :: cs, h => by
    simp only [isInfix, Bool.or_eq_false_iff] at h
    simp [replaceGo, h.1, replaceGo_of_not_infix find rep cs h.2]

theorem replaceGo_prefix (find rep y : Str) (hne : find ≠ []) :
    replaceGo find rep 0 (find ++ y) = rep ++ replaceGo find rep 0 y := by
  cases find with
  | nil => exact absurd rfl hne
  | cons f fs =>
    have hp : (f :: fs).isPrefixOf (f :: (fs ++ y)) = true := by
      rw [List.isPrefixOf_iff_prefix]; exact ⟨y, rfl⟩
    simp only [List.cons_append, replaceGo, hp, if_true, List.length_cons, Nat.add_sub_cancel]
    rw [replaceGo_skip]

/-- `(find + y).replace(find, "") = y` when `find` does not occur in `y` -/
theorem replace_prefix_drop (find y : Str) (hne : find ≠ []) (h : isInfix find y = false) :
    replace (find ++ y) find [] = y := by
  unfold replace
  have : find.isEmpty = false := by cases find <;> simp_all
  simp [this, replaceGo_prefix find [] y hne, replaceGo_of_not_infix find [] y h]

/-- a string without the separator occurs in `x + sep + a` only inside `x` or inside `a` -/
theorem prefix_append_sep (sep : Char) : ∀ (m x a : Str), sep ∉ m →
    (m <+: x ++ sep :: a ↔ m <+: x)
  | [], _, _, _ => by simp
  | c :: m, [], a, h => by
    simp only [List.mem_cons, not_or] at h
    simp only [List.nil_append, List.cons_prefix_cons, List.prefix_nil]
    constructor
    · intro h'; exact absurd h'.1.symm h.1
    · intro h'; exact absurd h' (by simp)
  | c :: m, d :: x, a, h => by
    simp only [List.mem_cons, not_or] at h
    simp only [List.cons_append, List.cons_prefix_cons, prefix_append_sep sep m x a h.2]

theorem infix_append_sep (sep : Char) (m : Str) (hm : sep ∉ m) (hne : m ≠ []) :
    ∀ (x a : Str), m <:+: x ++ sep :: a ↔ (m <:+: x ∨ m <:+: a)
  | [], a => by
    simp only [List.nil_append, List.infix_cons_iff, List.infix_nil]
    constructor
    · rintro (h | h)
      · cases m with
        | nil => exact absurd rfl hne
        | cons c m =>
          simp only [List.mem_cons, not_or] at hm
          exact absurd (List.cons_prefix_cons.1 h).1.symm hm.1
      · exact Or.inr h
    · rintro (h | h)
      · exact absurd h hne
      · exact Or.inr h
  | d :: x, a => by
    simp only [List.cons_append, List.infix_cons_iff, infix_append_sep sep m hm hne x a]
    have := prefix_append_sep sep m (d :: x) a hm
    simp only [List.cons_append] at this
    rw [this]
    constructor
    · rintro (h | h | h)
      · exact Or.inl (Or.inl h)
      · exact Or.inl (Or.inr h)
      · exact Or.inr h
    · rintro ((h | h) | h)
      · exact Or.inl h
      · exact Or.inr (Or.inl h)
      · exact Or.inr (Or.inr h)

end Str

namespace Lst

/-! ### `replaceFirst` -/

/-- `replaceFirst` hits the first occurrence: everything before it is different from `old` -/
theorem replaceFirst_append {α} [BEq α] [LawfulBEq α] (old new : α) (done rest : List α)
    (h : old ∉ done) : replaceFirst old new (done ++ old :: rest) = done ++ new :: rest := by
  induction done with
  | nil => simp [replaceFirst]
  | cons y ys ih =>
    simp only [List.mem_cons, not_or] at h
    have : (y == old) = false := by simpa using fun e => h.1 e.symm
    simp [replaceFirst, this, ih h.2]

theorem replaceFirst_of_not_mem {α} [BEq α] [LawfulBEq α] (old new : α) (l : List α)
    (h : old ∉ l) : replaceFirst old new l = l := by
  induction l with
  | nil => rfl
  | cons y ys ih =>
    simp only [List.mem_cons, not_or] at h
    have : (y == old) = false := by simpa using fun e => h.1 e.symm
    simp [replaceFirst, this, ih h.2]

/-- replacing, in order, each element `x` of `l` by `f x` (first remaining occurrence each
    time) maps `f` over `l`, provided no `f x` is itself an element of `l`; duplicates allowed.
    Generalised to a processed prefix `done` that shares no element with `l`. -/
theorem foldl_replaceFirst {α} [BEq α] [LawfulBEq α] (f : α → α) :
    ∀ (l done : List α), (∀ x ∈ l, x ∉ done) → (∀ x ∈ l, ∀ y ∈ l, f x ≠ y) →
      l.foldl (fun acc x => replaceFirst x (f x) acc) (done ++ l) = done ++ l.map f
  | [], done, _, _ => by simp
  | x :: l, done, h1, h2 => by
    simp only [List.foldl_cons, List.map_cons]
    rw [replaceFirst_append x (f x) done l (h1 x (by simp))]
    have := foldl_replaceFirst f l (done ++ [f x])
      (fun y hy => by
        simp only [List.mem_append, List.mem_singleton, not_or]
        exact ⟨h1 y (by simp [hy]), fun e => h2 x (by simp) y (by simp [hy]) e.symm⟩)
      (fun a ha b hb => h2 a (by simp [ha]) b (by simp [hb]))
    simpa using this

/-! ### `dedupBy` for an arbitrary `eq` -/

theorem dedupBy_sublist {α} (eq : α → α → Bool) : ∀ l : List α, (dedupBy eq l).Sublist l
  | [] => List.Sublist.refl _
  | x :: xs => by
    simp only [dedupBy]
    exact List.Sublist.cons_cons x (List.filter_sublist.trans (dedupBy_sublist eq xs))

theorem mem_of_mem_dedupBy {α} (eq : α → α → Bool) {l : List α} {x : α} (h : x ∈ dedupBy eq l) :
    x ∈ l := (dedupBy_sublist eq l).subset h

/-- no two survivors of `dedupBy eq` are `eq` (earlier vs later) -/
theorem dedupBy_pairwise {α} (eq : α → α → Bool) :
    ∀ l : List α, (dedupBy eq l).Pairwise (fun a b => eq a b = false)
  | [] => List.Pairwise.nil
  | x :: xs => by
    simp only [dedupBy, List.pairwise_cons]
    refine ⟨?_, List.Pairwise.sublist List.filter_sublist (dedupBy_pairwise eq xs)⟩
    intro y hy
    simpa using (List.mem_filter.1 hy).2

/-- every input element has an `eq`-representative among the survivors -/
theorem dedupBy_cover {α} (eq : α → α → Bool) (hrefl : ∀ a, eq a a = true)
    (htrans : ∀ a b c, eq a b = true → eq b c = true → eq a c = true) :
    ∀ (l : List α), ∀ x ∈ l, ∃ y ∈ dedupBy eq l, eq y x = true
  | [], x, h => by simp at h
  | a :: xs, x, h => by
    rcases List.mem_cons.1 h with rfl | h
    · exact ⟨x, by simp [dedupBy], hrefl x⟩
    · obtain ⟨y, hy, hyx⟩ := dedupBy_cover eq hrefl htrans xs x h
      cases hay : eq a y with
      | true => exact ⟨a, by simp [dedupBy], htrans _ _ _ hay hyx⟩
      | false => exact ⟨y, by simp [dedupBy, List.mem_filter, hy, hay], hyx⟩

end Lst

namespace Ctx

open Spec

/-! ### `or_on_path` -/

theorem countChar_ext (c : Char) (x a : Str) :
    Str.countChar c (x ++ c :: a) = Str.countChar c x + 1 + Str.countChar c a := by
  simp [Str.countChar, List.filter_append]
  omega

theorem countChar_eq_zero (c : Char) (a : Str) (h : c ∉ a) : Str.countChar c a = 0 := by
  simp only [Str.countChar, List.length_eq_zero_iff, List.filter_eq_nil_iff]
  intro x hx hxc
  have : x = c := by simpa using hxc
  exact h (this ▸ hx)

/-- `x + "/" + a` is never an element of `cur` when all of `cur` have the same number of '/' -/
theorem ext_ne {n : Nat} {cur : List Str} (hc : ∀ x ∈ cur, Str.countChar '/' x = n)
    (a : Str) (ha : '/' ∉ a) : ∀ x ∈ cur, ∀ y ∈ cur, x ++ '/' :: a ≠ y := by
  intro x hx y hy e
  have := congrArg (Str.countChar '/') e
  rw [countChar_ext, hc x hx, hc y hy, countChar_eq_zero _ _ ha] at this
  omega

theorem orPlain_eq_foldl (part : Str) : ∀ (l found : List Str),
    orPlain part l found = l.foldl (fun acc x => Lst.replaceFirst x (x ++ '/' :: part) acc) found
  | [], _ => rfl
  | x :: l, found => by simp only [orPlain, List.foldl_cons]; exact orPlain_eq_foldl part l _

/-- the non-or branch extends every element in place -/
theorem orPlain_self (part : Str) (cur : List Str)
    (h : ∀ x ∈ cur, ∀ y ∈ cur, x ++ '/' :: part ≠ y) :
    orPlain part cur cur = cur.map (fun x => x ++ '/' :: part) := by
  rw [orPlain_eq_foldl]
  simpa using Lst.foldl_replaceFirst (fun x => x ++ '/' :: part) cur [] (by simp) h

/-- the first alternative of an or-part: every `sid` is still in `found`, so it is replaced -/
theorem orAlt_first (alt : Str) : ∀ (l done : List Str), (∀ x ∈ l, x ∉ done) →
    (∀ x ∈ l, ∀ y ∈ l, x ++ '/' :: alt ≠ y) →
    orAlt alt l (done ++ l) = done ++ l.map (fun x => x ++ '/' :: alt)
  | [], done, _, _ => by simp [orAlt]
  | x :: l, done, h1, h2 => by
    have hc : (done ++ x :: l).contains x = true := by simp
    simp only [orAlt, hc, if_true, List.map_cons]
    rw [Lst.replaceFirst_append x _ done l (h1 x (by simp))]
    have := orAlt_first alt l (done ++ [x ++ '/' :: alt])
      (fun y hy => by
        simp only [List.mem_append, List.mem_singleton, not_or]
        exact ⟨h1 y (by simp [hy]), fun e => h2 x (by simp) y (by simp [hy]) e.symm⟩)
      (fun a ha b hb => h2 a (by simp [ha]) b (by simp [hb]))
    simpa using this

/-- a later alternative: no `sid` of `current` is in `found` any more, so it is appended -/
theorem orAlt_later (alt : Str) : ∀ (l found : List Str), (∀ x ∈ l, x ∉ found) →
    (∀ x ∈ l, ∀ y ∈ l, x ++ '/' :: alt ≠ y) →
    orAlt alt l found = found ++ l.map (fun x => x ++ '/' :: alt)
  | [], found, _, _ => by simp [orAlt]
  | x :: l, found, h1, h2 => by
    have hc : found.contains x = false := by simpa using h1 x (by simp)
    simp only [orAlt, hc, List.map_cons]
    have := orAlt_later alt l (found ++ [x ++ '/' :: alt])
      (fun y hy => by
        simp only [List.mem_append, List.mem_singleton, not_or]
        exact ⟨h1 y (by simp [hy]), fun e => h2 x (by simp) y (by simp [hy]) e.symm⟩)
      (fun a ha b hb => h2 a (by simp [ha]) b (by simp [hb]))
    simpa using this

theorem orAlt_foldl_later {n : Nat} (cur : List Str) (hc : ∀ x ∈ cur, Str.countChar '/' x = n) :
    ∀ (alts : List Str) (found : List Str), (∀ a ∈ alts, '/' ∉ a) →
      (∀ x ∈ found, Str.countChar '/' x = n + 1) →
      alts.foldl (fun f alt => orAlt alt cur f) found =
        found ++ alts.flatMap (fun a => cur.map (fun x => x ++ '/' :: a))
  | [], found, _, _ => by simp
  | a :: alts, found, ha, hf => by
    simp only [List.foldl_cons, List.flatMap_cons]
    have hne : ∀ x ∈ cur, x ∉ found := by
      intro x hx hxf
      have := hf x hxf
      rw [hc x hx] at this
      omega
    rw [orAlt_later a cur found hne (ext_ne hc a (ha a (by simp)))]
    rw [orAlt_foldl_later cur hc alts _ (fun b hb => ha b (by simp [hb]))]
    · simp
    · intro y hy
      rcases List.mem_append.1 hy with hy | hy
      · exact hf y hy
      · obtain ⟨x, hx, rfl⟩ := List.mem_map.1 hy
        rw [countChar_ext, hc x hx, countChar_eq_zero _ _ (ha a (by simp))]

theorem orAlt_foldl {n : Nat} (cur : List Str) (hc : ∀ x ∈ cur, Str.countChar '/' x = n)
    (alts : List Str) (hne : alts ≠ []) (ha : ∀ a ∈ alts, '/' ∉ a) :
    alts.foldl (fun f alt => orAlt alt cur f) cur =
      alts.flatMap (fun a => cur.map (fun x => x ++ '/' :: a)) := by
  cases alts with
  | nil => exact absurd rfl hne
  | cons a alts =>
    simp only [List.foldl_cons, List.flatMap_cons]
    have := orAlt_first a cur [] (by simp) (ext_ne hc a (ha a (by simp)))
    simp only [List.nil_append] at this
    rw [this]
    apply orAlt_foldl_later cur hc alts _ (fun b hb => ha b (by simp [hb]))
    intro y hy
    obtain ⟨x, hx, rfl⟩ := List.mem_map.1 hy
    rw [countChar_ext, hc x hx, countChar_eq_zero _ _ (ha a (by simp))]

/-- alternatives are infixes of the part -/
theorem altsOf_infix (part : Str) : ∀ a ∈ altsOf part, a <:+: part := by
  intro a ha
  unfold altsOf at ha
  split at ha
  · obtain ⟨p, hp, rfl⟩ := List.mem_map.1 ha
    exact (Str.strip_infix p).trans (Str.splitOn_infix ',' part p hp)
  · simp at ha; subst ha; exact List.infix_rfl

theorem altsOf_not_mem (c : Char) (part : Str) (h : c ∉ part) : ∀ a ∈ altsOf part, c ∉ a :=
  fun a ha hc => h ((altsOf_infix part a ha).subset hc)

/-- one step of the spec product -/
def orStep (acc : List Str) (part : Str) : List Str :=
  (altsOf part).flatMap (fun a => acc.map (fun x => x ++ '/' :: a))

theorem orParts_eq : ∀ (parts : List Str) (found : List Str) (n : Nat),
    (∀ p ∈ parts, '/' ∉ p) → (∀ x ∈ found, Str.countChar '/' x = n) →
    orParts parts found = parts.foldl orStep found
  | [], _, _, _, _ => rfl
  | part :: rest, found, n, hp, hc => by
    have hp0 : '/' ∉ part := hp part (by simp)
    have ha := altsOf_not_mem '/' part hp0
    have hstep : (if Str.hasChar ',' part then
          ((Str.splitOn ',' part).map Str.strip).foldl (fun f alt => orAlt alt found f) found
        else orPlain part found found) = orStep found part := by
      unfold orStep
      by_cases hcm : Str.hasChar ',' part = true
      · have hal : altsOf part = (Str.splitOn ',' part).map Str.strip := by simp [altsOf, hcm]
        rw [if_pos hcm, hal]
        apply orAlt_foldl found hc
        · simpa using Str.splitOn_ne_nil ',' part
        · rw [← hal]; exact ha
      · have hal : altsOf part = [part] := by simp [altsOf, hcm]
        rw [if_neg hcm, hal]
        simp [orPlain_self part found (ext_ne hc part hp0)]
    simp only [orParts, List.foldl_cons, hstep]
    apply orParts_eq rest _ (n + 1) (fun p h => hp p (by simp [h]))
    intro y hy
    simp only [orStep, List.mem_flatMap, List.mem_map] at hy
    obtain ⟨a, haa, x, hx, rfl⟩ := hy
    rw [countChar_ext, hc x hx, countChar_eq_zero _ _ (ha a haa)]

/-! ### the sentinel and the final loop -/

theorem startMark_no_slash : '/' ∉ startMark := by decide

theorem orProduct_cons (p : Str) (rest : List Str) :
    orProduct (p :: rest) = rest.foldl orStep (altsOf p) := rfl

/-- a common prefix commutes with the product steps -/
theorem foldl_orStep_map_prefix (pre : Str) : ∀ (rest : List Str) (acc : List Str),
    rest.foldl orStep (acc.map (fun y => pre ++ y)) =
      (rest.foldl orStep acc).map (fun y => pre ++ y)
  | [], _ => rfl
  | part :: rest, acc => by
    simp only [List.foldl_cons]
    rw [← foldl_orStep_map_prefix pre rest]
    congr 1
    simp [orStep, List.map_flatMap, Function.comp_def]

/-- a '/'-free non-empty marker absent from all alternatives is absent from all products -/
theorem foldl_orStep_not_infix (m : Str) (hm : '/' ∉ m) (hne : m ≠ []) :
    ∀ (rest : List Str) (acc : List Str),
      (∀ p ∈ rest, ∀ a ∈ altsOf p, ¬ m <:+: a) → (∀ y ∈ acc, ¬ m <:+: y) →
      ∀ y ∈ rest.foldl orStep acc, ¬ m <:+: y
  | [], _, _, hacc => hacc
  | part :: rest, acc, hr, hacc => by
    simp only [List.foldl_cons]
    apply foldl_orStep_not_infix m hm hne rest _ (fun p hp => hr p (by simp [hp]))
    intro y hy
    simp only [orStep, List.mem_flatMap, List.mem_map] at hy
    obtain ⟨a, ha, x, hx, rfl⟩ := hy
    rw [Str.infix_append_sep '/' m hm hne]
    rintro (h | h)
    · exact hacc x hx h
    · exact hr part (by simp) a ha h

theorem orProduct_not_infix (m : Str) (hm : '/' ∉ m) (hne : m ≠ []) (s : Str)
    (hs : ¬ m <:+: s) : ∀ y ∈ orProduct (Str.splitOn '/' s), ¬ m <:+: y := by
  have hparts : ∀ p ∈ Str.splitOn '/' s, ∀ a ∈ altsOf p, ¬ m <:+: a := by
    intro p hp a ha h
    exact hs ((h.trans (altsOf_infix p a ha)).trans (Str.splitOn_infix '/' s p hp))
  cases hsp : Str.splitOn '/' s with
  | nil => simp [orProduct]
  | cons p rest =>
    rw [hsp] at hparts
    rw [orProduct_cons]
    exact foldl_orStep_not_infix m hm hne rest _ (fun q hq => hparts q (by simp [hq]))
      (hparts p (by simp))

/-- the final loop: its duplicate test never fires, the sentinel prefix is removed -/
theorem orFinish_eq (m : Str) (hmne : m ≠ []) (hsm : startMark ++ ['/'] = m) :
    ∀ (l res : List Str), (∀ y ∈ l, ¬ startMark <:+: y) → (∀ r ∈ res, ¬ startMark <:+: r) →
      orFinish (l.map (fun y => m ++ y)) res = res ++ l
  | [], res, _, _ => by simp [orFinish]
  | y :: l, res, hl, hres => by
    have hy : ¬ startMark <:+: y := hl y (by simp)
    have hc : res.contains (m ++ y) = false := by
      have : m ++ y ∉ res := by
        intro h
        apply hres _ h
        rw [← hsm]
        exact ⟨[], '/' :: y, by simp⟩
      simpa using this
    have hrep : Str.replace (m ++ y) (startMark ++ ['/']) [] = y := by
      rw [hsm]
      apply Str.replace_prefix_drop m y hmne
      rw [Str.isInfix_eq_false_iff, ← hsm]
      intro h
      exact hy ((List.prefix_append startMark ['/']).isInfix.trans h)
    simp only [List.map_cons, orFinish, hc, hrep]
    rw [orFinish_eq m hmne hsm l (res ++ [y]) (fun z hz => hl z (by simp [hz]))]
    · simp
    · intro r hr
      rcases List.mem_append.1 hr with hr | hr
      · exact hres r hr
      · simp at hr; subst hr; exact hy

/-- `or_on_path` computes the spec product when the sentinel does not occur in the input -/
theorem orOnPath_eq (s : Str) (hm : Str.isInfix startMark s = false) :
    orOnPath s = orProduct (Str.splitOn '/' s) := by
  rw [Str.isInfix_eq_false_iff] at hm
  have hprod := orProduct_not_infix startMark startMark_no_slash (by decide) s hm
  unfold orOnPath
  rw [orParts_eq (Str.splitOn '/' s) [startMark] 0 (Str.splitOn_not_mem '/' s)
    (by intro x hx; simp at hx; subst hx; decide)]
  revert hprod
  cases hsp : Str.splitOn '/' s with
  | nil => exact absurd hsp (Str.splitOn_ne_nil '/' s)
  | cons p rest =>
    intro hprod
    rw [orProduct_cons] at hprod ⊢
    have h1 : orStep [startMark] p = (altsOf p).map (fun y => (startMark ++ ['/']) ++ y) := by
      simp only [orStep, List.map_cons, List.map_nil, List.append_assoc, List.cons_append,
        List.nil_append]
      induction altsOf p with
      | nil => rfl
      | cons a as ih => simp [ih]
    simp only [List.foldl_cons, h1]
    rw [foldl_orStep_map_prefix]
    have := orFinish_eq (startMark ++ ['/']) (by decide) rfl _ [] hprod (by simp)
    simpa using this

/-! ### products as choices -/

theorem foldl_ext_prefix (pre : Str) : ∀ (picks : List Str) (b : Str),
    picks.foldl (fun acc a => acc ++ '/' :: a) (pre ++ b) =
      pre ++ picks.foldl (fun acc a => acc ++ '/' :: a) b
  | [], _ => rfl
  | a :: picks, b => by
    simp only [List.foldl_cons]
    rw [← foldl_ext_prefix pre picks]
    simp

theorem joinWith_cons_eq_foldl : ∀ (picks : List Str) (a : Str),
    Str.joinWith '/' (a :: picks) = picks.foldl (fun acc b => acc ++ '/' :: b) a
  | [], _ => rfl
  | b :: picks, a => by
    simp only [Str.joinWith, List.foldl_cons]
    rw [joinWith_cons_eq_foldl picks b, foldl_ext_prefix a picks ('/' :: b)]
    congr 1
    exact (foldl_ext_prefix ['/'] picks b).symm

theorem mem_foldl_orStep : ∀ (rest : List Str) (acc : List Str) (x : Str),
    x ∈ rest.foldl orStep acc ↔
      ∃ y ∈ acc, ∃ picks, Choice rest picks ∧ x = picks.foldl (fun acc a => acc ++ '/' :: a) y
  | [], acc, x => by
    simp only [List.foldl_nil]
    constructor
    · intro h; exact ⟨x, h, [], Choice.nil, rfl⟩
    · rintro ⟨y, hy, picks, hc, rfl⟩
      cases hc; exact hy
  | part :: rest, acc, x => by
    simp only [List.foldl_cons]
    rw [mem_foldl_orStep rest]
    constructor
    · rintro ⟨y', hy', picks, hc, rfl⟩
      simp only [orStep, List.mem_flatMap, List.mem_map] at hy'
      obtain ⟨a, ha, y, hy, rfl⟩ := hy'
      exact ⟨y, hy, a :: picks, Choice.cons ha hc, rfl⟩
    · rintro ⟨y, hy, picks, hc, rfl⟩
      cases hc with
      | cons ha hc' =>
        rename_i a as
        refine ⟨y ++ '/' :: a, ?_, as, hc', rfl⟩
        simp only [orStep, List.mem_flatMap, List.mem_map]
        exact ⟨a, ha, y, hy, rfl⟩

theorem mem_orProduct (parts : List Str) (hne : parts ≠ []) (x : Str) :
    x ∈ orProduct parts ↔ ∃ picks, Choice parts picks ∧ x = Str.joinWith '/' picks := by
  cases parts with
  | nil => exact absurd rfl hne
  | cons p rest =>
    rw [orProduct_cons, mem_foldl_orStep]
    constructor
    · rintro ⟨a, ha, picks, hc, rfl⟩
      exact ⟨a :: picks, Choice.cons ha hc, (joinWith_cons_eq_foldl picks a).symm⟩
    · rintro ⟨picks, hc, rfl⟩
      cases hc with
      | cons ha hc' =>
        rename_i a as
        exact ⟨a, ha, as, hc', joinWith_cons_eq_foldl as a⟩

end Ctx

/-! ### `or_on_query` -/

/-- assigning an existing key of a dict with distinct keys overwrites in place -/
theorem Dict.set_append_of_not_mem (k v i : Str) (rest : Dict) : ∀ (pre : Dict),
    k ∉ pre.map (·.1) → Dict.set (pre ++ (k, v) :: rest) k i = pre ++ (k, i) :: rest
  | [], _ => by simp [Dict.set]
  | (k', v') :: pre, h => by
    simp only [List.map_cons, List.mem_cons, not_or] at h
    have : (k' == k) = false := by simpa using fun e => h.1 e.symm
    simp [Dict.set, this, Dict.set_append_of_not_mem k v i rest pre h.2]

namespace Ctx

/-- the query loop acts on every dict of `result` independently (as a set) -/
theorem mem_orQueryGo_iff : ∀ (items : List (Str × Str)) (result : List Dict) (d : Dict),
    d ∈ orQueryGo items result ↔ ∃ d0 ∈ result, d ∈ orQueryGo items [d0]
  | [], result, d => by simp [orQueryGo]
  | (k, v) :: rest, result, d => by
    simp only [orQueryGo]
    split
    · rw [mem_orQueryGo_iff rest]
      constructor
      · rintro ⟨d1, hd1, hd⟩
        simp only [List.mem_flatMap, List.mem_map] at hd1
        obtain ⟨i, hi, d0, hd0, rfl⟩ := hd1
        refine ⟨d0, hd0, (mem_orQueryGo_iff rest _ d).2 ⟨Dict.set d0 k i, ?_, hd⟩⟩
        simp only [List.mem_flatMap, List.mem_map, List.mem_singleton]
        exact ⟨i, hi, d0, rfl, rfl⟩
      · rintro ⟨d0, hd0, hd⟩
        obtain ⟨d1, hd1, hd'⟩ := (mem_orQueryGo_iff rest _ d).1 hd
        simp only [List.mem_flatMap, List.mem_map, List.mem_singleton] at hd1
        obtain ⟨i, hi, a, ha, rfl⟩ := hd1
        subst ha
        refine ⟨_, ?_, hd'⟩
        simp only [List.mem_flatMap, List.mem_map]
        exact ⟨i, hi, a, hd0, rfl⟩
    · exact mem_orQueryGo_iff rest result d

/-- the condition a result value must satisfy w.r.t. the original value -/
def orQueryOk (p : (Str × Str) × (Str × Str)) : Prop :=
  if Str.hasChar ',' p.1.2 then p.2.2 ∈ Str.splitOn ',' p.1.2 else p.2.2 = p.1.2

theorem mem_orQueryGo_suffix : ∀ (items pre : Dict), ((pre ++ items).map (·.1)).Nodup →
    ∀ d : Dict, d ∈ orQueryGo items [pre ++ items] ↔
      ∃ d', d = pre ++ d' ∧ d'.map (·.1) = items.map (·.1) ∧ ∀ p ∈ items.zip d', orQueryOk p
  | [], pre, _, d => by
    simp only [orQueryGo, List.append_nil, List.mem_singleton, List.map_nil, List.map_eq_nil_iff,
      List.zip_nil_left, List.not_mem_nil, false_imp_iff, implies_true, and_true]
    constructor
    · intro h; exact ⟨[], by simp [h], rfl⟩
    · rintro ⟨d', rfl, rfl⟩; simp
  | (k, v) :: rest, pre, hnd, d => by
    have hk : k ∉ pre.map (·.1) := by
      simp only [List.map_append, List.map_cons] at hnd
      have := (List.nodup_append.1 hnd).2.2
      intro hkp
      exact this k hkp k (by simp) rfl
    have hnd' : ∀ i : Str, (((pre ++ [(k, i)]) ++ rest).map (·.1)).Nodup := by
      intro i; simpa using hnd
    have key : ∀ i : Str, (d ∈ orQueryGo rest [(pre ++ [(k, i)]) ++ rest]) ↔
        ∃ d'', d = pre ++ (k, i) :: d'' ∧ d''.map (·.1) = rest.map (·.1) ∧
          ∀ p ∈ rest.zip d'', orQueryOk p := by
      intro i
      rw [mem_orQueryGo_suffix rest (pre ++ [(k, i)]) (hnd' i) d]
      simp
    simp only [orQueryGo]
    split
    · next hc =>
      rw [mem_orQueryGo_iff]
      constructor
      · rintro ⟨d1, hd1, hd⟩
        simp only [List.mem_flatMap, List.mem_map, List.mem_singleton] at hd1
        obtain ⟨i, hi, a, ha, rfl⟩ := hd1
        subst ha
        rw [Dict.set_append_of_not_mem k v i rest pre hk] at hd
        have hd : d ∈ orQueryGo rest [(pre ++ [(k, i)]) ++ rest] := by simpa using hd
        obtain ⟨d'', rfl, hkeys, hok⟩ := (key i).1 hd
        refine ⟨(k, i) :: d'', rfl, by simp [hkeys], ?_⟩
        intro p hp
        simp only [List.zip_cons_cons, List.mem_cons] at hp
        rcases hp with rfl | hp
        · simp [orQueryOk, hc, hi]
        · exact hok p hp
      · rintro ⟨d', rfl, hkeys, hok⟩
        cases d' with
        | nil => simp at hkeys
        | cons q d'' =>
          obtain ⟨k', i⟩ := q
          simp only [List.map_cons, List.cons.injEq] at hkeys
          obtain ⟨rfl, hkeys⟩ := hkeys
          have hi : i ∈ Str.splitOn ',' v := by
            have := hok ((k', v), (k', i)) (by simp)
            simpa [orQueryOk, hc] using this
          refine ⟨pre ++ (k', i) :: rest, ?_, ?_⟩
          · simp only [List.mem_flatMap, List.mem_map, List.mem_singleton]
            exact ⟨i, hi, _, rfl, Dict.set_append_of_not_mem k' v i rest pre hk⟩
          · have h2 : pre ++ (k', i) :: d'' ∈ orQueryGo rest [(pre ++ [(k', i)]) ++ rest] :=
              (key i).2 ⟨d'', rfl, hkeys, fun p hp => hok p (by simp [hp])⟩
            simpa using h2
    · next hc =>
      have hc : Str.hasChar ',' v = false := by simpa using hc
      have e : pre ++ (k, v) :: rest = (pre ++ [(k, v)]) ++ rest := by simp
      rw [e, key v]
      constructor
      · rintro ⟨d'', rfl, hkeys, hok⟩
        refine ⟨(k, v) :: d'', rfl, by simp [hkeys], ?_⟩
        intro p hp
        simp only [List.zip_cons_cons, List.mem_cons] at hp
        rcases hp with rfl | hp
        · simp [orQueryOk, hc]
        · exact hok p hp
      · rintro ⟨d', rfl, hkeys, hok⟩
        cases d' with
        | nil => simp at hkeys
        | cons q d'' =>
          obtain ⟨k', i⟩ := q
          simp only [List.map_cons, List.cons.injEq] at hkeys
          obtain ⟨rfl, hkeys⟩ := hkeys
          have hi : i = v := by
            have := hok ((k', v), (k', i)) (by simp)
            simpa [orQueryOk, hc] using this
          subst hi
          exact ⟨d'', rfl, hkeys, fun p hp => hok p (by simp [hp])⟩

end Ctx
