/-
  Spil.Lemmas.DenoteNarrow — helper lemmas for C07c: what `type_narrow` can return (shape only:
  the behaviour of the overlay is C04's).
-/
import Spil.Spec.Denote
import Spil.Lemmas.DenoteExpand
import Spil.Lemmas.DenoteStr

namespace DenL

open Spec Ctx

/-- a type name of the table -/
def IsLabel (c : Ctx) (l : Str) : Prop := ∃ t, (l, t) ∈ c.cfg.sid.templates

/-- the shape of what the Sid constructor returns for `something?query`: a typed Sid of a
    configured type, or an untyped one that is empty or shows its un-applied query -/
def NarrowOut (c : Ctx) (x : Sid) : Prop :=
  (x.fields ≠ [] ∧ IsLabel c x.type) ∨
  (x.fields = [] ∧ x.type = [] ∧ (x.string = [] ∨ '?' ∈ x.string))

/-! ### labels and non-empty data out of the resolver -/

theorem resolveTpl_some_ne (e : Env) (cd : Bool) (t : Template) (s : Str) (d : Dict)
    (h : Resolver.resolveTpl e cd t s = .ok (some d)) : d ≠ [] := by
  unfold Resolver.resolveTpl at h
  split at h
  · cases h
  · split at h
    · cases h
    · next d' _ =>
      simp only [Except.ok.injEq] at h
      split at h
      · cases h
      · next hne =>
        simp only [Option.some.injEq] at h
        subst h
        intro h0; rw [h0] at hne; simp at hne

theorem lookup_mem' {α} (l : List (Str × α)) (k : Str) (v : α) (h : l.lookup k = some v) : (k, v) ∈ l :=
  UpdL.lookup_mem l k v h

theorem resolveOne_inv (c : Ctx) (s l : Str) (d : Dict)
    (h : Resolver.resolveOne c.env c.sidR s l = .ok (some d)) : IsLabel c l ∧ d ≠ [] := by
  unfold Resolver.resolveOne at h
  split at h
  · cases h
  · split at h
    · cases h
    · next t ht =>
      exact ⟨⟨t, lookup_mem' _ _ _ ht⟩, resolveTpl_some_ne _ _ _ _ _ h⟩

theorem resolveFirstGo_inv (e : Env) (cd : Bool) (s : Str) : ∀ (ts : List (Str × Template)) (l : Str) (d : Dict),
    Resolver.resolveFirstGo e cd s ts = .ok (some (l, d)) → (∃ t, (l, t) ∈ ts) ∧ d ≠ []
  | [], _, _, h => by simp [Resolver.resolveFirstGo] at h
  | (l', t) :: ts, l, d, h => by
    simp only [Resolver.resolveFirstGo] at h
    split at h
    · cases h
    · next d' hd =>
      simp only [Except.ok.injEq, Option.some.injEq, Prod.mk.injEq] at h
      obtain ⟨rfl, rfl⟩ := h
      exact ⟨⟨t, by simp⟩, resolveTpl_some_ne _ _ _ _ _ hd⟩
    · obtain ⟨⟨t', ht'⟩, hd⟩ := resolveFirstGo_inv e cd s ts l d h
      exact ⟨⟨t', by simp [ht']⟩, hd⟩

theorem resolveAllGo_inv (e : Env) (cd : Bool) (s : Str) : ∀ (ts : List (Str × Template)) (all : List (Str × Dict)),
    Resolver.resolveAllGo e cd s ts = .ok all → ∀ p ∈ all, (∃ t, (p.1, t) ∈ ts) ∧ p.2 ≠ []
  | [], all, h => by
    simp only [Resolver.resolveAllGo, Except.ok.injEq] at h
    subst h; simp
  | (l', t) :: ts, all, h => by
    simp only [Resolver.resolveAllGo] at h
    split at h
    · cases h
    · next od hod =>
      split at h
      · cases h
      · next more hmore =>
        simp only [Except.ok.injEq] at h
        subst h
        have ih := resolveAllGo_inv e cd s ts more hmore
        intro p hp
        cases od with
        | none =>
          obtain ⟨⟨t', ht'⟩, hd⟩ := ih p hp
          exact ⟨⟨t', by simp [ht']⟩, hd⟩
        | some d =>
          simp only [List.mem_cons] at hp
          rcases hp with rfl | hp
          · exact ⟨⟨t, by simp⟩, resolveTpl_some_ne _ _ _ _ _ hod⟩
          · obtain ⟨⟨t', ht'⟩, hd⟩ := ih p hp
            exact ⟨⟨t', by simp [ht']⟩, hd⟩

theorem firstExact_mem (c : Ctx) (s : Str) : ∀ (all : List (Str × Dict)) (p : Str × Dict),
    c.firstExact s all = .ok (some p) → p ∈ all
  | [], _, h => by simp [Ctx.firstExact] at h
  | (l, d) :: rest, p, h => by
    simp only [Ctx.firstExact] at h
    split at h
    · cases h
    · split at h
      · simp only [Except.ok.injEq, Option.some.injEq] at h
        subst h; simp
      · exact List.mem_cons_of_mem _ (firstExact_mem c s rest p h)

theorem first_inv (c : Ctx) (s : Str) (ty : Option Str) (b : Bool) (label : Str) (data : Dict)
    (h : (if b = true then
        match Resolver.resolveOne c.env c.sidR s (ty.getD []) with
        | .error x => .error x
        | .ok none => .ok none
        | .ok (some d) => .ok (some (ty.getD [], d))
      else Resolver.resolveFirst c.env c.sidR s) = Except.ok (some (label, data))) :
    IsLabel c label ∧ data ≠ [] := by
  cases b with
  | true =>
    simp only [if_true] at h
    split at h
    · cases h
    · cases h
    · next d' hd' =>
      simp only [Except.ok.injEq, Option.some.injEq, Prod.mk.injEq] at h
      obtain ⟨rfl, rfl⟩ := h
      exact resolveOne_inv c s _ _ hd'
  | false =>
    simp only [Bool.false_eq_true, if_false] at h
    unfold Resolver.resolveFirst at h
    split at h
    · cases h
    · exact resolveFirstGo_inv _ _ _ _ _ _ h

theorem sidToDict_inv (c : Ctx) (s : Str) (ty : Option Str) (l : Str) (d : Dict)
    (h : c.sidToDict s ty = .ok (some (l, d))) : IsLabel c l ∧ d ≠ [] := by
  unfold Ctx.sidToDict at h
  simp only at h
  split at h
  · cases h
  · cases h
  · next label data hfirst =>
    have hld := first_inv c s ty _ label data hfirst
    split at h
    · cases h
    · next f hf =>
      by_cases hfs : (f == some s) = true
      · rw [if_pos hfs] at h
        simp only [Except.ok.injEq, Option.some.injEq, Prod.mk.injEq] at h
        obtain ⟨rfl, rfl⟩ := h
        exact hld
      · rw [if_neg hfs] at h
        clear hfirst
        have key : ∀ all, Resolver.resolveAll c.env c.sidR s = .ok all →
            c.firstExact s all = Except.ok (some (l, d)) → IsLabel c l ∧ d ≠ [] := by
          intro all hall h
          have hm := firstExact_mem c s all (l, d) h
          unfold Resolver.resolveAll at hall
          split at hall
          · simp only [Except.ok.injEq] at hall
            subst hall; simp at hm
          · exact resolveAllGo_inv _ _ _ _ _ hall (l, d) hm
        cases ty with
        | none =>
          simp only [Bool.false_eq_true, if_false] at h
          split at h
          · cases h
          · next all hall => exact key all hall h
        | some t' =>
          cases hte : t'.isEmpty with
          | true =>
            simp only [hte, Bool.not_true, Bool.false_eq_true, if_false] at h
            split at h
            · cases h
            · next all hall => exact key all hall h
          | false => simp [hte] at h

theorem formatAllGo_inv (e : Env) (R : Resolver) (data : Dict) : ∀ (ts : List (Str × Template)) (found : List (Str × Str)),
    Resolver.formatAllGo e R data ts = .ok found → ∀ p ∈ found, ∃ t, (p.1, t) ∈ ts
  | [], found, h => by
    simp only [Resolver.formatAllGo, Except.ok.injEq] at h
    subst h; simp
  | (l, t) :: ts, found, h => by
    simp only [Resolver.formatAllGo] at h
    split at h
    · cases h
    · next of _ =>
      split at h
      · cases h
      · next more hmore =>
        simp only [Except.ok.injEq] at h
        subst h
        have ih := formatAllGo_inv e R data ts more hmore
        intro p hp
        cases of with
        | none =>
          obtain ⟨t', ht'⟩ := ih p hp
          exact ⟨t', by simp [ht']⟩
        | some f =>
          simp only [List.mem_cons] at hp
          rcases hp with rfl | hp
          · exact ⟨t, by simp⟩
          · obtain ⟨t', ht'⟩ := ih p hp
            exact ⟨t', by simp [ht']⟩

theorem dictToTypes_inv (c : Ctx) (data : Dict) (ts : List Str) (h : c.dictToTypes data = .ok ts) :
    (ts ≠ [] → data ≠ []) ∧ ∀ t ∈ ts, IsLabel c t := by
  unfold Ctx.dictToTypes Resolver.formatAll at h
  split at h
  · cases h
  · next found hfound =>
    simp only [Except.ok.injEq] at h
    subst h
    split at hfound
    · next he =>
      simp only [Except.ok.injEq] at hfound
      subst hfound
      simp
    · next he =>
      refine ⟨fun _ h0 => by rw [h0] at he; simp at he, ?_⟩
      intro t ht
      obtain ⟨p, hp, rfl⟩ := List.mem_map.1 ht
      exact formatAllGo_inv _ _ _ _ _ hfound p hp

/-! ### `apply_query` and the constructor on `something?query` -/

/-- the type and fields handed to `apply_query` by the constructor -/
def Resolved (c : Ctx) (ty : Str) (fields : Dict) : Prop :=
  (ty = [] ∧ fields = []) ∨ (IsLabel c ty ∧ fields ≠ [])

theorem resolved_of (c : Ctx) (r : Option (Str × Dict))
    (h : ∀ l d, r = some (l, d) → IsLabel c l ∧ d ≠ []) :
    Resolved c ((r.map (·.1)).getD []) ((r.map (·.2)).getD []) := by
  cases r with
  | none => exact Or.inl ⟨rfl, rfl⟩
  | some p => exact Or.inr (h p.1 p.2 rfl)

theorem applyQuery_inv (c : Ctx) (string query ty : Str) (fields : Dict) (hq : query ≠ [])
    (hres : Resolved c ty fields) (x : Sid) (h : c.applyQuery string query ty fields = .ok x) :
    NarrowOut c x := by
  have hqe : query.isEmpty = false := by simp [hq]
  unfold Ctx.applyQuery at h
  split at h
  · cases h
  · simp only [hqe, Bool.false_eq_true, if_false] at h
    split at h
    · cases h
    · next newData _ =>
      split at h
      · cases h
      · next newTypes hnt =>
        obtain ⟨hne, hlab⟩ := dictToTypes_inv c newData newTypes hnt
        split at h
        · -- refused
          simp only [Except.ok.injEq] at h
          subst h
          rcases hres with ⟨rfl, rfl⟩ | ⟨hl, hf⟩
          · exact Or.inr ⟨rfl, rfl, Or.inr (by simp)⟩
          · exact Or.inl ⟨hf, hl⟩
        · next t hdec =>
          have ht : t ∈ newTypes := by
            split at hdec
            · cases hdec
            · simp only [Option.some.injEq] at hdec; subst hdec; simp
            · split at hdec
              · next hc =>
                simp only [Option.some.injEq] at hdec; subst hdec
                simpa using hc
              · split at hdec
                · simp only [Option.some.injEq] at hdec; subst hdec; simp
                · cases hdec
          split at h
          · cases h
          · next ns _ =>
            split at h
            · cases h
            · split at h
              · cases h
              · next r hr =>
                simp only [Except.ok.injEq] at h
                subst h
                refine Or.inl ⟨?_, hlab t ht⟩
                cases r with
                | none =>
                  simp only [Option.map_none, Option.getD_none]
                  exact hne (List.ne_nil_of_mem ht)
                | some p =>
                  simp only [Option.map_some, Option.getD_some]
                  exact (sidToDict_inv c ns (some t) p.1 p.2 hr).2

theorem split1_query (u q : Str) (hq : q ≠ []) :
    ∃ a q', Str.split1 '?' (u ++ '?' :: q) = (a, some q') ∧ q' ≠ [] := by
  induction u with
  | nil => exact ⟨[], q, by simp [Str.split1], hq⟩
  | cons ch u ih =>
    obtain ⟨a, q', h, hq'⟩ := ih
    by_cases hc : ch = '?'
    · subst hc
      exact ⟨[], u ++ '?' :: q, by simp [Str.split1], by simp⟩
    · exact ⟨ch :: a, q', by simp [Str.split1, hc, h], hq'⟩

theorem sidToSid_query_inv (c : Ctx) (u q : Str) (hq : q ≠ []) (x : Sid)
    (h : c.sidToSid (u ++ '?' :: q) = .ok x) : NarrowOut c x := by
  obtain ⟨a, q', hsp, hq'⟩ := split1_query u q hq
  have hqe : q'.isEmpty = false := by simp [hq']
  unfold Ctx.sidToSid at h
  simp only [hsp] at h
  split at h
  · cases h
  · next string r hres =>
    have hr : ∀ l d, r = some (l, d) → IsLabel c l ∧ d ≠ [] := by
      intro l d hrl
      subst hrl
      split at hres
      · split at hres
        · cases hres
        · next r' hr' =>
          simp only [Except.ok.injEq, Prod.mk.injEq] at hres
          obtain ⟨_, rfl⟩ := hres
          exact sidToDict_inv c _ _ l d hr'
      · split at hres
        · cases hres
        · next r' hr' =>
          simp only [Except.ok.injEq, Prod.mk.injEq] at hres
          obtain ⟨_, rfl⟩ := hres
          exact sidToDict_inv c _ _ l d hr'
    simp only [hqe, Bool.false_eq_true, if_false] at h
    split at h
    · simp only [Except.ok.injEq] at h
      subst h
      exact Or.inr ⟨rfl, rfl, Or.inr (by simp)⟩
    · exact applyQuery_inv c string q' _ _ hq' (resolved_of c r hr) x h

theorem getWithQuery_inv (c : Ctx) (y : Sid) (q : Str) (hq : q ≠ []) (x : Sid)
    (h : c.getWithQuery y q = .ok x) : NarrowOut c x := by
  unfold Ctx.getWithQuery at h
  split at h
  · simp only [Except.ok.injEq] at h
    subst h
    exact Or.inr ⟨rfl, rfl, Or.inl rfl⟩
  · unfold Ctx.sidOfString at h
    have : (y.uri ++ '?' :: q).isEmpty = false := by simp
    simp only [this, Bool.false_eq_true, if_false] at h
    exact sidToSid_query_inv c y.uri q hq x h

theorem narrowStep_out (c : Ctx) (y x : Sid) (q : Str)
    (h : (if q.isEmpty = true then .ok y else c.getWithQuery y q) = Except.ok x) :
    x = y ∨ NarrowOut c x := by
  split at h
  · simp only [Except.ok.injEq] at h
    exact Or.inl h.symm
  · next hne =>
    exact Or.inr (getWithQuery_inv c y q (by intro h0; rw [h0] at hne; simp at hne) x h)

/-- `type_narrow` returns its argument or something of the shape `NarrowOut` -/
theorem typeNarrow_out (c : Ctx) (y x : Sid) (h : c.typeNarrow y = .ok x) : x = y ∨ NarrowOut c x := by
  unfold Ctx.typeNarrow at h
  split at h
  · simp only [Except.ok.injEq] at h
    exact Or.inl h.symm
  · simp only at h
    split at h
    · cases h
    · next x1 hx1 =>
      have h1 : x1 = y ∨ NarrowOut c x1 := narrowStep_out c y x1 _ hx1
      rcases narrowStep_out c x1 x _ h with rfl | h2
      · exact h1
      · exact Or.inr h2

/-- a leftover of the typing stage passes `type_narrow` unchanged (no narrowing is configured for
    the empty type name) -/
theorem typeNarrow_leftover (c : Ctx) (hnk : c.cfg.sid.typedNarrowing.lookup [] = none) (y : Sid)
    (hy : Leftover y) : c.typeNarrow y = .ok y := by
  obtain ⟨u, rfl, hq, _⟩ := hy
  have h1 : Str.hasChar '?' u = false := (hasChar_false_iff _ _).2 hq
  simp [Ctx.typeNarrow, Sid.untyped, h1, Ctx.basetype, hnk]

end DenL
