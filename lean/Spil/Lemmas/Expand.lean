/-
  Spil.Lemmas.Expand — helper lemmas for C07b (`simple_typing`, `expand`).
-/
import Spil.Spec.Unfold
import Spil.Lemmas.Sid
import Spil.Lemmas.Unfold
import Spil.Lemmas.Hier
import Spil.Props.C01

namespace ExpL

open Spec

/-! ### strings: `count`, `replace`, `split` for one occurrence -/

theorem isPrefixOf_split (sub s : Str) (h : sub.isPrefixOf s = true) : ∃ b, s = sub ++ b := by
  rw [List.isPrefixOf_iff_prefix] at h
  obtain ⟨b, hb⟩ := h
  exact ⟨b, hb.symm⟩

theorem countGo_skip (sub a y : Str) : Str.countGo sub a.length (a ++ y) = Str.countGo sub 0 y := by
  induction a with
  | nil => rfl
  | cons c cs ih => simpa [Str.countGo] using ih

theorem splitStrGo_skip (sub a y cur : Str) :
    Str.splitStrGo sub a.length cur (a ++ y) = Str.splitStrGo sub 0 cur y := by
  induction a with
  | nil => rfl
  | cons c cs ih => simpa [Str.splitStrGo] using ih

theorem replaceGo_of_count_zero (sub rep : Str) :
    ∀ y : Str, Str.countGo sub 0 y = 0 → Str.replaceGo sub rep 0 y = y
  | [], _ => rfl
  | c :: cs, h => by
    simp only [Str.countGo] at h
    split at h
    · omega
    · next hp =>
      simp [Str.replaceGo, hp, replaceGo_of_count_zero sub rep cs h]

/-- a string containing `sub` exactly once (in the sense of `str.count`) is `a ++ sub ++ b`;
    `replace` substitutes in place and `split` starts with `a` -/
theorem count_one_decomp (sub : Str) (hne : sub ≠ []) : ∀ s : Str, Str.countGo sub 0 s = 1 →
    ∃ a b, s = a ++ sub ++ b ∧ (∀ rep, Str.replaceGo sub rep 0 s = a ++ rep ++ b) ∧
      (∀ cur, (Str.splitStrGo sub 0 cur s).head? = some (cur.reverse ++ a))
  | [], h => by simp [Str.countGo] at h
  | c :: cs, h => by
    simp only [Str.countGo] at h
    split at h
    · next hp =>
      obtain ⟨b, hb⟩ := isPrefixOf_split _ _ hp
      cases sub with
      | nil => exact absurd rfl hne
      | cons f fs =>
        simp only [List.cons_append, List.cons.injEq] at hb
        obtain ⟨rfl, rfl⟩ := hb
        simp only [List.length_cons, Nat.add_sub_cancel] at h
        rw [countGo_skip] at h
        have h0 : Str.countGo (c :: fs) 0 b = 0 := by omega
        refine ⟨[], b, by simp, ?_, ?_⟩
        · intro rep
          simp only [Str.replaceGo, hp, if_true, List.length_cons, Nat.add_sub_cancel, List.nil_append]
          rw [Str.replaceGo_skip, replaceGo_of_count_zero _ _ _ h0]
        · intro cur
          simp [Str.splitStrGo, hp]
    · next hp =>
      obtain ⟨a, b, hs, hr, hsp⟩ := count_one_decomp sub hne cs h
      refine ⟨c :: a, b, by simp [hs], ?_, ?_⟩
      · intro rep
        simp [Str.replaceGo, hp, hr rep]
      · intro cur
        simp [Str.splitStrGo, hp, hsp (c :: cur)]

/-- the first piece of `s.split(sub)` is `s` itself or the text before an occurrence of `sub` -/
theorem splitStrGo_head (sub : Str) (hne : sub ≠ []) : ∀ (s cur : Str),
    ∃ a, (Str.splitStrGo sub 0 cur s).head? = some (cur.reverse ++ a) ∧
      (a = s ∨ ∃ b, s = a ++ sub ++ b)
  | [], cur => ⟨[], by simp [Str.splitStrGo], Or.inl rfl⟩
  | c :: cs, cur => by
    by_cases hp : sub.isPrefixOf (c :: cs) = true
    · obtain ⟨b, hb⟩ := isPrefixOf_split _ _ hp
      exact ⟨[], by simp [Str.splitStrGo, hp], Or.inr ⟨b, by simpa using hb⟩⟩
    · obtain ⟨a, ha, hs⟩ := splitStrGo_head sub hne cs (c :: cur)
      refine ⟨c :: a, by simp [Str.splitStrGo, hp, ha], ?_⟩
      rcases hs with rfl | ⟨b, rfl⟩
      · exact Or.inl rfl
      · exact Or.inr ⟨b, by simp⟩

theorem countChar_append (c : Char) (a b : Str) :
    Str.countChar c (a ++ b) = Str.countChar c a + Str.countChar c b := by
  simp [Str.countChar, List.filter_append]

theorem stars_succ (k : Nat) : stars (k + 1) = '/' :: '*' :: stars k := by
  simp [stars, List.replicate_succ]

theorem countChar_stars (k : Nat) : Str.countChar '/' (stars k) = k := by
  induction k with
  | zero => simp [stars, Str.countChar]
  | succ k ih =>
    rw [stars_succ]
    simp only [Str.countChar] at ih ⊢
    simp [ih]

theorem mem_stars (k : Nat) (x : Char) (h : x ∈ stars k) : x = '/' ∨ x = '*' := by
  induction k with
  | zero => simp [stars] at h
  | succ k ih =>
    rw [stars_succ] at h
    simp only [List.mem_cons] at h
    rcases h with h | h | h
    · exact Or.inl h
    · exact Or.inr h
    · exact ih h

theorem splitOn_length (sep : Char) (s : Str) : (Str.splitOn sep s).length = Str.countChar sep s + 1 := by
  induction s with
  | nil => simp [Str.splitOn, Str.countChar]
  | cons c cs ih =>
    rw [Str.splitOn_length_cons, ih]
    by_cases h : c = sep
    · simp [h, Str.countChar]
    · simp [h, Str.countChar]

theorem splitOn_append (sep : Char) (b : Str) : ∀ a : Str,
    Str.splitOn sep (a ++ sep :: b) = Str.splitOn sep a ++ Str.splitOn sep b
  | [] => by simp [Str.splitOn]
  | c :: a => by
    have ih := splitOn_append sep b a
    by_cases h : c = sep
    · simp [Str.splitOn, h, ih]
    · simp only [List.cons_append, Str.splitOn, h, if_false, ih]
      match hs : Str.splitOn sep a with
      | [] => exact absurd hs (Str.splitOn_ne_nil sep a)
      | p :: ps => simp

/-! ### templates: `len(keys)` and the last key -/

theorem countPh_shape {t : Template} {ps : List (Str × Re)} (h : SidL.SidShape t ps) :
    Ctx.countPh t = ps.length := by
  induction h with
  | one k e => simp [Ctx.countPh]
  | cons k e rest p ps _ ih => simp [Ctx.countPh, ih]; omega

theorem getLast_shape {t : Template} {ps : List (Str × Re)} (h : SidL.SidShape t ps) :
    ∃ k e, t.getLast? = some (.ph k e) ∧ ps.getLast? = some (k, e) := by
  induction h with
  | one k e => exact ⟨k, e, rfl, rfl⟩
  | cons k e rest p ps hr ih =>
    obtain ⟨k', e', h1, h2⟩ := ih
    refine ⟨k', e', ?_, ?_⟩
    · cases rest with
      | nil => simp at h1
      | cons r rs => simpa [List.getLast?_cons_cons] using h1
    · simpa [List.getLast?_cons_cons] using h2

theorem tplKeysLen_ok (e : Env) (t : Template) (h : sidTplOk e t = true) :
    Ctx.tplKeysLen t = (phs t).length ∧ Ctx.tplLastKey t = (keysOf t).getLast? ∧ 0 < (phs t).length := by
  obtain ⟨hs, _, hne, _, _⟩ := SidL.tplOk_unpack e t h
  obtain ⟨k, e', h1, h2⟩ := getLast_shape hs
  refine ⟨?_, ?_, List.length_pos_iff.mpr hne⟩
  · simp [Ctx.tplKeysLen, h1, countPh_shape hs]
  · simp [Ctx.tplLastKey, h1, keysOf, List.getLast?_map, h2]

/-! ### `resolve_all` as a function -/

/-- the lenient matches of `u`: what `sid_to_dicts` returns -/
def lenM (c : Ctx) (u : Str) : List (Str × Dict) :=
  if u.isEmpty then [] else c.cfg.sid.templates.filterMap (fun p =>
    match Resolver.resolveTpl c.env false p.2 u with
    | .ok (some d) => some (p.1, d)
    | _ => none)

theorem resolveAllGo_eq (e : Env) (u : Str) : ∀ ts : List (Str × Template),
    Resolver.resolveAllGo e false u ts = .ok (ts.filterMap (fun p =>
      match Resolver.resolveTpl e false p.2 u with
      | .ok (some d) => some (p.1, d)
      | _ => none))
  | [] => rfl
  | (l, t) :: ts => by
    obtain ⟨od, hod⟩ := SidL.resolveTpl_total e t u
    simp only [Resolver.resolveAllGo, hod, resolveAllGo_eq e u ts, List.filterMap_cons]
    cases od <;> rfl

theorem sidToDicts_eq (c : Ctx) (u : Str) : c.sidToDicts u = .ok (lenM c u) := by
  unfold Ctx.sidToDicts Resolver.resolveAll lenM
  split
  · rfl
  · exact resolveAllGo_eq c.env u _

theorem mem_lenM (c : Ctx) (u : Str) (l : Str) (d : Dict) :
    (l, d) ∈ lenM c u ↔ u ≠ [] ∧ ∃ t, (l, t) ∈ c.cfg.sid.templates ∧
      Resolver.resolveTpl c.env false t u = .ok (some d) := by
  unfold lenM
  by_cases hu : u = []
  · simp [hu]
  · have : u.isEmpty = false := by simp [hu]
    simp only [this, Bool.false_eq_true, if_false, List.mem_filterMap, ne_eq, hu, not_false_eq_true,
      true_and]
    constructor
    · rintro ⟨⟨l', t⟩, hp, h⟩
      split at h
      · next d' hd =>
        simp only [Option.some.injEq, Prod.mk.injEq] at h
        obtain ⟨rfl, rfl⟩ := h
        exact ⟨t, hp, hd⟩
      · simp at h
    · rintro ⟨t, hp, h⟩
      exact ⟨(l, t), hp, by simp [h]⟩

theorem lenM_of_accepts (c : Ctx) (hwf : sidTableOk c.env c.cfg.sid.templates = true) (u : Str)
    (hu : u ≠ []) (p : Str × Template) (hp : p ∈ c.cfg.sid.templates)
    (hacc : accepts c.env p.2 u = true) : (p.1, fieldsOf p.2 u) ∈ lenM c u := by
  rw [mem_lenM]
  exact ⟨hu, p.2, hp, SidL.resolveTpl_of_accepts c.env p.2 (SidL.tableOk_unpack _ _ hwf p hp).1 u hacc⟩

theorem lenM_inv (c : Ctx) (hwf : sidTableOk c.env c.cfg.sid.templates = true) (u : Str)
    (l : Str) (d : Dict) (h : (l, d) ∈ lenM c u) :
    u ≠ [] ∧ ∃ t, (l, t) ∈ c.cfg.sid.templates ∧ ∃ m, (u = m ∨ u = m ++ ['\n']) ∧
      accepts c.env t m = true ∧ d = fieldsOf t m := by
  rw [mem_lenM] at h
  obtain ⟨hu, t, hp, hr⟩ := h
  exact ⟨hu, t, hp, SidL.resolveTpl_some c.env t (SidL.tableOk_unpack _ _ hwf (l, t) hp).1 u d hr⟩

theorem tpl_unique (c : Ctx) (hwf : sidTableOk c.env c.cfg.sid.templates = true) (l : Str)
    (t t' : Template) (h : (l, t) ∈ c.cfg.sid.templates) (h' : (l, t') ∈ c.cfg.sid.templates) :
    t = t' := by
  have h1 := (SidL.tableOk_unpack _ _ hwf (l, t) h).2
  have h2 := (SidL.tableOk_unpack _ _ hwf (l, t') h').2
  simp only at h1 h2
  rw [h1] at h2
  exact Option.some.inj h2

/-! ### the forced Sid -/

theorem typedSearch_eq (c : Ctx) (hwf : sidHierOk c.env c.cfg.sid.templates = true) (l : Str)
    (t : Template) (hp : (l, t) ∈ c.cfg.sid.templates) (u : Str) (hq : '?' ∉ u) :
    c.typedSearch l u [] = .ok (forcedSid c.env c.cfg.sid.templates l u) := by
  obtain ⟨htab, _, _, hlab⟩ := HierL.hier_unpack _ _ hwf
  have hne := HierL.tableOk_label_ne _ _ htab (l, t) hp
  obtain ⟨hc, hq'⟩ := hlab (l, t) hp
  simp only [Ctx.typedSearch, List.isEmpty_nil, if_true]
  apply C01.c01_forced c htab l u hne hc
  simp only [List.mem_append, List.mem_cons, not_or]
  exact ⟨hq', by decide, hq⟩

theorem forcedSid_typed (c : Ctx) (l u : Str)
    (h : (forcedSid c.env c.cfg.sid.templates l u).typed = true) :
    ∃ t, (l, t) ∈ c.cfg.sid.templates ∧ u ≠ [] ∧ accepts c.env t u = true ∧
      forcedSid c.env c.cfg.sid.templates l u = typedAs l t u := by
  unfold forcedSid at h ⊢
  cases hl : c.cfg.sid.templates.lookup l with
  | none => simp [hl, Sid.untyped, Sid.typed] at h
  | some t =>
    simp only [hl] at h ⊢
    split at h
    · next hcond =>
      simp only [Bool.and_eq_true, Bool.not_eq_true', List.isEmpty_eq_false_iff] at hcond
      refine ⟨t, SidL.mem_of_lookup _ _ _ hl, hcond.1, hcond.2, ?_⟩
      simp [hcond.1, hcond.2, typedAs]
    · simp [Sid.untyped, Sid.typed] at h

theorem forcedSid_of_accepts (c : Ctx) (hwf : sidTableOk c.env c.cfg.sid.templates = true)
    (p : Str × Template) (hp : p ∈ c.cfg.sid.templates) (u : Str) (hu : u ≠ [])
    (hacc : accepts c.env p.2 u = true) :
    forcedSid c.env c.cfg.sid.templates p.1 u = typedAs p.1 p.2 u := by
  unfold forcedSid
  rw [(SidL.tableOk_unpack _ _ hwf p hp).2]
  simp [hu, hacc, typedAs]

/-- a forced Sid is untyped with uri `u`, or typed with uri `l:u` -/
theorem forcedSid_uri (e : Env) (ts : List (Str × Template)) (l u : Str) :
    forcedSid e ts l u = Sid.untyped u ∨
    ∃ t, ts.lookup l = some t ∧ forcedSid e ts l u = ⟨u, l, fieldsOf t u⟩ := by
  unfold forcedSid
  cases ts.lookup l with
  | none => exact Or.inl rfl
  | some t =>
    simp only
    split
    · exact Or.inr ⟨t, rfl, rfl⟩
    · exact Or.inl rfl

/-- last key of the fields of an accepted string -/
theorem fieldsOf_last (e : Env) (t : Template) (m : Str) (h : accepts e t m = true) :
    (fieldsOf t m).getLast?.map (·.1) = (keysOf t).getLast? := by
  have hlen := SidL.acceptsSegs_length e _ _ h
  rw [← List.getLast?_map]
  unfold fieldsOf keysOf
  rw [List.map_fst_zip (by simp; omega)]

/-! ### `sortSids`, `mapE` -/

theorem mem_sortSids {xs : List Sid} {x : Sid} (h : x ∈ Ctx.sortSids xs) : x ∈ xs :=
  Lst.mem_of_mem_dedupBy Sid.eqv ((Lst.mem_sortBy _ _ _).1 h)

theorem sortSids_cover (xs : List Sid) (x : Sid) (hx : x ∈ xs) :
    ∃ y ∈ Ctx.sortSids xs, y.uri = x.uri := by
  obtain ⟨y, hy, hyx⟩ := Lst.dedupBy_cover Sid.eqv (fun a => by simp [Sid.eqv])
    (fun a b c hab hbc => by simp only [Sid.eqv, beq_iff_eq] at *; exact hab.trans hbc) xs x hx
  exact ⟨y, (Lst.mem_sortBy _ _ _).2 hy, by simpa [Sid.eqv] using hyx⟩

/-- an element whose uri is unique in the list survives `sorted(set(…))` -/
theorem mem_sortSids_of_unique (xs : List Sid) (x : Sid) (hx : x ∈ xs)
    (hu : ∀ y ∈ xs, y.uri = x.uri → y = x) : x ∈ Ctx.sortSids xs := by
  obtain ⟨y, hy, hyx⟩ := sortSids_cover xs x hx
  rw [← hu y (mem_sortSids hy) hyx]
  exact hy

theorem mapE_ok {α β} (f : α → Except Err β) (g : α → β) : ∀ (l : List α),
    (∀ x ∈ l, f x = .ok (g x)) → Ctx.mapE f l = .ok (l.map g)
  | [], _ => rfl
  | x :: xs, h => by
    simp [Ctx.mapE, h x (by simp), mapE_ok f g xs (fun y hy => h y (by simp [hy]))]

/-! ### `simple_typing` as a function -/

/-- `Sid(s)` for a string without uri prefix and query -/
def plainOf (c : Ctx) (s : Str) : Sid :=
  if s.isEmpty then Sid.empty else plainSid c.env c.cfg.sid.templates s

theorem sidOfString_plain (c : Ctx) (hwf : sidTableOk c.env c.cfg.sid.templates = true) (s : Str)
    (hq : '?' ∉ s) (hc : ':' ∉ s) : c.sidOfString s = .ok (plainOf c s) := by
  unfold plainOf
  by_cases hs : s = []
  · subst hs; rfl
  · rw [C01.c01_plain c hwf s hs hc hq]
    simp [hs]

theorem simpleTyping_eq (c : Ctx) (hwf : sidHierOk c.env c.cfg.sid.templates = true) (s : Str)
    (hq : '?' ∉ s) (hc : ':' ∉ s) :
    ∃ a, (a = s ∨ ∃ b, s = a ++ ['/', '*'] ++ b) ∧
      c.simpleTyping s = .ok (match c.basetype (plainOf c a) with
        | none => [plainOf c s]
        | some _ =>
          if ((lenM c s).map (fun p => forcedSid c.env c.cfg.sid.templates p.1 s)).isEmpty
          then [plainOf c s]
          else Ctx.sortSids ((lenM c s).map (fun p => forcedSid c.env c.cfg.sid.templates p.1 s))) := by
  obtain ⟨htab, _, _, _⟩ := HierL.hier_unpack _ _ hwf
  obtain ⟨a, ha, hs⟩ := splitStrGo_head ['/', '*'] (by simp) s []
  refine ⟨a, hs, ?_⟩
  have hqa : '?' ∉ a := by
    rcases hs with rfl | ⟨b, rfl⟩
    · exact hq
    · intro h; exact hq (by simp [h])
  have hca : ':' ∉ a := by
    rcases hs with rfl | ⟨b, rfl⟩
    · exact hc
    · intro h; exact hc (by simp [h])
  have hmap : Ctx.mapE (fun (p : Str × Dict) => c.typedSearch p.1 s []) (lenM c s) =
      .ok ((lenM c s).map (fun p => forcedSid c.env c.cfg.sid.templates p.1 s)) := by
    apply mapE_ok
    rintro ⟨l, d⟩ hp
    obtain ⟨_, t, ht, _⟩ := lenM_inv c htab s l d hp
    exact typedSearch_eq c hwf l t ht s hq
  unfold Ctx.simpleTyping
  simp only [Str.split1_none '?' s hq, Str.splitStr, ha, List.reverse_nil, List.nil_append,
    Option.getD_some, sidOfString_plain c htab a hqa hca, sidOfString_plain c htab s hq hc,
    sidToDicts_eq, hmap]
  cases c.basetype (plainOf c a) with
  | none => rfl
  | some bt =>
    simp only
    split <;> rfl

/-! ### typing of the root -/

theorem splitStrGo_head_some (sep : Str) : ∀ (s : Str) (k : Nat) (cur : Str),
    ∃ x, (Str.splitStrGo sep k cur s).head? = some x
  | [], _, cur => ⟨cur.reverse, by simp [Str.splitStrGo]⟩
  | _ :: cs, k + 1, cur => by simpa [Str.splitStrGo] using splitStrGo_head_some sep cs k cur
  | c :: cs, 0, cur => by
    simp only [Str.splitStrGo]
    split
    · exact ⟨cur.reverse, rfl⟩
    · exact splitStrGo_head_some sep cs 0 (c :: cur)

theorem basetype_some (c : Ctx) (x : Sid) (h : x.type ≠ []) : ∃ bt, c.basetype x = some bt := by
  unfold Ctx.basetype
  have : x.type.isEmpty = false := by simp [h]
  simp only [this, Bool.false_eq_true, if_false]
  exact splitStrGo_head_some _ _ _ _

theorem firstAccepting_of_mem (e : Env) (s : Str) : ∀ (ts : List (Str × Template)) (p : Str × Template),
    p ∈ ts → accepts e p.2 s = true → ∃ q, firstAccepting e ts s = some q
  | [], _, h, _ => by simp at h
  | (l, t) :: ts, p, h, hacc => by
    simp only [firstAccepting]
    split
    · exact ⟨_, rfl⟩
    · next hn =>
      simp only [List.mem_cons] at h
      rcases h with rfl | h
      · exact absurd hacc hn
      · exact firstAccepting_of_mem e s ts p h hacc

/-- a non-empty string accepted by some template gets a typed `Sid`, hence a basetype -/
theorem plainOf_basetype (c : Ctx) (hwf : sidTableOk c.env c.cfg.sid.templates = true) (s : Str)
    (hs : s ≠ []) (p : Str × Template) (hp : p ∈ c.cfg.sid.templates)
    (hacc : accepts c.env p.2 s = true) : ∃ bt, c.basetype (plainOf c s) = some bt := by
  obtain ⟨⟨l, t⟩, hq⟩ := firstAccepting_of_mem c.env s _ p hp hacc
  apply basetype_some
  have hmem := (SidL.firstAccepting_some _ _ _ _ _ hq).1
  have := HierL.tableOk_label_ne _ _ hwf (l, t) hmem
  simpa [plainOf, hs, plainSid, hq] using this

/-- prefix closure: the text before a '/' of an accepted string is accepted by some template -/
theorem accepts_root (c : Ctx) (hwf : sidHierOk c.env c.cfg.sid.templates = true) (a b : Str)
    (p : Str × Template) (hp : p ∈ c.cfg.sid.templates)
    (hacc : accepts c.env p.2 (a ++ '/' :: b) = true) :
    ∃ p' ∈ c.cfg.sid.templates, accepts c.env p'.2 a = true := by
  obtain ⟨_, _, hpre, _⟩ := HierL.hier_unpack _ _ hwf
  unfold accepts at hacc
  rw [splitOn_append] at hacc
  have hlen := SidL.acceptsSegs_length _ _ _ hacc
  have hA : 0 < (Str.splitOn '/' a).length := List.length_pos_iff.mpr (Str.splitOn_ne_nil _ _)
  have hB : 0 < (Str.splitOn '/' b).length := List.length_pos_iff.mpr (Str.splitOn_ne_nil _ _)
  rw [List.length_append] at hlen
  obtain ⟨p', hp', hphs⟩ := hpre p hp (Str.splitOn '/' a).length hA (by omega)
  refine ⟨p', hp', ?_⟩
  have := HierL.acceptsSegs_take c.env (Str.splitOn '/' a).length _ _ hacc
  rw [List.take_left' rfl] at this
  unfold accepts
  rw [hphs]
  exact this

/-- among forced Sids of one string, a typed one is determined by its uri -/
theorem forced_unique (c : Ctx) (hwf : sidTableOk c.env c.cfg.sid.templates = true)
    (p : Str × Template) (hp : p ∈ c.cfg.sid.templates) (u l' : Str)
    (h : (forcedSid c.env c.cfg.sid.templates l' u).uri = (typedAs p.1 p.2 u).uri) :
    forcedSid c.env c.cfg.sid.templates l' u = typedAs p.1 p.2 u := by
  have hne := HierL.tableOk_label_ne _ _ hwf p hp
  have hx : (typedAs p.1 p.2 u).uri = p.1 ++ ':' :: u := by simp [typedAs, Sid.uri, hne]
  rw [hx] at h
  rcases forcedSid_uri c.env c.cfg.sid.templates l' u with hy | ⟨t', hl', hy⟩
  · rw [hy] at h
    simp only [Sid.untyped, Sid.uri, List.isEmpty_nil, if_true] at h
    have := congrArg List.length h
    simp at this
    omega
  · rw [hy] at h ⊢
    have hmem := SidL.mem_of_lookup _ _ _ hl'
    have hne' := HierL.tableOk_label_ne _ _ hwf (l', t') hmem
    simp only [Sid.uri, List.isEmpty_iff, hne', if_false] at h
    have hl : l' = p.1 := List.append_cancel_right h
    subst hl
    have := (SidL.tableOk_unpack _ _ hwf p hp).2
    rw [hl'] at this
    cases this
    rfl

/-! ### `expand`: the inner loop -/

/-- the test `data and list(data)[-1] == leaf_key` -/
def cond (lk : Option Str) (d : Dict) : Bool := !d.isEmpty && (d.getLast?.map (·.1) == lk)

theorem expandMatching_eq (c : Ctx) (u : Str) (lk : Option Str) (F : Str → Sid) :
    ∀ (M : List (Str × Dict)) (st : Ctx.ExpandSt),
      (∀ p ∈ M, c.typedSearch p.1 u [] = .ok (F p.1)) →
      Ctx.expandMatching c u [] lk false M st =
        .ok ⟨st.tested, st.found ++ M.map (·.1),
          st.result ++ (M.filter (fun p => cond lk p.2)).map (fun p => F p.1)⟩
  | [], st, _ => by simp [Ctx.expandMatching]
  | (ty, d) :: M, st, h => by
    have h1 := h (ty, d) (by simp)
    have ih := fun st' => expandMatching_eq c u lk F M st' (fun p hp => h p (by simp [hp]))
    simp only [Ctx.expandMatching, Bool.false_or]
    by_cases hc : cond lk d = true
    · have hc' : (!d.isEmpty && (d.getLast?.map (·.1) == lk)) = true := hc
      simp only [hc', if_true, h1, ih, List.filter_cons, hc, List.map_cons, List.append_assoc,
        List.cons_append, List.nil_append]
    · have hc' : (!d.isEmpty && (d.getLast?.map (·.1) == lk)) = false := by
        simpa [cond] using hc
      simp only [hc', Bool.false_eq_true, if_false, ih, List.filter_cons, hc, List.map_cons,
        List.append_assoc, List.cons_append, List.nil_append]

/-! ### `expand`: the template loop -/

/-- the number of "/*" levels `expand` tries for template `t` -/
def needed (s : Str) (t : Template) : Nat := Ctx.tplKeysLen t - 1 + 1 - Str.countChar '/' s

/-- the test string of template `t` -/
def testOf (s : Str) (t : Template) : Str := fill s (needed s t)

/-- loop invariant of `expand` -/
structure Inv (c : Ctx) (s : Str) (lk : Option Str) (st : Ctx.ExpandSt) : Prop where
  tested_fill : ∀ u ∈ st.tested, ∃ k, u = fill s k
  found_matched : ∀ l ∈ st.found, ∃ u ∈ st.tested, ∃ d, (l, d) ∈ lenM c u
  result_sound : ∀ x ∈ st.result, ∃ u ∈ st.tested, ∃ l d, (l, d) ∈ lenM c u ∧ cond lk d = true ∧
    x = forcedSid c.env c.cfg.sid.templates l u
  result_complete : ∀ u ∈ st.tested, ∀ l d, (l, d) ∈ lenM c u → cond lk d = true →
    forcedSid c.env c.cfg.sid.templates l u ∈ st.result

theorem inv_init (c : Ctx) (s : Str) (lk : Option Str) : Inv c s lk ⟨[], [], []⟩ :=
  ⟨by simp, by simp, by simp, by simp⟩

theorem expandGo_spec (c : Ctx) (hwf : sidHierOk c.env c.cfg.sid.templates = true) (s : Str)
    (hq : ∀ k, '?' ∉ fill s k) (lk : Option Str)
    (hcount : ∀ p ∈ c.cfg.sid.templates, ∀ k d, (p.1, d) ∈ lenM c (fill s k) →
      fill s k = testOf s p.2) :
    ∀ (rest : List (Str × Template)) (st : Ctx.ExpandSt),
      (∀ p ∈ rest, p ∈ c.cfg.sid.templates) → Inv c s lk st →
      ∃ st', Ctx.expandGo c s [] lk false rest st = .ok st' ∧ Inv c s lk st' ∧
        (∀ u ∈ st.tested, u ∈ st'.tested) ∧
        ∀ p ∈ rest, (Ctx.tplLastKey p.2 == lk) = true → testOf s p.2 ∈ st'.tested
  | [], st, _, hinv => ⟨st, rfl, hinv, fun _ h => h, by simp⟩
  | (key, t) :: rest, st, hsub, hinv => by
    obtain ⟨htab, _, _, _⟩ := HierL.hier_unpack _ _ hwf
    have hsub' : ∀ p ∈ rest, p ∈ c.cfg.sid.templates := fun p hp => hsub p (by simp [hp])
    have hkt : (key, t) ∈ c.cfg.sid.templates := hsub _ (by simp)
    have htest : Str.replace s ['/', '*', '*']
        (List.replicate (Ctx.tplKeysLen t - 1 + 1 - Str.countChar '/' s) ['/', '*']).flatten =
        testOf s t := rfl
    simp only [Ctx.expandGo, Bool.false_or, htest]
    -- the three ways of skipping the template keep the state
    have skip : (∀ st0, st0 = st → (Ctx.tplLastKey t == lk) = true → testOf s t ∈ st0.tested) →
        ∃ st', Ctx.expandGo c s [] lk false rest st = .ok st' ∧ Inv c s lk st' ∧
          (∀ u ∈ st.tested, u ∈ st'.tested) ∧
          ∀ p ∈ (key, t) :: rest, (Ctx.tplLastKey p.2 == lk) = true → testOf s p.2 ∈ st'.tested := by
      intro hk
      obtain ⟨st', h1, h2, h3, h4⟩ := expandGo_spec c hwf s hq lk hcount rest st hsub' hinv
      refine ⟨st', h1, h2, h3, ?_⟩
      intro p hp hleaf
      simp only [List.mem_cons] at hp
      rcases hp with rfl | hp
      · exact h3 _ (hk st rfl hleaf)
      · exact h4 p hp hleaf
    by_cases hf : st.found.contains key = true
    · simp only [hf, if_true]
      apply skip
      rintro _ rfl _
      obtain ⟨u, hu, d, hd⟩ := hinv.found_matched key (by simpa using hf)
      obtain ⟨k, rfl⟩ := hinv.tested_fill u hu
      rw [← hcount (key, t) hkt k d hd]
      exact hu
    · simp only [hf, Bool.false_eq_true, if_false]
      by_cases hleaf : (Ctx.tplLastKey t == lk) = true
      · simp only [hleaf, if_true]
        by_cases ht : st.tested.contains (testOf s t) = true
        · simp only [ht, if_true]
          apply skip
          rintro _ rfl _
          simpa using ht
        · simp only [ht, Bool.false_eq_true, if_false, sidToDicts_eq]
          have hF : ∀ p ∈ lenM c (testOf s t), c.typedSearch p.1 (testOf s t) [] =
              .ok ((fun l => forcedSid c.env c.cfg.sid.templates l (testOf s t)) p.1) := by
            rintro ⟨l, d⟩ hp
            obtain ⟨_, t', ht', _⟩ := lenM_inv c htab _ l d hp
            exact typedSearch_eq c hwf l t' ht' _ (hq _)
          rw [expandMatching_eq c (testOf s t) lk (fun l => forcedSid c.env c.cfg.sid.templates l (testOf s t))
            (lenM c (testOf s t)) _ hF]
          simp only
          have hinv1 : Inv c s lk ⟨st.tested ++ [testOf s t],
              st.found ++ (lenM c (testOf s t)).map (·.1),
              st.result ++ ((lenM c (testOf s t)).filter (fun p => cond lk p.2)).map
                (fun p => forcedSid c.env c.cfg.sid.templates p.1 (testOf s t))⟩ := by
            constructor
            · intro u hu
              simp only [List.mem_append, List.mem_singleton] at hu
              rcases hu with hu | rfl
              · exact hinv.tested_fill u hu
              · exact ⟨_, rfl⟩
            · intro l hl
              simp only [List.mem_append, List.mem_map] at hl
              rcases hl with hl | ⟨⟨l', d⟩, hp, rfl⟩
              · obtain ⟨u, hu, d, hd⟩ := hinv.found_matched l hl
                exact ⟨u, by simp [hu], d, hd⟩
              · exact ⟨testOf s t, by simp, d, hp⟩
            · intro x hx
              simp only [List.mem_append, List.mem_map, List.mem_filter] at hx
              rcases hx with hx | ⟨⟨l, d⟩, ⟨hp, hc⟩, rfl⟩
              · obtain ⟨u, hu, l, d, h1, h2, h3⟩ := hinv.result_sound x hx
                exact ⟨u, by simp [hu], l, d, h1, h2, h3⟩
              · exact ⟨testOf s t, by simp, l, d, hp, hc, rfl⟩
            · intro u hu l d hp hc
              simp only [List.mem_append, List.mem_singleton] at hu
              rcases hu with hu | rfl
              · exact List.mem_append_left _ (hinv.result_complete u hu l d hp hc)
              · apply List.mem_append_right
                rw [List.mem_map]
                exact ⟨(l, d), List.mem_filter.mpr ⟨hp, hc⟩, rfl⟩
          obtain ⟨st', h1, h2, h3, h4⟩ := expandGo_spec c hwf s hq lk hcount rest _ hsub' hinv1
          refine ⟨st', h1, h2, fun u hu => h3 u (by simp [hu]), ?_⟩
          intro p hp hl
          simp only [List.mem_cons] at hp
          rcases hp with rfl | hp
          · exact h3 _ (by simp)
          · exact h4 p hp hl
      · simp only [hleaf, Bool.false_eq_true, if_false]
        apply skip
        intro _ _ hl
        exact absurd hl hleaf

/-! ### `expand`: the search string -/

/-- a search string with exactly one "/**" -/
theorem fill_decomp (s : Str) (h1 : Str.count s ['/', '*', '*'] = 1) :
    ∃ a b, s = a ++ ['/', '*', '*'] ++ b ∧ (∀ k, fill s k = a ++ stars k ++ b) ∧ rootOf s = a := by
  have h1' : Str.countGo ['/', '*', '*'] 0 s = 1 := by simpa [Str.count] using h1
  obtain ⟨a, b, hs, hr, hsp⟩ := count_one_decomp ['/', '*', '*'] (by simp) s h1'
  refine ⟨a, b, hs, ?_, ?_⟩
  · intro k
    simp [fill, Str.replace, hr]
  · simp [rootOf, Str.splitStr, hsp]

theorem fill_no_query (a b : Str) (k : Nat) (x : Char) (hx1 : x ≠ '/') (hx2 : x ≠ '*')
    (h : x ∉ a ++ ['/', '*', '*'] ++ b) : x ∉ a ++ stars k ++ b := by
  simp only [List.mem_append, not_or] at h ⊢
  refine ⟨⟨h.1.1, ?_⟩, h.2⟩
  intro hm
  rcases mem_stars k x hm with e | e
  · exact hx1 e
  · exact hx2 e

/-- segment counting: a template matching (leniently) the string filled with `k` levels is tried
    by `expand` with exactly this string -/
theorem fill_count (c : Ctx) (hwf : sidTableOk c.env c.cfg.sid.templates = true) (s a b : Str)
    (hs : s = a ++ ['/', '*', '*'] ++ b) (hfill : ∀ k, fill s k = a ++ stars k ++ b)
    (p : Str × Template) (hp : p ∈ c.cfg.sid.templates) (k : Nat) (d : Dict)
    (hd : (p.1, d) ∈ lenM c (fill s k)) : fill s k = testOf s p.2 := by
  obtain ⟨_, t', ht', m, hm, hacc, _⟩ := lenM_inv c hwf _ _ _ hd
  have := tpl_unique c hwf p.1 t' p.2 ht' hp
  subst this
  obtain ⟨hlen, _, hpos⟩ := tplKeysLen_ok c.env p.2 (SidL.tableOk_unpack _ _ hwf p hp).1
  have hsegs := SidL.acceptsSegs_length _ _ _ hacc
  rw [splitOn_length] at hsegs
  have hcm : Str.countChar '/' (fill s k) = Str.countChar '/' m := by
    rcases hm with e | e
    · rw [e]
    · rw [e, countChar_append]; simp [Str.countChar]
  rw [hfill k, countChar_append, countChar_append, countChar_stars] at hcm
  have hcs : Str.countChar '/' s = Str.countChar '/' a + 1 + Str.countChar '/' b := by
    rw [hs, countChar_append, countChar_append]
    simp [Str.countChar]
  unfold testOf needed
  congr 1
  rw [hlen, hcs]
  omega

/-! ### `expand` unfolded for a query-free string with one "/**" -/

theorem expand_unfold (c : Ctx) (hwf : sidTableOk c.env c.cfg.sid.templates = true) (s : Str)
    (hq : '?' ∉ s) (hc : ':' ∉ s) (h1 : Str.count s ['/', '*', '*'] = 1) :
    c.expand s false =
      match c.basetype (plainOf c (rootOf s)) with
      | none => .error .spil
      | some bt =>
        if ((c.cfg.sid.leafKey (some bt)).isNone || c.cfg.sid.leafKey (some bt) == some []) = true
        then .error .spil else
        match Ctx.expandGo c s [] (c.cfg.sid.leafKey (some bt)) false c.cfg.sid.templates ⟨[], [], []⟩ with
        | .error x => .error x
        | .ok st => .ok (Ctx.sortSids st.result) := by
  obtain ⟨a, b, hs, _, hroot⟩ := fill_decomp s h1
  have hqa : '?' ∉ rootOf s := by
    rw [hroot]; intro h; exact hq (by simp [hs, h])
  have hca : ':' ∉ rootOf s := by
    rw [hroot]; intro h; exact hc (by simp [hs, h])
  have hr := sidOfString_plain c hwf (rootOf s) hqa hca
  unfold rootOf at hr
  unfold Ctx.expand
  simp only [h1, Str.split1_none '?' s hq, hr]
  cases hb : c.basetype (plainOf c (rootOf s)) with
  | none => unfold rootOf at hb; simp [hb]
  | some bt =>
    unfold rootOf at hb
    by_cases hl : c.cfg.sid.leafKey (some bt) = none ∨ c.cfg.sid.leafKey (some bt) = some []
    · simp [hb, hl]
    · simp only [hb]
      simp
      generalize Ctx.expandGo c s [] (c.cfg.sid.leafKey (some bt)) false c.cfg.sid.templates
        ⟨[], [], []⟩ = g
      cases g <;> simp [hl]

/-- `expand` on a query-free string with one "/**": SpilException, or the loop ran to its end
    with the invariant -/
theorem expand_spec (c : Ctx) (hwf : sidHierOk c.env c.cfg.sid.templates = true) (s : Str)
    (hq : '?' ∉ s) (hc : ':' ∉ s) (h1 : Str.count s ['/', '*', '*'] = 1) :
    c.sidOfString (rootOf s) = .ok (plainOf c (rootOf s)) ∧
    (c.expand s false = .error .spil ∨
     ∃ bt lk st, c.basetype (plainOf c (rootOf s)) = some bt ∧
      c.cfg.sid.leafKey (some bt) = some lk ∧
      c.expand s false = .ok (Ctx.sortSids st.result) ∧ Inv c s (some lk) st ∧
      (∀ p ∈ c.cfg.sid.templates, (Ctx.tplLastKey p.2 == some lk) = true → testOf s p.2 ∈ st.tested) ∧
      (∀ p ∈ c.cfg.sid.templates, ∀ k d, (p.1, d) ∈ lenM c (fill s k) → fill s k = testOf s p.2) ∧
      ∀ k, fill s k ≠ []) := by
  obtain ⟨htab, _, _, _⟩ := HierL.hier_unpack _ _ hwf
  obtain ⟨a, b, hs, hfill, hroot⟩ := fill_decomp s h1
  have hqa : '?' ∉ rootOf s := by
    rw [hroot]; intro h; exact hq (by simp [hs, h])
  have hca : ':' ∉ rootOf s := by
    rw [hroot]; intro h; exact hc (by simp [hs, h])
  refine ⟨sidOfString_plain c htab _ hqa hca, ?_⟩
  rw [expand_unfold c htab s hq hc h1]
  cases hb : c.basetype (plainOf c (rootOf s)) with
  | none => exact Or.inl rfl
  | some bt =>
    simp only
    split
    · exact Or.inl rfl
    · next hl =>
      right
      cases hlk : c.cfg.sid.leafKey (some bt) with
      | none => simp [hlk] at hl
      | some lk =>
        have hqf : ∀ k, '?' ∉ fill s k := by
          intro k
          rw [hfill k]
          exact fill_no_query a b k '?' (by decide) (by decide) (hs ▸ hq)
        have hcount := fun p hp k d => fill_count c htab s a b hs hfill p hp k d
        obtain ⟨st, hgo, hinv, _, hall⟩ := expandGo_spec c hwf s hqf (some lk) hcount
          c.cfg.sid.templates ⟨[], [], []⟩ (fun _ h => h) (inv_init c s (some lk))
        refine ⟨bt, lk, st, rfl, hlk, by rw [hgo], hinv, hall, hcount, ?_⟩
        intro k hk
        rw [hfill k] at hk
        have ha : a = [] := by
          simp only [List.append_eq_nil_iff] at hk
          exact hk.1.1
        rw [hroot, ha] at hb
        simp [plainOf, Ctx.basetype, Sid.empty] at hb

end ExpL
