/-
  Spil.Lemmas.Lst — generic facts about `Lst.insertBy`, `Lst.sortBy`, `Lst.dedupBy` and about
  boolean strict total orders (`Lst.STO`), lexicographic liftings of them (`Lst.lexLt`).
-/
import Spil.Model.Unfold

namespace Lst

/-- a boolean strict total order -/
structure STO {α} (lt : α → α → Bool) : Prop where
  irrefl : ∀ a, lt a a = false
  trans : ∀ a b c, lt a b = true → lt b c = true → lt a c = true
  tri : ∀ a b, lt a b = false → lt b a = false → a = b

theorem STO.asymm {α} {lt : α → α → Bool} (h : STO lt) {a b : α} (hab : lt a b = true) :
    lt b a = false := by
  cases hba : lt b a with
  | false => rfl
  | true =>
    have := h.trans a b a hab hba
    rw [h.irrefl] at this
    exact absurd this (by simp)

/-- pulling a strict total order back along an injective map, reversing it -/
theorem STO.comapRev {α β} {lt : β → β → Bool} (h : STO lt) (f : α → β)
    (hf : ∀ a b, f a = f b → a = b) : STO (fun a b => lt (f b) (f a)) where
  irrefl a := h.irrefl (f a)
  trans _ _ _ hab hbc := h.trans _ _ _ hbc hab
  tri a b hab hba := hf a b (h.tri _ _ hba hab)

/-! ### generic lexicographic order -/

/-- lexicographic lifting of a boolean strict order (shape shared by `Str.lt` and `Str.ltList`) -/
def lexLt {α} (lt : α → α → Bool) : List α → List α → Bool
  | [], [] => false
  | [], _ :: _ => true
  | _ :: _, [] => false
  | a :: as, b :: bs => if lt a b then true else if lt b a then false else lexLt lt as bs

theorem lexLt_irrefl {α} {lt : α → α → Bool} (h : STO lt) : ∀ l : List α, lexLt lt l l = false
  | [] => rfl
  | a :: as => by simp [lexLt, h.irrefl, lexLt_irrefl h as]

theorem lexLt_trans {α} {lt : α → α → Bool} (h : STO lt) :
    ∀ a b c : List α, lexLt lt a b = true → lexLt lt b c = true → lexLt lt a c = true
  | [], [], _, hab, _ => by simp [lexLt] at hab
  | [], _ :: _, [], _, hbc => by simp [lexLt] at hbc
  | [], _ :: _, _ :: _, _, _ => by simp [lexLt]
  | _ :: _, [], _, hab, _ => by simp [lexLt] at hab
  | _ :: _, _ :: _, [], _, hbc => by simp [lexLt] at hbc
  | x :: as, y :: bs, z :: cs, hab, hbc => by
    have ih := lexLt_trans h as bs cs
    simp only [lexLt] at hab hbc ⊢
    cases hxy : lt x y with
    | true =>
      cases hyz : lt y z with
      | true => simp [h.trans x y z hxy hyz]
      | false =>
        rw [hyz] at hbc
        cases hzy : lt z y with
        | true => simp [hzy] at hbc
        | false =>
          have := h.tri y z hyz hzy
          subst this
          simp [hxy]
    | false =>
      rw [hxy] at hab
      cases hyx : lt y x with
      | true => simp [hyx] at hab
      | false =>
        have := h.tri x y hxy hyx
        subst this
        simp [hyx] at hab
        cases hyz : lt x z with
        | true => simp
        | false =>
          rw [hyz] at hbc
          cases hzy : lt z x with
          | true => simp [hzy] at hbc
          | false =>
            simp [hzy] at hbc
            simp [ih hab hbc]

theorem lexLt_tri {α} {lt : α → α → Bool} (h : STO lt) :
    ∀ a b : List α, lexLt lt a b = false → lexLt lt b a = false → a = b
  | [], [], _, _ => rfl
  | [], _ :: _, hab, _ => by simp [lexLt] at hab
  | _ :: _, [], _, hba => by simp [lexLt] at hba
  | x :: as, y :: bs, hab, hba => by
    simp only [lexLt] at hab hba
    cases hxy : lt x y with
    | true => simp [hxy] at hab
    | false =>
      cases hyx : lt y x with
      | true => simp [hyx] at hba
      | false =>
        simp [hxy, hyx] at hab hba
        rw [h.tri x y hxy hyx, lexLt_tri h as bs hab hba]

theorem lexLt_sto {α} {lt : α → α → Bool} (h : STO lt) : STO (lexLt lt) where
  irrefl := lexLt_irrefl h
  trans := lexLt_trans h
  tri := lexLt_tri h

/-- lexicographic order makes equal-prefix classes contiguous:
    if `a ≥ b ≥ c` and `a`, `c` share their first `i` items, so does `b` -/
theorem lexLt_take_between {α} {lt : α → α → Bool} (h : STO lt) :
    ∀ (i : Nat) (a b c : List α), lexLt lt a b = false → lexLt lt b c = false →
      a.take i = c.take i → b.take i = a.take i
  | 0, _, _, _, _, _, _ => by simp
  | i + 1, [], b, _, hab, _, _ => by
    cases b with
    | nil => rfl
    | cons => simp [lexLt] at hab
  | i + 1, x :: as, _, [], _, _, hac => by simp at hac
  | i + 1, x :: as, [], z :: cs, _, hbc, _ => by simp [lexLt] at hbc
  | i + 1, x :: as, y :: bs, z :: cs, hab, hbc, hac => by
    simp only [List.take_succ_cons, List.cons.injEq] at hac
    obtain ⟨rfl, hac⟩ := hac
    simp only [lexLt] at hab hbc
    cases hxy : lt x y with
    | true => simp [hxy] at hab
    | false =>
      cases hyx : lt y x with
      | true => simp [hyx] at hbc
      | false =>
        simp [hxy, hyx] at hab hbc
        have := h.tri x y hxy hyx
        subst this
        simp [lexLt_take_between h i as bs cs hab hbc hac]

/-! ### `insertBy` / `sortBy` -/

theorem mem_insertBy {α} (lt : α → α → Bool) (x z : α) (l : List α) :
    z ∈ insertBy lt x l ↔ z = x ∨ z ∈ l := by
  induction l with
  | nil => simp [insertBy]
  | cons y ys ih =>
    simp only [insertBy]; split
    · simp
    · simp only [List.mem_cons, ih]; grind

theorem mem_sortBy {α} (lt : α → α → Bool) (z : α) (l : List α) : z ∈ sortBy lt l ↔ z ∈ l := by
  induction l with
  | nil => simp [sortBy]
  | cons x xs ih => simp [sortBy, mem_insertBy, ih]

theorem insertBy_perm {α} (lt : α → α → Bool) (x : α) (l : List α) :
    (insertBy lt x l).Perm (x :: l) := by
  induction l with
  | nil => simp [insertBy]
  | cons y ys ih =>
    simp only [insertBy]; split
    · exact List.Perm.refl _
    · exact (List.Perm.cons y ih).trans (List.Perm.swap x y ys)

theorem sortBy_perm {α} (lt : α → α → Bool) (l : List α) : (sortBy lt l).Perm l := by
  induction l with
  | nil => simp [sortBy]
  | cons x xs ih => exact (insertBy_perm lt x _).trans (List.Perm.cons x ih)

theorem insertBy_pairwise {α} {lt : α → α → Bool} (h : STO lt) (x : α) (l : List α)
    (hl : l.Pairwise (fun a b => lt a b = true)) (hx : x ∉ l) :
    (insertBy lt x l).Pairwise (fun a b => lt a b = true) := by
  induction l with
  | nil => simp [insertBy]
  | cons y ys ih =>
    rw [List.pairwise_cons] at hl
    simp only [List.mem_cons, not_or] at hx
    simp only [insertBy]; split
    · next hxy =>
      refine List.pairwise_cons.2 ⟨?_, List.pairwise_cons.2 hl⟩
      intro z hz
      rcases List.mem_cons.1 hz with rfl | hz
      · exact hxy
      · exact h.trans _ _ _ hxy (hl.1 z hz)
    · next hxy =>
      refine List.pairwise_cons.2 ⟨?_, ih hl.2 hx.2⟩
      intro z hz
      rcases (mem_insertBy lt x z ys).1 hz with rfl | hz
      · cases hyx : lt y z with
        | true => rfl
        | false => exact absurd (h.tri _ _ (by simpa using hxy) hyx) hx.1
      · exact hl.1 z hz

/-- sorting a duplicate-free list by a strict total order gives a strictly sorted list -/
theorem sortBy_pairwise {α} {lt : α → α → Bool} (h : STO lt) (l : List α) (hl : l.Nodup) :
    (sortBy lt l).Pairwise (fun a b => lt a b = true) := by
  induction l with
  | nil => simp [sortBy]
  | cons x xs ih =>
    rw [List.nodup_cons] at hl
    exact insertBy_pairwise h x _ (ih hl.2) (by simpa [mem_sortBy] using hl.1)

/-- a strictly sorted list is determined by its members -/
theorem pairwise_ext {α} {lt : α → α → Bool} (h : STO lt) :
    ∀ (l₁ l₂ : List α), l₁.Pairwise (fun a b => lt a b = true) →
      l₂.Pairwise (fun a b => lt a b = true) → (∀ x, x ∈ l₁ ↔ x ∈ l₂) → l₁ = l₂
  | [], [], _, _, _ => rfl
  | [], b :: _, _, _, hm => by have := (hm b).2 (by simp); simp at this
  | a :: _, [], _, _, hm => by have := (hm a).1 (by simp); simp at this
  | a :: t₁, b :: t₂, h₁, h₂, hm => by
    rw [List.pairwise_cons] at h₁ h₂
    have hab : a = b := by
      rcases List.mem_cons.1 ((hm a).1 (by simp)) with e | ha
      · exact e
      · rcases List.mem_cons.1 ((hm b).2 (by simp)) with e | hb
        · exact e.symm
        · have := h.asymm (h₁.1 b hb)
          rw [h₂.1 a ha] at this
          exact absurd this (by simp)
    subst hab
    congr 1
    apply pairwise_ext h t₁ t₂ h₁.2 h₂.2
    intro x
    constructor
    · intro hx
      rcases List.mem_cons.1 ((hm x).1 (List.mem_cons_of_mem _ hx)) with e | hx'
      · subst e
        have := h₁.1 x hx
        rw [h.irrefl] at this
        exact absurd this (by simp)
      · exact hx'
    · intro hx
      rcases List.mem_cons.1 ((hm x).2 (List.mem_cons_of_mem _ hx)) with e | hx'
      · subst e
        have := h₂.1 x hx
        rw [h.irrefl] at this
        exact absurd this (by simp)
      · exact hx'

theorem pairwise_nodup {α} {lt : α → α → Bool} (h : STO lt) (l : List α)
    (hl : l.Pairwise (fun a b => lt a b = true)) : l.Nodup := by
  refine List.Pairwise.imp ?_ hl
  intro a b hab e
  subst e
  rw [h.irrefl] at hab
  exact absurd hab (by simp)

/-! ### `dedupBy (· == ·)` -/

theorem mem_dedupBy {α} [BEq α] [LawfulBEq α] (z : α) (l : List α) :
    z ∈ dedupBy (· == ·) l ↔ z ∈ l := by
  induction l with
  | nil => simp [dedupBy]
  | cons x xs ih =>
    simp only [dedupBy, List.mem_cons, List.mem_filter, ih]
    by_cases hzx : z = x
    · simp [hzx]
    · have : (x == z) = false := by simpa using fun e => hzx e.symm
      simp [hzx, this]

theorem dedupBy_nodup {α} [BEq α] [LawfulBEq α] (l : List α) : (dedupBy (· == ·) l).Nodup := by
  induction l with
  | nil => simp [dedupBy]
  | cons x xs ih =>
    simp only [dedupBy, List.nodup_cons]
    refine ⟨?_, List.Pairwise.sublist List.filter_sublist ih⟩
    simp [List.mem_filter]

/-- `dedupBy` distributes over `++`: later duplicates of items of `a` are dropped from `b` -/
theorem dedupBy_append {α} [BEq α] [LawfulBEq α] (a b : List α) :
    dedupBy (· == ·) (a ++ b) =
      dedupBy (· == ·) a ++ (dedupBy (· == ·) b).filter (fun x => !a.contains x) := by
  induction a with
  | nil =>
    simp only [List.nil_append, dedupBy, List.contains_nil, Bool.not_false]
    exact (List.filter_eq_self.2 (fun _ _ => rfl)).symm
  | cons x xs ih =>
    simp only [List.cons_append, dedupBy, ih, List.filter_append, List.filter_filter,
      List.cons.injEq, true_and]
    congr 1
    apply List.filter_congr
    intro y _
    simp only [List.contains_cons, Bool.not_or]
    rw [Bool.beq_comm (a := y)]

/-- a duplicate-free list is a fixed point of `dedupBy` -/
theorem dedupBy_of_nodup {α} [BEq α] [LawfulBEq α] (l : List α) (hl : l.Nodup) :
    dedupBy (· == ·) l = l := by
  induction l with
  | nil => rfl
  | cons x xs ih =>
    rw [List.nodup_cons] at hl
    simp only [dedupBy, ih hl.2, List.cons.injEq, true_and]
    apply List.filter_eq_self.2
    intro y hy
    have : x ≠ y := fun e => hl.1 (e ▸ hy)
    simpa using this

end Lst
