/-
  Spil.Lemmas.DenoteStars — helper lemmas for the "/**" rule of C10b: filling the "/**" of an
  expression commutes with choosing the alternatives, when "**" is a whole segment that is not the
  last one.
-/
import Spil.Spec.Denote
import Spil.Lemmas.DenoteAlg

namespace DenL

open Spec Ctx ExpL

/-! ### `replace` / `count` of "/**" at a known place -/

theorem countGo_prefix (sub w : Str) (hne : sub ≠ []) :
    Str.countGo sub 0 (sub ++ w) = 1 + Str.countGo sub 0 w := by
  cases sub with
  | nil => exact absurd rfl hne
  | cons f fs =>
    have hp : (f :: fs).isPrefixOf (f :: (fs ++ w)) = true := by
      rw [List.isPrefixOf_iff_prefix]; exact ⟨w, rfl⟩
    simp only [List.cons_append, Str.countGo, hp, if_true, List.length_cons, Nat.add_sub_cancel]
    rw [countGo_skip]

theorem countGo_infix_pos (sub : Str) (hne : sub ≠ []) (w : Str) : ∀ v : Str,
    1 ≤ Str.countGo sub 0 (v ++ sub ++ w)
  | [] => by simp only [List.nil_append]; rw [countGo_prefix sub w hne]; omega
  | c :: v => by
    simp only [List.cons_append, Str.countGo]
    split
    · omega
    · have := countGo_infix_pos sub hne w v
      simpa using this

/-- a string with exactly one "/**", at a known place: `replace` substitutes there -/
theorem replace_stars_at (rep w : Str) : ∀ u : Str,
    Str.countGo ['/', '*', '*'] 0 (u ++ ['/', '*', '*'] ++ w) = 1 →
    Str.replaceGo ['/', '*', '*'] rep 0 (u ++ ['/', '*', '*'] ++ w) = u ++ rep ++ w
  | [], h => by
    simp only [List.nil_append] at h ⊢
    rw [countGo_prefix _ w (by simp)] at h
    rw [Str.replaceGo_prefix _ _ _ (by simp), replaceGo_of_count_zero _ _ _ (by omega)]
  | c :: u, h => by
    simp only [List.cons_append, Str.countGo] at h
    simp only [List.cons_append, Str.replaceGo]
    by_cases hp : (['/', '*', '*'] : Str).isPrefixOf (c :: (u ++ ['/', '*', '*'] ++ w)) = true
    · exfalso
      simp only [hp, if_true, List.length_cons, List.length_nil] at h
      have h0 : Str.countGo ['/', '*', '*'] 2 (u ++ ['/', '*', '*'] ++ w) = 0 := by
        have e : (0 + 1 + 1 + 1 - 1 : Nat) = 2 := rfl
        rw [e] at h
        omega
      rw [List.isPrefixOf_iff_prefix] at hp
      obtain ⟨t, ht⟩ := hp
      simp only [List.cons_append, List.cons.injEq, List.nil_append] at ht
      obtain ⟨_, ht⟩ := ht
      -- the rest starts with "**"
      match u, ht, h0 with
      | [], ht, _ => simp at ht
      | [d], ht, _ => simp at ht
      | d1 :: d2 :: u'', ht, h0 =>
        simp only [List.cons_append, Str.countGo] at h0
        have := countGo_infix_pos ['/', '*', '*'] (by simp) w u''
        simp only [List.append_assoc, List.cons_append, List.nil_append] at this h0
        omega
    · simp only [hp, Bool.false_eq_true, if_false] at h ⊢
      have ih := replace_stars_at rep w u (by simpa using h)
      simp only [List.append_assoc, List.cons_append, List.nil_append] at ih ⊢
      rw [ih]

theorem fill_at (u w : Str) (k : Nat) (h : Str.count (u ++ slashStars ++ w) slashStars = 1) :
    fill (u ++ slashStars ++ w) k = u ++ stars k ++ w := by
  have h' : Str.countGo ['/', '*', '*'] 0 (u ++ ['/', '*', '*'] ++ w) = 1 := by
    simpa [Str.count, slashStars] using h
  simp only [fill, Str.replace, slashStars, List.isEmpty_cons, Bool.false_eq_true, if_false]
  exact replace_stars_at (stars k) w u h'

/-! ### joins and splits around the "**" segment -/

theorem joinWith_append (sep : Char) : ∀ (A B : List Str), A ≠ [] → B ≠ [] →
    Str.joinWith sep (A ++ B) = Str.joinWith sep A ++ sep :: Str.joinWith sep B
  | [], _, h, _ => absurd rfl h
  | [p], q :: B, _, _ => by simp [Str.joinWith]
  | p :: p' :: A, B, _, hB => by
    have ih := joinWith_append sep (p' :: A) B (by simp) hB
    simp only [List.cons_append] at ih ⊢
    simp only [Str.joinWith, ih, List.append_assoc, List.cons_append]
  | [p], [], _, h => absurd rfl h

/-- the '/'-join with `k` "*" segments in the middle -/
theorem join_stars (k : Nat) : ∀ (P Q : List Str), P ≠ [] → Q ≠ [] →
    Str.joinWith '/' (P ++ List.replicate k ['*'] ++ Q) =
      Str.joinWith '/' P ++ stars k ++ '/' :: Str.joinWith '/' Q := by
  induction k with
  | zero =>
    intro P Q hP hQ
    simp only [List.replicate_zero, List.append_nil, stars, List.flatten_nil]
    exact joinWith_append '/' P Q hP hQ
  | succ k ih =>
    intro P Q hP hQ
    have e : P ++ List.replicate (k + 1) ['*'] ++ Q = (P ++ [['*']]) ++ List.replicate k ['*'] ++ Q := by
      simp [List.replicate_succ]
    rw [e, ih (P ++ [['*']]) Q (by simp) hQ, HierL.joinWith_concat '/' P ['*'] hP, stars_succ]
    simp

theorem join_starstar (P Q : List Str) (hP : P ≠ []) (hQ : Q ≠ []) :
    Str.joinWith '/' (P ++ [['*', '*']] ++ Q) =
      Str.joinWith '/' P ++ slashStars ++ '/' :: Str.joinWith '/' Q := by
  rw [joinWith_append '/' (P ++ [['*', '*']]) Q (by simp) hQ, HierL.joinWith_concat '/' P _ hP]
  simp [slashStars]

theorem split_starstar (x b : Str) :
    Str.splitOn '/' (x ++ slashStars ++ '/' :: b) =
      Str.splitOn '/' x ++ [['*', '*']] ++ Str.splitOn '/' b := by
  have e : x ++ slashStars ++ '/' :: b = x ++ '/' :: (['*', '*'] ++ '/' :: b) := by simp [slashStars]
  rw [e, splitOn_append, splitOn_append]
  have : Str.splitOn '/' ['*', '*'] = [['*', '*']] := by decide
  rw [this, List.append_assoc]

theorem split_stars (b : Str) (k : Nat) : ∀ x : Str,
    Str.splitOn '/' (x ++ stars k ++ '/' :: b) =
      Str.splitOn '/' x ++ List.replicate k ['*'] ++ Str.splitOn '/' b := by
  induction k with
  | zero => intro x; simp [stars, splitOn_append]
  | succ k ih =>
    intro x
    have e : x ++ stars (k + 1) ++ '/' :: b = x ++ '/' :: (['*'] ++ stars k ++ '/' :: b) := by
      rw [stars_succ]; simp
    rw [e, splitOn_append, ih ['*']]
    have : Str.splitOn '/' ['*'] = [['*']] := by decide
    rw [this]
    simp [List.replicate_succ]

/-! ### choices over a concatenation -/

theorem choice_append : ∀ (A B picks : List Str),
    Choice (A ++ B) picks ↔ ∃ pA pB, picks = pA ++ pB ∧ Choice A pA ∧ Choice B pB
  | [], B, picks => by
    constructor
    · intro h; exact ⟨[], picks, rfl, Choice.nil, h⟩
    · rintro ⟨pA, pB, rfl, hA, hB⟩
      cases hA; exact hB
  | p :: A, B, picks => by
    constructor
    · intro h
      cases h with
      | cons ha hc =>
        obtain ⟨pA, pB, rfl, hA, hB⟩ := (choice_append A B _).1 hc
        exact ⟨_ :: pA, pB, rfl, Choice.cons ha hA, hB⟩
    · rintro ⟨pA, pB, rfl, hA, hB⟩
      cases hA with
      | cons ha hA' => exact Choice.cons ha ((choice_append A B _).2 ⟨_, pB, rfl, hA', hB⟩)

/-- the plain strings of an expression whose segments are `X`, then plain segments `M`, then `B` -/
theorem picks_mid (c : Ctx) (s : Str) (X M B : List Str) (hs : Str.splitOn '/' s = X ++ M ++ B)
    (hB : B ≠ []) (hM : ∀ m ∈ M, Str.hasChar ',' m = false) (a : Str) :
    Picks c s a ↔ ∃ pX pB l, Choice X pX ∧ Choice B.dropLast pB ∧ l ∈ lastAlts c ((B.getLast?).getD []) ∧
      a = Str.joinWith '/' (pX ++ M ++ (pB ++ [l])) := by
  unfold Picks
  rw [hs, List.dropLast_append_of_ne_nil hB, List.getLast?_append]
  have hlast : (B.getLast?.or (X ++ M).getLast?).getD [] = (B.getLast?).getD [] := by
    rw [List.getLast?_eq_some_getLast hB]; rfl
  rw [hlast]
  constructor
  · rintro ⟨picks, l, hc, hl, rfl⟩
    obtain ⟨pXM, pB, rfl, hXM, hpB⟩ := (choice_append (X ++ M) B.dropLast picks).1 hc
    obtain ⟨pX, pM, rfl, hpX, hpM⟩ := (choice_append X M pXM).1 hXM
    rw [(choice_plain M pM hM).1 hpM]
    exact ⟨pX, pB, l, hpX, hpB, hl, by simp [List.append_assoc]⟩
  · rintro ⟨pX, pB, l, hpX, hpB, hl, rfl⟩
    refine ⟨pX ++ M ++ pB, l, ?_, hl, by simp [List.append_assoc]⟩
    exact (choice_append (X ++ M) B.dropLast _).2 ⟨pX ++ M, pB, rfl,
      (choice_append X M _).2 ⟨pX, M, rfl, hpX, (choice_plain M M hM).2 rfl⟩, hpB⟩

/-- ("**"), plain strings: filling the "/**" of an expression whose "**" is a whole, non-last
    segment commutes with choosing the alternatives -/
theorem picks_fill (c : Ctx) (x b : Str) (k : Nat)
    (h1 : Str.count (x ++ slashStars ++ '/' :: b) slashStars = 1)
    (hp1 : ∀ a, Picks c (x ++ slashStars ++ '/' :: b) a → Str.count a slashStars = 1) (a' : Str) :
    Picks c (fill (x ++ slashStars ++ '/' :: b) k) a' ↔
      ∃ a, Picks c (x ++ slashStars ++ '/' :: b) a ∧ a' = fill a k := by
  have hBne : Str.splitOn '/' b ≠ [] := Str.splitOn_ne_nil '/' b
  have hXne : Str.splitOn '/' x ≠ [] := Str.splitOn_ne_nil '/' x
  rw [fill_at x ('/' :: b) k h1]
  have hsp1 := split_starstar x b
  have hsp2 := split_stars b k x
  have hM1 : ∀ m ∈ [(['*', '*'] : Str)], Str.hasChar ',' m = false := by
    intro m hm; simp only [List.mem_singleton] at hm; subst hm; decide
  have hM2 : ∀ m ∈ List.replicate k (['*'] : Str), Str.hasChar ',' m = false := by
    intro m hm; rw [List.eq_of_mem_replicate hm]; decide
  have key : ∀ pX pB l, Choice (Str.splitOn '/' x) pX → Choice (Str.splitOn '/' b).dropLast pB →
      l ∈ lastAlts c (((Str.splitOn '/' b).getLast?).getD []) →
      Str.joinWith '/' (pX ++ List.replicate k ['*'] ++ (pB ++ [l])) =
        fill (Str.joinWith '/' (pX ++ [['*', '*']] ++ (pB ++ [l]))) k := by
    intro pX pB l hpX hpB hl
    have hpXne : pX ≠ [] := by
      intro h0
      have := choice_length hpX
      rw [h0] at this
      exact hXne (List.length_eq_zero_iff.1 this.symm)
    have hpick : Picks c (x ++ slashStars ++ '/' :: b) (Str.joinWith '/' (pX ++ [['*', '*']] ++ (pB ++ [l]))) :=
      (picks_mid c _ _ _ _ hsp1 hBne hM1 _).2 ⟨pX, pB, l, hpX, hpB, hl, rfl⟩
    have hc := hp1 _ hpick
    rw [join_starstar pX (pB ++ [l]) hpXne (by simp)] at hc ⊢
    rw [fill_at _ _ k hc, join_stars k pX (pB ++ [l]) hpXne (by simp)]
  rw [picks_mid c _ _ _ _ hsp2 hBne hM2 a']
  constructor
  · rintro ⟨pX, pB, l, hpX, hpB, hl, rfl⟩
    exact ⟨_, (picks_mid c _ _ _ _ hsp1 hBne hM1 _).2 ⟨pX, pB, l, hpX, hpB, hl, rfl⟩,
      key pX pB l hpX hpB hl⟩
  · rintro ⟨a, hpa, rfl⟩
    obtain ⟨pX, pB, l, hpX, hpB, hl, rfl⟩ := (picks_mid c _ _ _ _ hsp1 hBne hM1 a).1 hpa
    exact ⟨pX, pB, l, hpX, hpB, hl, (key pX pB l hpX hpB hl).symm⟩

/-! ### the root and the filled strings of a plain string with a whole-segment "**" -/

/-- with exactly one "/**", at a known place after a non-empty prefix step: no earlier occurrence -/
theorem stars_not_prefix (c : Char) (u w : Str)
    (h : Str.countGo ['/', '*', '*'] 0 (c :: (u ++ ['/', '*', '*'] ++ w)) = 1) :
    (['/', '*', '*'] : Str).isPrefixOf (c :: (u ++ ['/', '*', '*'] ++ w)) = false := by
  cases hp : (['/', '*', '*'] : Str).isPrefixOf (c :: (u ++ ['/', '*', '*'] ++ w)) with
  | false => rfl
  | true =>
    exfalso
    simp only [Str.countGo, hp, if_true, List.length_cons, List.length_nil] at h
    have e : (0 + 1 + 1 + 1 - 1 : Nat) = 2 := rfl
    rw [e] at h
    have h0 : Str.countGo ['/', '*', '*'] 2 (u ++ ['/', '*', '*'] ++ w) = 0 := by omega
    rw [List.isPrefixOf_iff_prefix] at hp
    obtain ⟨t, ht⟩ := hp
    simp only [List.cons_append, List.cons.injEq, List.nil_append] at ht
    obtain ⟨_, ht⟩ := ht
    match u, ht, h0 with
    | [], ht, _ => simp at ht
    | [d], ht, _ => simp at ht
    | d1 :: d2 :: u'', ht, h0 =>
      simp only [List.cons_append, Str.countGo] at h0
      have := countGo_infix_pos ['/', '*', '*'] (by simp) w u''
      simp only [List.append_assoc, List.cons_append, List.nil_append] at this h0
      omega

theorem splitStr_head_at (w : Str) : ∀ (u cur : Str),
    Str.countGo ['/', '*', '*'] 0 (u ++ ['/', '*', '*'] ++ w) = 1 →
    (Str.splitStrGo ['/', '*', '*'] 0 cur (u ++ ['/', '*', '*'] ++ w)).head? = some (cur.reverse ++ u)
  | [], cur, _ => by
    simp [Str.splitStrGo]
  | c :: u, cur, h => by
    have hnp := stars_not_prefix c u w (by simpa using h)
    simp only [List.cons_append] at hnp h ⊢
    simp only [Str.splitStrGo, hnp, Bool.false_eq_true, if_false]
    simp only [Str.countGo, hnp, Bool.false_eq_true, if_false] at h
    have ih := splitStr_head_at w u (c :: cur) (by simpa using h)
    simp only [List.append_assoc, List.cons_append, List.nil_append, List.reverse_cons] at ih ⊢
    rw [ih]

theorem rootOf_at (u w : Str) (h : Str.count (u ++ slashStars ++ w) slashStars = 1) :
    rootOf (u ++ slashStars ++ w) = u := by
  have h' : Str.countGo ['/', '*', '*'] 0 (u ++ ['/', '*', '*'] ++ w) = 1 := by
    simpa [Str.count, slashStars] using h
  have := splitStr_head_at w u [] h'
  simp only [rootOf, Str.splitStr, slashStars]
  rw [this]; rfl

/-- "/*" levels followed by '/' contain no "/**" -/
theorem countGo_stars_zero (w : Str) (h : Str.countGo ['/', '*', '*'] 0 ('/' :: w) = 0) : ∀ k,
    Str.countGo ['/', '*', '*'] 0 (stars k ++ '/' :: w) = 0
  | 0 => by simpa [stars] using h
  | k + 1 => by
    rw [stars_succ]
    have ih := countGo_stars_zero w h k
    -- the text after "/*" starts with '/'
    have hhead : ∃ r, stars k ++ '/' :: w = '/' :: r := by
      cases k with
      | zero => exact ⟨w, by simp [stars]⟩
      | succ k => exact ⟨'*' :: (stars k ++ '/' :: w), by rw [stars_succ]; rfl⟩
    obtain ⟨r, hr⟩ := hhead
    simp only [List.cons_append]
    rw [hr] at ih ⊢
    simp only [Str.countGo] at ih ⊢
    simpa using ih

/-- filling the only "/**" of a plain string, when it is followed by '/', leaves no "/**" -/
theorem count_fill_zero (w : Str) (k : Nat) : ∀ u : Str,
    Str.countGo ['/', '*', '*'] 0 (u ++ ['/', '*', '*'] ++ '/' :: w) = 1 →
    Str.countGo ['/', '*', '*'] 0 (u ++ stars k ++ '/' :: w) = 0
  | [], h => by
    simp only [List.nil_append] at h ⊢
    rw [countGo_prefix _ _ (by simp)] at h
    exact countGo_stars_zero w (by omega) k
  | c :: u, h => by
    have hnp := stars_not_prefix c u ('/' :: w) (by simpa using h)
    simp only [List.cons_append] at hnp h ⊢
    simp only [Str.countGo, hnp, Bool.false_eq_true, if_false] at h
    have ih := count_fill_zero w k u (by simpa using h)
    -- no "/**" starts at `c` in the filled string either
    have hnp' : (['/', '*', '*'] : Str).isPrefixOf (c :: (u ++ stars k ++ '/' :: w)) = false := by
      have hhead : ∃ r, stars k ++ '/' :: w = '/' :: r := by
        cases k with
        | zero => exact ⟨w, by simp [stars]⟩
        | succ k => exact ⟨'*' :: (stars k ++ '/' :: w), by rw [stars_succ]; rfl⟩
      obtain ⟨r, hr⟩ := hhead
      match u, hnp with
      | [], _ =>
        simp only [List.nil_append]
        rw [hr]
        simp [List.isPrefixOf]
      | [d], _ =>
        simp only [List.cons_append, List.nil_append]
        rw [hr]
        simp [List.isPrefixOf]
      | d1 :: d2 :: u'', hnp =>
        simp only [List.cons_append, List.isPrefixOf, Bool.and_eq_false_iff, Bool.and_true] at hnp ⊢
        simpa using hnp
    simp only [List.append_assoc] at ih hnp' ⊢
    simp only [Str.countGo, hnp', Bool.false_eq_true, if_false]
    exact ih

/-- the shape of the plain strings of an expression with a whole, non-last "**" segment -/
theorem picks_shape (c : Ctx) (x b a : Str) (hpa : Picks c (x ++ slashStars ++ '/' :: b) a) :
    ∃ u w, a = u ++ slashStars ++ '/' :: w ∧
      ∀ k, Str.joinWith '/' ((Str.splitOn '/' (u ++ stars k ++ '/' :: w)).take
        (Str.splitOn '/' x).length) = u := by
  have hBne : Str.splitOn '/' b ≠ [] := Str.splitOn_ne_nil '/' b
  have hXne : Str.splitOn '/' x ≠ [] := Str.splitOn_ne_nil '/' x
  have hM1 : ∀ m ∈ [(['*', '*'] : Str)], Str.hasChar ',' m = false := by
    intro m hm; simp only [List.mem_singleton] at hm; subst hm; decide
  obtain ⟨pX, pB, l, hpX, hpB, hl, rfl⟩ :=
    (picks_mid c _ _ _ _ (split_starstar x b) hBne hM1 a).1 hpa
  have hlen := choice_length hpX
  have hpXne : pX ≠ [] := by
    intro h0; rw [h0] at hlen
    exact hXne (List.length_eq_zero_iff.1 hlen.symm)
  have hpXs : ∀ p ∈ pX, '/' ∉ p := by
    intro p hp
    obtain ⟨seg, hseg, hps⟩ := choice_mem hpX p hp
    exact altsOf_not_mem '/' seg (Str.splitOn_not_mem '/' x seg hseg) p hps
  refine ⟨Str.joinWith '/' pX, Str.joinWith '/' (pB ++ [l]), join_starstar pX _ hpXne (by simp), ?_⟩
  intro k
  rw [split_stars, Str.split_join '/' pX hpXne hpXs, List.append_assoc, ← hlen, List.take_left' rfl]

end DenL
