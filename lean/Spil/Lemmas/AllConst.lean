/-
  Spil.Lemmas.AllConst — `FindInConstants.star_search` without the mutual recursion: the search of
  ONE search Sid over an arbitrary parent `find` (`constOne`), `Finder.find` over an arbitrary
  `do_find` (`findVia`), and the case analysis of `constOne`.
-/
import Spil.Lemmas.AllRoute

namespace AllL

/-! ### `Finder.find` over an arbitrary `do_find` -/

/-- `Finder.find(search, as_sid=…)` (the base class method) over the `do_find` of the Finder:
    the search Sid object is re-resolved, a concrete Sid is handed over as it is, everything else is
    unfolded -/
def findVia (d : DCtx) (doFind : List Sid → Except Err (List Str)) (search : Sid) :
    Except Err (List Str) :=
  match (if search.typed then d.ctx.sidOfString search.uri else .ok Sid.empty) with
  | .error e => .error e
  | .ok sid =>
    match (if sid.typed && !d.ctx.isSearch sid && !d.ctx.isAliasSearch sid && !Str.hasChar '?' sid.string
           then (.ok [sid] : Except Err (List Sid))
           else d.ctx.unfoldSearch search.string false false) with
    | .error e => .error e
    | .ok ss => doFind ss

theorem finderFind_succ (d : DCtx) (w : World) (fuel i : Nat) (search : Sid) :
    d.finderFind w (fuel + 1) i search = findVia d (d.finderDoFind w fuel i) search := by
  rw [DCtx.finderFind.eq_2]
  rfl

theorem finderFind_zero (d : DCtx) (w : World) (i : Nat) (search : Sid) :
    d.finderFind w 0 i search = .error .other := by
  rw [DCtx.finderFind.eq_1]

theorem findVia_congr (d : DCtx) (f g : List Sid → Except Err (List Str)) (h : ∀ ss, f ss = g ss)
    (search : Sid) : findVia d f search = findVia d g search := by
  have : f = g := funext h
  rw [this]

/-! ### one search Sid of `FindInConstants.star_search` -/

/-- one value of `_append_value(root)`: `root.get_with(key=key, value=v)`, kept when typed -/
def withVal (d : DCtx) (key : Str) (x : Sid) (v : Str) : Except Err (List Str) :=
  match d.ctx.getWithKw x [(key, some v)] with
  | .error e => .error e
  | .ok r => .ok (if r.typed then [r.string] else [])

theorem appendValues_eq (d : DCtx) (key : Str) (values : List Str) (x : Sid) :
    d.appendValues key values x = Ctx.flatMapE (withVal d key x) values := rfl

/-- what `star_search` yields for ONE root found by the parent source -/
def perRoot (d : DCtx) (key : Str) (values : List Str) (root : Sid) (fr : Str) :
    Except Err (List Str) :=
  match d.ctx.sidOfString fr with
  | .error e => .error e
  | .ok frs =>
    match root.fields.get key with
    | some v =>
      if v != ['*'] then
        match d.ctx.div frs v with
        | .error e => .error e
        | .ok r => .ok [r.string]
      else d.appendValues key values frs
    | none => d.appendValues key values frs

/-- the body of the loop of `FindInConstants(key, values, parent).star_search` for ONE search Sid;
    `pf` is `parent_source.find` (`none`: no parent source) -/
def constOne (d : DCtx) (pf : Option (Sid → Except Err (List Str))) (key : Str) (values : List Str)
    (s : Sid) : Except Err (List Str) :=
  match (if s.typed then d.ctx.sidOfString s.uri else .ok Sid.empty) with
  | .error e => .error e
  | .ok s' =>
    match d.ctx.getAs s' key with
    | .error e => .error e
    | .ok root =>
      if !root.typed then .ok [] else
      if !Str.hasChar '*' root.string then .ok [root.string] else
      match d.ctx.parent root with
      | .error e => .error e
      | .ok rp =>
        if Str.hasChar '*' rp.string && !(Sid.eqv root rp) then
          match pf with
          | none => .error .spil
          | some find =>
            match find rp with
            | .error e => .error e
            | .ok foundRoots => Ctx.flatMapE (perRoot d key values root) foundRoots
        else d.appendValues key values root

/-- `star_search` is the concatenation of `constOne` over the search Sids -/
theorem constStar_eq (d : DCtx) (w : World) (fuel : Nat) (key : Str) (values : List Str)
    (parent : Option Nat) (ss : List Sid) :
    d.constStar w fuel key values parent ss =
      Ctx.flatMapE (constOne d (parent.map (fun pi => d.finderFind w fuel pi)) key values) ss := by
  induction ss with
  | nil => rw [DCtx.constStar.eq_1, flatMapE_nil]
  | cons s rest ih =>
    rw [DCtx.constStar.eq_2, flatMapE_cons, ← ih]
    unfold constOne perRoot
    generalize d.constStar w fuel key values parent rest = X
    -- the two sides differ only in the names of the auxiliary matchers: walk through the cases
    cases (if s.typed then d.ctx.sidOfString s.uri else Except.ok Sid.empty) with
    | error e => rfl
    | ok s' =>
      simp only []
      cases d.ctx.getAs s' key with
      | error e => rfl
      | ok root =>
        simp only []
        by_cases h1 : (!root.typed) = true
        · simp only [h1, if_true]
          cases X <;> rfl
        · simp only [h1]
          by_cases h2 : (!Str.hasChar '*' root.string) = true
          · simp only [h2, if_true]
            cases X <;> rfl
          · simp only [h2]
            cases d.ctx.parent root with
            | error e => rfl
            | ok rp =>
              simp only []
              by_cases h3 : (Str.hasChar '*' rp.string && !(Sid.eqv root rp)) = true
              · simp only [h3, if_true]
                cases parent with
                | none => rfl
                | some pi =>
                  simp only [Option.map_some]
                  cases d.finderFind w fuel pi rp with
                  | error e => rfl
                  | ok foundRoots =>
                    simp only []
                    cases Ctx.flatMapE (fun fr =>
                      match d.ctx.sidOfString fr with
                      | .error e => .error e
                      | .ok frs =>
                        match root.fields.get key with
                        | some v =>
                          if v != ['*'] then
                            match d.ctx.div frs v with
                            | .error e => .error e
                            | .ok r => .ok [r.string]
                          else d.appendValues key values frs
                        | none => d.appendValues key values frs) foundRoots with
                    | error e => rfl
                    | ok out => cases X <;> rfl
              · simp only [h3]
                cases d.appendValues key values root with
                | error e => rfl
                | ok out => cases X <;> rfl

/-! ### the cases of `constOne` -/

section cases

variable (d : DCtx) (pf : Option (Sid → Except Err (List Str))) (key : Str) (values : List Str)

/-- the search does not reach the key (or is untyped): nothing -/
theorem constOne_untyped (s s' root : Sid)
    (hs : (if s.typed then d.ctx.sidOfString s.uri else .ok Sid.empty) = .ok s')
    (hroot : d.ctx.getAs s' key = .ok root) (ht : root.typed = false) :
    constOne d pf key values s = .ok [] := by
  unfold constOne
  simp only [hs, hroot, ht, Bool.not_false, if_true]

/-- (a) nothing to search: the root itself -/
theorem constOne_concrete (s s' root : Sid)
    (hs : (if s.typed then d.ctx.sidOfString s.uri else .ok Sid.empty) = .ok s')
    (hroot : d.ctx.getAs s' key = .ok root) (ht : root.typed = true)
    (hstar : Str.hasChar '*' root.string = false) :
    constOne d pf key values s = .ok [root.string] := by
  unfold constOne
  simp only [hs, hroot, ht, hstar, Bool.not_true, Bool.not_false, Bool.false_eq_true, if_false, if_true]

/-- (b) no parent search: the constant values are appended to the root -/
theorem constOne_append (s s' root rp : Sid)
    (hs : (if s.typed then d.ctx.sidOfString s.uri else .ok Sid.empty) = .ok s')
    (hroot : d.ctx.getAs s' key = .ok root) (ht : root.typed = true)
    (hstar : Str.hasChar '*' root.string = true) (hp : d.ctx.parent root = .ok rp)
    (hrp : (Str.hasChar '*' rp.string && !(Sid.eqv root rp)) = false) :
    constOne d pf key values s = d.appendValues key values root := by
  unfold constOne
  simp only [hs, hroot, ht, hstar, hp, hrp, Bool.not_true, Bool.false_eq_true, if_false]

/-- (c) the parent is a search: the parent source is asked, every found root is completed -/
theorem constOne_parent (find : Sid → Except Err (List Str)) (s s' root rp : Sid)
    (hs : (if s.typed then d.ctx.sidOfString s.uri else .ok Sid.empty) = .ok s')
    (hroot : d.ctx.getAs s' key = .ok root) (ht : root.typed = true)
    (hstar : Str.hasChar '*' root.string = true) (hp : d.ctx.parent root = .ok rp)
    (hrp : (Str.hasChar '*' rp.string && !(Sid.eqv root rp)) = true) :
    constOne d (some find) key values s =
      match find rp with
      | .error e => .error e
      | .ok foundRoots => Ctx.flatMapE (perRoot d key values root) foundRoots := by
  unfold constOne
  simp only [hs, hroot, ht, hstar, hp, hrp, Bool.not_true, Bool.false_eq_true, if_false, if_true]

/-- (c) without a parent source: `SpilException` -/
theorem constOne_no_parent (s s' root rp : Sid)
    (hs : (if s.typed then d.ctx.sidOfString s.uri else .ok Sid.empty) = .ok s')
    (hroot : d.ctx.getAs s' key = .ok root) (ht : root.typed = true)
    (hstar : Str.hasChar '*' root.string = true) (hp : d.ctx.parent root = .ok rp)
    (hrp : (Str.hasChar '*' rp.string && !(Sid.eqv root rp)) = true) :
    constOne d none key values s = .error .spil := by
  unfold constOne
  simp only [hs, hroot, ht, hstar, hp, hrp, Bool.not_true, Bool.false_eq_true, if_false, if_true]

end cases

end AllL
