/-
  Spil.Lemmas.ExclRound — from template exclusion to `path_to_dict`: `resolve_first` returns the
  Sid's own template on the Sid's own path, and the values are mapped back to the Sid's fields.
-/
import Spil.Lemmas.ExclTpl
import Spil.Lemmas.DetC06

namespace Excl

open Spec Det

/-! ### `resolve_first` on a path rendered by one of the templates -/

theorem exclEarlier_tplOk (e : Env) (pc : PathConf) (hwf : pathTplsOk e pc = true) :
    ∀ lt ∈ pc.templates, pathTplOk e lt.2 = true :=
  fun lt h => pathTplsOk_tpl e pc hwf lt.1 lt.2 h

/-- every earlier template is skipped, the Sid's own template answers -/
theorem resolveFirstGo_own (e : Env) (syms : List Str) (cd : Bool) (ty : Str) (t : Template)
    (data : Dict) (w : Str) (d : Dict) (hok : pathTplOk e t = true)
    (hv : valuesOk e t data = true) (hc : concreteOk syms t data = true)
    (hw : Template.format t data = some w) (hown : Resolver.resolveTpl e cd t w = .ok (some d)) :
    ∀ ts : List (Str × Template), exclEarlier e syms ts = true →
      (∀ lt ∈ ts, pathTplOk e lt.2 = true) → ts.lookup ty = some t →
      Resolver.resolveFirstGo e cd w ts = .ok (some (ty, d))
  | [], _, _, hl => by simp at hl
  | (l, t') :: rest, hex, hall, hl => by
    simp only [exclEarlier, Bool.and_eq_true, List.all_eq_true] at hex
    rw [List.lookup_cons] at hl
    cases hb : ty == l with
    | true =>
      rw [hb] at hl
      simp only [Option.some.injEq] at hl
      subst hl
      have : ty = l := by simpa using hb
      subst this
      simp only [Resolver.resolveFirstGo, hown]
    | false =>
      rw [hb] at hl
      have hmem := lookup_some_mem rest ty t hl
      have hx : tplExcl e syms t' t = true := hex.1 (ty, t) hmem
      have hskip := resolveTpl_none e syms cd t' t data w (hall (l, t') (by simp)) hok hx hv hc hw
      simp only [Resolver.resolveFirstGo, hskip]
      exact resolveFirstGo_own e syms cd ty t data w d hok hv hc hw hown rest hex.2
        (fun lt h => hall lt (by simp [h])) hl

/-! ### inverting `sid.path` -/

theorem sidPath_inv (c : Ctx) (cfg : Option Str) (pc : PathConf)
    (hpc : c.cfg.pathConf? cfg = some pc) (x : Sid) (p : Str)
    (h : c.sidPath cfg x = .ok (some p)) :
    x.fields ≠ [] ∧ c.dictToPath pc x.fields x.type = .ok p := by
  unfold Ctx.sidPath at h
  split at h
  · simp at h
  · next hf =>
    rw [hpc] at h
    simp only at h
    split at h
    · next p' hd =>
      simp only [Except.ok.injEq, Option.some.injEq] at h
      subst h
      exact ⟨by simpa using hf, hd⟩
    · simp at h
    · simp at h

theorem dictToPath_inv (c : Ctx) (pc : PathConf) (data : Dict) (ty : Str) (t : Template) (p : Str)
    (ht : pc.resolver.lookup ty = some t) (h : c.dictToPath pc data ty = .ok p) :
    Template.keys t ≠ [] ∧
    Dict.keysEq (Ctx.pathData pc data (Template.keys t)) (Template.keys t) = true ∧
    ∃ path, Template.format t (Ctx.pathData pc data (Template.keys t)) = some path ∧
      p = PurePath.normalize path := by
  unfold Ctx.dictToPath at h
  split at h
  · simp at h
  · rw [ht] at h
    simp only at h
    split at h
    · simp at h
    · next hk =>
      split at h
      · simp at h
      · next hke =>
        split at h
        · simp at h
        · next path hf =>
          split at h
          · simp at h
          · split at h
            · simp only [Except.ok.injEq] at h
              exact ⟨by simpa using hk, by simpa using hke, path, hf, h.symm⟩
            · simp at h

theorem normalize_aux (R B : Str) : (if (R.isEmpty && B.isEmpty) = true then ['.'] else R ++ B) ≠ [] := by
  split
  · simp
  · next h =>
    intro h0
    apply h
    have := List.append_eq_nil_iff.mp h0
    simp [this.1, this.2]

theorem normalize_ne_nil (p : Str) : PurePath.normalize p ≠ [] := by
  unfold PurePath.normalize
  exact normalize_aux _ _

/-! ### the values come back -/

theorem mapToSid_keys (pc : PathConf) (d : Dict) : (Ctx.mapToSid pc d).map (·.1) = d.map (·.1) := by
  unfold Ctx.mapToSid
  rw [List.map_map]
  apply List.map_congr_left
  rintro ⟨k, v⟩ _
  simp only [Function.comp]
  split
  · split <;> rfl
  · rfl

theorem foldl_get_fwd (pc : PathConf) : ∀ (ks : List Str) (d : Dict) (k v : Str),
    d.get k = some v →
    (ks.foldl (fun d k =>
      match pc.defaults.lookup k with
      | some dv => if !d.hasKey k && !dv.isEmpty then d ++ [(k, dv)] else d
      | none => d) d).get k = some v
  | [], d, k, v, h => h
  | k' :: ks, d, k, v, h => by
    rw [List.foldl_cons]
    apply foldl_get_fwd pc ks
    split
    · split
      · simp only [Dict.get, List.lookup_append] at h ⊢
        rw [h]; rfl
      · exact h
    · exact h

/-- what `dict_to_path` hands to the template for a key the Sid has -/
theorem pathData_get_fwd (pc : PathConf) (fields : Dict) (keys : List Str) (k v : Str)
    (h : fields.get k = some v) :
    (Ctx.pathData pc fields keys).get k = some (g2 pc k (g1 pc k v)) := by
  unfold Ctx.pathData
  apply foldl_get_fwd
  rw [get_map_kv (g2 pc) _ (by
    rintro ⟨k', v'⟩
    simp only [g2]
    generalize pc.mapping.lookup k' = o
    cases o <;> simp only [ite_pair])]
  rw [get_map_kv (g1 pc) _ (by
    rintro ⟨k', v'⟩
    simp only [g1]
    generalize pc.defaults.lookup k' = o
    cases o <;> simp only [ite_pair])]
  rw [h]
  rfl

/-- the hypothesis "values are read back", key by key -/
theorem back_get (pc : PathConf) (fields : Dict)
    (hback : Ctx.mapToSid pc (Ctx.pathData pc fields []) = fields) (k v : Str)
    (h : fields.get k = some v) : g0 pc k (g2 pc k (g1 pc k v)) = v := by
  have h1 : (Ctx.mapToSid pc (Ctx.pathData pc fields [])).get k = some v := by rw [hback]; exact h
  rw [mapToSid_get, pathData_get_fwd pc fields [] k v h] at h1
  simpa using h1

theorem dict_eq_of_nodup : ∀ (d : Dict), (d.map (·.1)).Nodup →
    (d.map (·.1)).map (fun k => (k, (d.get k).getD [])) = d
  | [], _ => rfl
  | (k, v) :: d, hnd => by
    simp only [List.map_cons, List.nodup_cons] at hnd
    simp only [List.map_cons, Dict.get, List.lookup_cons, beq_self_eq_true, Option.getD_some,
      List.cons.injEq, true_and]
    have ih := dict_eq_of_nodup d hnd.2
    rw [List.map_map] at ih ⊢
    conv => rhs; rw [← ih]
    apply List.map_congr_left
    intro p hp
    have hne : p.1 ≠ k := by
      rintro rfl
      exact hnd.1 (List.mem_map.mpr ⟨p, hp, rfl⟩)
    have hb : (p.1 == k) = false := by simpa using hne
    simp only [Function.comp, hb]
    rfl

/-- `path_to_dict` gives the Sid's own type and fields back -/
theorem pathToDict_own (c : Ctx) (pc : PathConf) (x : Sid) (t : Template) (kts : List Str)
    (p : Str) (d : Dict)
    (hres : Resolver.resolveFirst c.env pc.resolver p = .ok (some (x.type, d)))
    (hget : ∀ k, d.get k = (Ctx.pathData pc x.fields (Template.keys t)).get k)
    (hkeys : d.map (·.1) = Template.keys t)
    (hkt : c.cfg.sid.keyTypes.lookup (((Str.splitStr x.type c.cfg.sid.sep).head?).getD []) =
      some kts)
    (horder : kts.filter (fun k => (Template.keys t).contains k) = x.fields.map (·.1))
    (hnd : (x.fields.map (·.1)).Nodup)
    (hback : Ctx.mapToSid pc (Ctx.pathData pc x.fields []) = x.fields) :
    c.pathToDict pc p none = .ok (some (x.type, x.fields)) := by
  rw [PathL.pathToDict_none_eq, hres]
  simp only [hkt]
  have hfilter : kts.filter (fun k => (Ctx.mapToSid pc d).hasKey k) = x.fields.map (·.1) := by
    rw [← horder]
    apply List.filter_congr
    intro k _
    have : (Ctx.mapToSid pc d).hasKey k = (Template.keys t).contains k := by
      rw [Bool.eq_iff_iff, hasKey_iff_mem, mapToSid_keys, hkeys]
      simp
    exact this
  rw [hfilter]
  congr 3
  conv => rhs; rw [← dict_eq_of_nodup x.fields hnd]
  apply List.map_congr_left
  intro k hk
  obtain ⟨q, hq, rfl⟩ := List.mem_map.mp hk
  obtain ⟨v, hv⟩ := PathL.hasKey_get x.fields q.1 (by
    simp only [Dict.hasKey, List.any_eq_true]
    exact ⟨q, hq, by simp⟩)
  rw [mapToSid_get, hget, pathData_get_fwd pc x.fields _ q.1 v hv, hv]
  simp only [Option.map_some, Option.getD_some, back_get pc x.fields hback q.1 v hv]

end Excl
