/-
  Spil.Lemmas.FS — lemmas about the abstract file tree (`World`), `mkdirP` / `touchP`, sidecar
  paths, association lists / `Dict`, `Ctx.mapE`, and the star search `pathsStarGo`.
-/
import Spil.Spec.FS
import Spil.Lemmas.StrSplit
import Spil.Lemmas.Lst

namespace FSL

open Spec World

/-! ### association lists and `Dict` -/

theorem lookup_some_mem {α β} [BEq α] [LawfulBEq α] (l : List (α × β)) (k : α) (v : β)
    (h : l.lookup k = some v) : (k, v) ∈ l := by
  induction l with
  | nil => simp at h
  | cons a l ih =>
    obtain ⟨a1, a2⟩ := a
    rw [List.lookup_cons] at h
    by_cases hk : (k == a1) = true
    · simp [hk] at h
      have : k = a1 := by simpa using hk
      subst this; subst h; simp
    · simp [hk] at h
      exact List.mem_cons_of_mem _ (ih h)

theorem lookup_none_iff {α β} [BEq α] [LawfulBEq α] (l : List (α × β)) (k : α) :
    l.lookup k = none ↔ k ∉ l.map (·.1) := by
  induction l with
  | nil => simp
  | cons a l ih =>
    obtain ⟨a1, a2⟩ := a
    rw [List.lookup_cons]
    by_cases hk : (k == a1) = true
    · have : k = a1 := by simpa using hk
      simp [this]
    · have hne : k ≠ a1 := by simpa using hk
      simp [hk, ih, hne]

theorem lookup_isSome_of_mem {α β} [BEq α] [LawfulBEq α] (l : List (α × β)) (k : α)
    (h : k ∈ l.map (·.1)) : (l.lookup k).isSome = true := by
  cases hl : l.lookup k with
  | none => exact absurd h ((lookup_none_iff l k).1 hl)
  | some v => rfl

/-- replacing the value stored under one key -/
theorem lookup_map_replace {α β} [BEq α] [LawfulBEq α] (l : List (α × β)) (sp q : α) (v : β) :
    (l.map (fun (x : α × β) => match x with | (p, c) => if p == sp then (p, v) else (p, c))).lookup q =
      if (q == sp) = true then (l.lookup q).map (fun _ => v) else l.lookup q := by
  induction l with
  | nil => simp
  | cons a l ih =>
    obtain ⟨a1, a2⟩ := a
    simp only [List.map_cons]
    by_cases h1 : a1 = sp
    · subst h1
      by_cases h2 : q = a1
      · subst h2; simp
      · have : (q == a1) = false := by simpa using h2
        simp only [this] at ih
        simp [List.lookup_cons, this, ih]
    · have h1' : (a1 == sp) = false := by simpa using h1
      by_cases h2 : q = a1
      · subst h2; simp [h1]
      · have : (q == a1) = false := by simpa using h2
        simp [h1', List.lookup_cons, this, ih]

theorem lookup_map_some (l : Dict) (k : Str) :
    (l.map (fun (p : Str × Str) => (p.1, some p.2))).lookup k = (l.lookup k).map some := by
  induction l with
  | nil => simp
  | cons a l ih =>
    obtain ⟨a1, a2⟩ := a
    simp only [List.map_cons, List.lookup_cons]
    by_cases h : (k == a1) = true
    · simp [h]
    · simp [h, ih]

/-- `d[k] = v` then `d.get(k')` (no distinctness of keys needed: both work on the first entry) -/
theorem get_set (d : Dict) (k k' v : Str) :
    Dict.get (Dict.set d k v) k' = if k' = k then some v else Dict.get d k' := by
  unfold Dict.get
  induction d with
  | nil =>
    by_cases h : k' = k
    · subst h; simp [Dict.set]
    · have : (k' == k) = false := by simpa using h
      simp [Dict.set, List.lookup_cons, this, h]
  | cons a l ih =>
    obtain ⟨a1, a2⟩ := a
    by_cases h1 : a1 = k
    · subst h1
      by_cases h2 : k' = a1
      · subst h2; simp [Dict.set]
      · have : (k' == a1) = false := by simpa using h2
        simp [Dict.set, List.lookup_cons, this, h2]
    · have h1' : (a1 == k) = false := by simpa using h1
      by_cases h2 : k' = a1
      · subst h2; simp [Dict.set, h1, h1']
      · have : (k' == a1) = false := by simpa using h2
        simp [Dict.set, List.lookup_cons, this, h1', ih]

theorem update_cons (d : Dict) (a : Str × Str) (as : List (Str × Str)) :
    Dict.update d (a :: as) = Dict.update (Dict.set d a.1 a.2) as := rfl

/-- `dict.update`: later values replace earlier ones, other keys persist -/
theorem get_update (prev attrs : Dict) (k : Str) :
    (Dict.update prev attrs).get k =
      match (attrs.reverse.lookup k) with
      | some v => some v
      | none => prev.get k := by
  induction attrs generalizing prev with
  | nil => simp [Dict.update]
  | cons a as ih =>
    obtain ⟨a1, a2⟩ := a
    rw [update_cons, ih, List.reverse_cons, List.lookup_append]
    cases h : as.reverse.lookup k with
    | some v => simp
    | none =>
      simp only [Option.none_or, List.lookup_cons, List.lookup_nil, get_set]
      by_cases h2 : k = a1
      · subst h2; simp
      · have : (k == a1) = false := by simpa using h2
        simp [this, h2]

/-! ### the tree -/

/-- the canonical absolute path with the given components -/
def canon (cs : List Str) : Str := '/' :: Str.joinWith '/' cs

/-- non-empty, slash-free components -/
def CompsOk (cs : List Str) : Prop := ∀ c ∈ cs, c ≠ [] ∧ '/' ∉ c

theorem canonPath_iff (p : Str) : CanonPath p ↔ ∃ cs, cs ≠ [] ∧ CompsOk cs ∧ p = canon cs := Iff.rfl

theorem CompsOk.append_left {a b : List Str} (h : CompsOk (a ++ b)) : CompsOk a :=
  fun c hc => h c (List.mem_append_left _ hc)

theorem CompsOk.take {a : List Str} (h : CompsOk a) (n : Nat) : CompsOk (a.take n) :=
  fun c hc => h c (List.mem_of_mem_take hc)

theorem splitOn_canon (cs : List Str) (hne : cs ≠ []) (h : CompsOk cs) :
    Str.splitOn '/' (canon cs) = [] :: cs := by
  unfold canon
  simp only [Str.splitOn, if_true]
  rw [Str.split_join '/' cs hne (fun p hp => (h p hp).2)]

theorem filter_comps (cs : List Str) (h : CompsOk cs) : cs.filter (fun c => !c.isEmpty) = cs := by
  rw [List.filter_eq_self]
  intro c hc
  have := (h c hc).1
  cases c with
  | nil => exact absurd rfl this
  | cons _ _ => rfl

theorem ancestors_canon (cs : List Str) (hne : cs ≠ []) (h : CompsOk cs) :
    ancestors (canon cs) = (List.range (cs.length - 1)).map (fun i => canon (cs.take (i + 1))) := by
  unfold ancestors
  simp only [splitOn_canon cs hne h, List.filter_cons, List.isEmpty_nil, Bool.not_true,
    filter_comps cs h]
  rfl

theorem ancestors_canon_single (c : Str) (h : CompsOk [c]) : ancestors (canon [c]) = [] := by
  rw [ancestors_canon [c] (by simp) h]; rfl

theorem ancestors_root : ancestors ['/'] = [] := by decide

theorem ancestors_canon_snoc (cs : List Str) (c : Str) (hne : cs ≠ []) (h : CompsOk (cs ++ [c])) :
    ancestors (canon (cs ++ [c])) = ancestors (canon cs) ++ [canon cs] := by
  rw [ancestors_canon (cs ++ [c]) (by simp) h, ancestors_canon cs hne h.append_left]
  obtain ⟨m, hm⟩ : ∃ m, cs.length = m + 1 := by
    cases cs with
    | nil => exact absurd rfl hne
    | cons a as => exact ⟨as.length, rfl⟩
  have h1 : (cs ++ [c]).length - 1 = m + 1 := by simp [hm]
  have h2 : cs.length - 1 = m := by simp [hm]
  rw [h1, h2, List.range_succ, List.map_append]
  congr 1
  · apply List.map_congr_left
    intro i hi
    have : i < m := by simpa using hi
    rw [List.take_append_of_le_length (by omega)]
  · simp only [List.map_cons, List.map_nil]
    rw [List.take_append_of_le_length (by omega), List.take_of_length_le (by omega)]

/-! ### adding nodes -/

theorem kind_add_preserve (w : World) (x : Str) (k : Node) (q : Str) (kq : Node)
    (h : w.kind? q = some kq) :
    ({ w with nodes := w.nodes ++ [(x, k)] } : World).kind? q = some kq := by
  unfold kind? at *
  simp [List.lookup_append, h]

theorem kind_add_self (w : World) (x : Str) (k : Node) (h : w.kind? x = none) :
    ({ w with nodes := w.nodes ++ [(x, k)] } : World).kind? x = some k := by
  unfold kind? at *
  simp [List.lookup_append, h]

theorem treeOk_add (w : World) (x : Str) (k : Node) (ht : TreeOk w) (hx : w.kind? x = none)
    (ha : ∀ a ∈ ancestors x, w.kind? a = some Node.dir) :
    TreeOk { w with nodes := w.nodes ++ [(x, k)] } := by
  refine ⟨?_, ?_⟩
  · have hnm : x ∉ w.nodes.map (·.1) := (lookup_none_iff w.nodes x).1 hx
    simp only [List.map_append, List.map_cons, List.map_nil]
    rw [List.nodup_append]
    refine ⟨ht.1, by simp, ?_⟩
    intro a ha' b hb
    simp only [List.mem_singleton] at hb
    subst hb
    intro e; subst e; exact hnm ha'
  · intro p kp hp a hap
    apply kind_add_preserve
    simp only [List.mem_append, List.mem_singleton, Prod.mk.injEq] at hp
    rcases hp with hp | ⟨rfl, rfl⟩
    · exact ht.2 p kp hp a hap
    · exact ha a hap

theorem treeOk_of_nodes_eq (w w' : World) (h : w'.nodes = w.nodes) (ht : TreeOk w) : TreeOk w' := by
  unfold TreeOk kind? at *
  rw [h]; exact ht

theorem kind_of_nodes_eq (w w' : World) (h : w'.nodes = w.nodes) (q : Str) : w'.kind? q = w.kind? q := by
  unfold kind?; rw [h]

/-- existing nodes have directory ancestors (via `kind?`) -/
theorem treeOk_anc {w : World} (ht : TreeOk w) {p : Str} {k : Node} (h : w.kind? p = some k) :
    ∀ a ∈ ancestors p, w.kind? a = some Node.dir :=
  ht.2 p k (lookup_some_mem w.nodes p k h)

/-! ### `mkdirP` -/

/-- the fold step of `mkdirP` -/
def mkStep (acc : Except Err World) (d : Str) : Except Err World :=
  match acc with
  | .error e => .error e
  | .ok w =>
    match w.kind? d with
    | some .dir => .ok w
    | some .file => .error .os
    | none => .ok { w with nodes := w.nodes ++ [(d, .dir)] }

theorem mkdirP_eq (w : World) (p : Str) : mkdirP w p = (ancestors p ++ [p]).foldl mkStep (.ok w) := rfl

/-- what `mkdir -p` guarantees -/
def MkPost (w w' : World) (p : Str) : Prop :=
  TreeOk w' ∧ w'.kind? p = some Node.dir ∧ (∀ q k, w.kind? q = some k → w'.kind? q = some k) ∧
    w'.sidecars = w.sidecars

theorem mkStep_ok (w w' : World) (x : Str) (ht : TreeOk w)
    (ha : ∀ a ∈ ancestors x, w.kind? a = some Node.dir) (h : mkStep (.ok w) x = .ok w') :
    MkPost w w' x := by
  unfold mkStep at h
  simp only at h
  split at h
  · next hk => cases h; exact ⟨ht, hk, fun _ _ h => h, rfl⟩
  · cases h
  · next hk =>
    cases h
    exact ⟨treeOk_add w x _ ht hk ha, kind_add_self w x _ hk,
      fun q k h => kind_add_preserve w x _ q k h, rfl⟩

theorem mkdirP_snoc (w : World) (cs : List Str) (c : Str) (hne : cs ≠ []) (h : CompsOk (cs ++ [c])) :
    mkdirP w (canon (cs ++ [c])) = mkStep (mkdirP w (canon cs)) (canon (cs ++ [c])) := by
  rw [mkdirP_eq, mkdirP_eq, ancestors_canon_snoc cs c hne h, List.foldl_append]
  rfl

theorem mkdirP_canon_rev (r : List Str) (hne : r ≠ []) (h : CompsOk r.reverse) (w w' : World)
    (ht : TreeOk w) (hm : mkdirP w (canon r.reverse) = .ok w') : MkPost w w' (canon r.reverse) := by
  induction r generalizing w' with
  | nil => exact absurd rfl hne
  | cons c r ih =>
    by_cases hr : r = []
    · subst hr
      simp only [List.reverse_cons, List.reverse_nil, List.nil_append] at *
      rw [mkdirP_eq, ancestors_canon_single c h] at hm
      exact mkStep_ok w w' _ ht (by rw [ancestors_canon_single c h]; simp) hm
    · simp only [List.reverse_cons] at *
      have hr' : r.reverse ≠ [] := by simpa using hr
      rw [mkdirP_snoc w _ c hr' h] at hm
      cases h1 : mkdirP w (canon r.reverse) with
      | error e => rw [h1] at hm; simp [mkStep] at hm
      | ok w1 =>
        rw [h1] at hm
        obtain ⟨t1, k1, p1, s1⟩ := ih hr h.append_left w1 h1
        have hanc : ∀ a ∈ ancestors (canon (r.reverse ++ [c])), w1.kind? a = some Node.dir := by
          rw [ancestors_canon_snoc _ c hr' h]
          intro a ha
          simp only [List.mem_append, List.mem_singleton] at ha
          rcases ha with ha | rfl
          · exact treeOk_anc (w := w1) t1 k1 a ha
          · exact k1
        obtain ⟨t2, k2, p2, s2⟩ := mkStep_ok w1 w' _ t1 hanc hm
        exact ⟨t2, k2, fun q k hq => p2 q k (p1 q k hq), s2.trans s1⟩

theorem mkdirP_canon (cs : List Str) (hne : cs ≠ []) (h : CompsOk cs) (w w' : World)
    (ht : TreeOk w) (hm : mkdirP w (canon cs) = .ok w') : MkPost w w' (canon cs) := by
  have := mkdirP_canon_rev cs.reverse (by simpa using hne) (by simpa using h) w w' ht
  simp only [List.reverse_reverse] at this
  exact this hm

theorem mkdirP_root (w w' : World) (ht : TreeOk w) (hm : mkdirP w ['/'] = .ok w') :
    MkPost w w' ['/'] := by
  rw [mkdirP_eq, ancestors_root] at hm
  exact mkStep_ok w w' _ ht (by rw [ancestors_root]; simp) hm

/-! ### `parent` and `touchP` -/

theorem joinWith_snoc (sep : Char) (A : List Str) (x : Str) (hne : A ≠ []) :
    Str.joinWith sep (A ++ [x]) = Str.joinWith sep A ++ sep :: x := by
  induction A with
  | nil => exact absurd rfl hne
  | cons a A ih =>
    cases A with
    | nil => simp [Str.joinWith]
    | cons b rest =>
      have := ih (by simp)
      simp only [List.cons_append, Str.joinWith] at this ⊢
      rw [this]; simp

theorem snoc_of_ne_nil {α} (l : List α) (h : l ≠ []) : ∃ l' x, l = l' ++ [x] :=
  ⟨l.dropLast, l.getLast h, (List.dropLast_concat_getLast h).symm⟩

theorem parent_canon_single (c : Str) (h : CompsOk [c]) : PurePath.parent (canon [c]) = ['/'] := by
  unfold PurePath.parent
  simp only [splitOn_canon [c] (by simp) h]
  simp [List.dropLast, Str.joinWith, canon, Str.startsWith, List.isPrefixOf]

theorem parent_canon_snoc (cs : List Str) (c : Str) (hne : cs ≠ []) (h : CompsOk (cs ++ [c])) :
    PurePath.parent (canon (cs ++ [c])) = canon cs := by
  unfold PurePath.parent
  simp only [splitOn_canon (cs ++ [c]) (by simp) h]
  have : ([] :: (cs ++ [c])).dropLast = [] :: cs := by
    rw [← List.cons_append, List.dropLast_concat]
  rw [this]
  cases cs with
  | nil => exact absurd rfl hne
  | cons a as => simp [Str.joinWith, canon]

/-- what `touchP` guarantees -/
def TouchPost (w w' : World) (p : Str) : Prop :=
  TreeOk w' ∧ w'.pathExists p = true ∧ (∀ q k, w.kind? q = some k → w'.kind? q = some k) ∧
    w'.sidecars = w.sidecars

theorem touch_after (w w1 w' : World) (par p : Str) (hm : MkPost w w1 par)
    (hanc : ∀ a ∈ ancestors p, w1.kind? a = some Node.dir)
    (h : (if w1.pathExists p then Except.ok w1 else
          (Except.ok { w1 with nodes := w1.nodes ++ [(p, Node.file)] } : Except Err World)) = .ok w') :
    TouchPost w w' p := by
  obtain ⟨t1, k1, p1, s1⟩ := hm
  split at h
  · next he => cases h; exact ⟨t1, he, p1, s1⟩
  · next he =>
    cases h
    have hk : w1.kind? p = none := by
      unfold pathExists at he
      cases hh : w1.kind? p with
      | none => rfl
      | some v => simp [hh] at he
    refine ⟨treeOk_add w1 p _ t1 hk hanc, ?_, fun q k hq => kind_add_preserve w1 p _ q k (p1 q k hq), s1⟩
    unfold pathExists
    rw [kind_add_self w1 p _ hk]; rfl

theorem touchP_canon (cs : List Str) (hne : cs ≠ []) (h : CompsOk cs) (w w' : World)
    (ht : TreeOk w) (hm : touchP w (canon cs) = .ok w') : TouchPost w w' (canon cs) := by
  obtain ⟨cs', c, rfl⟩ := snoc_of_ne_nil cs hne
  unfold touchP at hm
  by_cases hc : cs' = []
  · subst hc
    simp only [List.nil_append] at *
    rw [parent_canon_single c h] at hm
    cases h1 : mkdirP w ['/'] with
    | error e => rw [h1] at hm; cases hm
    | ok w1 =>
      rw [h1] at hm
      exact touch_after w w1 w' _ _ (mkdirP_root w w1 ht h1)
        (by rw [ancestors_canon_single c h]; simp) hm
  · rw [parent_canon_snoc cs' c hc h] at hm
    cases h1 : mkdirP w (canon cs') with
    | error e => rw [h1] at hm; cases hm
    | ok w1 =>
      rw [h1] at hm
      have hp := mkdirP_canon cs' hc h.append_left w w1 ht h1
      refine touch_after w w1 w' _ _ hp ?_ hm
      rw [ancestors_canon_snoc cs' c hc h]
      intro a ha
      simp only [List.mem_append, List.mem_singleton] at ha
      rcases ha with ha | rfl
      · exact treeOk_anc hp.1 hp.2.1 a ha
      · exact hp.2.1

/-! ### sidecar paths -/

theorem splitOn_canon_snoc (cs : List Str) (c : Str) (h : CompsOk (cs ++ [c])) :
    Str.splitOn '/' (canon (cs ++ [c])) = ([] :: cs) ++ [c] := by
  rw [splitOn_canon _ (by simp) h]; rfl

theorem name_canon_snoc (cs : List Str) (c : Str) (h : CompsOk (cs ++ [c])) :
    PurePath.name (canon (cs ++ [c])) = c := by
  unfold PurePath.name
  rw [splitOn_canon_snoc cs c h, List.getLast?_concat]; rfl

theorem dropLast_splitOn_canon_snoc (cs : List Str) (c : Str) (h : CompsOk (cs ++ [c])) :
    (Str.splitOn '/' (canon (cs ++ [c]))).dropLast = [] :: cs := by
  rw [splitOn_canon_snoc cs c h, List.dropLast_concat]

theorem stem_no_slash (nm : Str) (h : '/' ∉ nm) : '/' ∉ stem nm := by
  unfold stem
  intro hm; exact h (List.mem_of_mem_take hm)

theorem sidecarPath_canon_snoc (d : DCtx) (cs : List Str) (c : Str) (h : CompsOk (cs ++ [c])) :
    d.sidecarPath (canon (cs ++ [c])) =
      Str.joinWith '/' (([] :: cs) ++ [stem ('.' :: c) ++ d.ctx.cfg.dataSuffix]) := by
  have hc : '/' ∉ ('.' :: c) := by
    have := (h c (by simp)).2
    simp only [List.mem_cons, not_or]
    exact ⟨by decide, this⟩
  have hfree : ∀ p ∈ ([] :: cs) ++ ['.' :: c], '/' ∉ p := by
    intro p hp
    simp only [List.mem_append, List.mem_cons, List.not_mem_nil, or_false] at hp
    rcases hp with (rfl | hp) | rfl
    · simp
    · exact (h p (by simp [hp])).2
    · exact hc
  unfold DCtx.sidecarPath
  rw [name_canon_snoc cs c h]
  have h1 : PurePath.withName (canon (cs ++ [c])) ('.' :: c) = Str.joinWith '/' (([] :: cs) ++ ['.' :: c]) := by
    unfold PurePath.withName
    rw [dropLast_splitOn_canon_snoc cs c h]
  rw [h1]
  unfold PurePath.withSuffix PurePath.withName PurePath.name
  simp only [Str.split_join '/' _ (by simp) hfree, List.getLast?_concat, Option.getD_some,
    List.dropLast_concat]
  rfl

theorem sidecarPath_eq_iff (d : DCtx) (a b : List Str) (c e : Str) (ha : CompsOk (a ++ [c]))
    (hb : CompsOk (b ++ [e])) :
    d.sidecarPath (canon (a ++ [c])) = d.sidecarPath (canon (b ++ [e])) ↔
      (a = b ∧ stem ('.' :: c) = stem ('.' :: e)) := by
  rw [sidecarPath_canon_snoc d a c ha, sidecarPath_canon_snoc d b e hb]
  constructor
  · intro heq
    rw [joinWith_snoc _ _ _ (by simp), joinWith_snoc _ _ _ (by simp)] at heq
    have heq2 : (Str.joinWith '/' ([] :: a) ++ '/' :: stem ('.' :: c)) ++ d.ctx.cfg.dataSuffix =
        (Str.joinWith '/' ([] :: b) ++ '/' :: stem ('.' :: e)) ++ d.ctx.cfg.dataSuffix := by
      simpa using heq
    have heq3 := List.append_cancel_right heq2
    rw [← joinWith_snoc _ _ _ (by simp), ← joinWith_snoc _ _ _ (by simp)] at heq3
    have hfree : ∀ (x : List Str) (y : Str), CompsOk (x ++ [y]) →
        ∀ p ∈ ([] :: x) ++ [stem ('.' :: y)], '/' ∉ p := by
      intro x y hxy p hp
      simp only [List.mem_append, List.mem_cons, List.not_mem_nil, or_false] at hp
      rcases hp with (rfl | hp) | rfl
      · simp
      · exact (hxy p (by simp [hp])).2
      · apply stem_no_slash
        have := (hxy y (by simp)).2
        simp only [List.mem_cons, not_or]
        exact ⟨by decide, this⟩
    have := congrArg (Str.splitOn '/') heq3
    rw [Str.split_join '/' _ (by simp) (hfree a c ha), Str.split_join '/' _ (by simp) (hfree b e hb)] at this
    have h2 := List.append_inj' this rfl
    simp only [List.cons.injEq, true_and, and_true] at h2
    exact h2
  · rintro ⟨rfl, hs⟩
    rw [hs]

/-! ### `Ctx.mapE` -/

theorem mapE_ok {α β} (f : α → Except Err β) (l : List α) (rs : List β) (h : Ctx.mapE f l = .ok rs) :
    rs.length = l.length ∧ ∀ (i : Nat) (x : α) (r : β), l[i]? = some x → rs[i]? = some r → f x = .ok r := by
  induction l generalizing rs with
  | nil =>
    simp only [Ctx.mapE] at h
    cases h
    exact ⟨rfl, by simp⟩
  | cons a l ih =>
    simp only [Ctx.mapE] at h
    split at h
    · cases h
    · next y hy =>
      split at h
      · cases h
      · next ys hys =>
        cases h
        obtain ⟨h1, h2⟩ := ih ys hys
        refine ⟨by simp [h1], ?_⟩
        intro i x r hx hr
        cases i with
        | zero =>
          simp only [List.getElem?_cons_zero, Option.some.injEq] at hx hr
          subst hx; subst hr; exact hy
        | succ i =>
          simp only [List.getElem?_cons_succ] at hx hr
          exact h2 i x r hx hr

/-! ### the star search -/

/-- the fold step of `pathsStarGo` for the search Sid `s` -/
def starStep (d : DCtx) (config : Option Str) (s : Sid)
    (acc : Except Err (List Sid × List Str)) (path : Str) : Except Err (List Sid × List Str) :=
  match acc with
  | .error e => .error e
  | .ok (out, found) =>
    if found.contains path then .ok (out, found) else
    match d.ctx.sidOfPath path config with
    | .error .spil => .ok (out, found)
    | .error e => .error e
    | .ok x =>
      if x.type != s.type then .ok (out, found)
      else if !x.typed then .ok (out, found)
      else
        match Find.globMatch d.ctx.env s.string x.string with
        | .error e => .error e
        | .ok false => .ok (out, found)
        | .ok true => .ok (out ++ [x], found ++ [path])

theorem pathsStarGo_cons (d : DCtx) (w : World) (config : Option Str) (s : Sid) (rest : List Sid)
    (searched : List (Str × Str × Str)) (found : List Str) :
    d.pathsStarGo w config (s :: rest) searched found =
      match d.ctx.sidPath config s with
      | .error e => .error e
      | .ok p =>
        let pattern := p.getD ['N','o','n','e']
        if searched.contains (s.type, pattern, s.string) then d.pathsStarGo w config rest searched found else
        match (w.glob pattern).foldl (starStep d config s) (.ok ([], found)) with
        | .error e => .error e
        | .ok (out, found) =>
          match d.pathsStarGo w config rest (searched ++ [(s.type, pattern, s.string)]) found with
          | .error e => .error e
          | .ok more => .ok (out ++ more) := by
  rfl

theorem glob_mem (w : World) (pat p : Str) (h : p ∈ w.glob pat) : w.pathExists p = true := by
  unfold glob at h
  have := (List.mem_filter.1 h).1
  exact lookup_isSome_of_mem w.nodes p this

theorem glob_add (w : World) (sc : List (Str × Sidecar)) (pat p : Str) (k : Node) :
    (World.glob ⟨w.nodes ++ [(p, k)], sc⟩ pat = w.glob pat ++ [p]) ∨
    (World.glob ⟨w.nodes ++ [(p, k)], sc⟩ pat = w.glob pat) := by
  unfold glob
  simp only [List.map_append, List.map_cons, List.map_nil, List.filter_append, List.filter_cons,
    List.filter_nil]
  split
  · left; rfl
  · right; simp

theorem glob_nodes_eq (w w' : World) (h : w'.nodes = w.nodes) (pat : Str) : w'.glob pat = w.glob pat := by
  unfold glob; rw [h]

theorem pathsStarGo_nodes_eq (d : DCtx) (w w' : World) (h : w'.nodes = w.nodes) (config : Option Str)
    (searches : List Sid) (searched : List (Str × Str × Str)) (found : List Str) :
    d.pathsStarGo w' config searches searched found = d.pathsStarGo w config searches searched found := by
  induction searches generalizing searched found with
  | nil => rfl
  | cons s rest ih =>
    rw [pathsStarGo_cons, pathsStarGo_cons]
    simp only [glob_nodes_eq w w' h, ih]

/-- a path on which the fold step does nothing for every searched Sid can be added to the tree
    without changing the result -/
theorem pathsStarGo_add (d : DCtx) (w : World) (sc : List (Str × Sidecar)) (config : Option Str) (p : Str) (k : Node)
    (searches : List Sid)
    (hstep : ∀ s ∈ searches, ∀ acc, starStep d config s acc p = acc)
    (searched : List (Str × Str × Str)) (found : List Str) :
    d.pathsStarGo ⟨w.nodes ++ [(p, k)], sc⟩ config searches searched found =
      d.pathsStarGo w config searches searched found := by
  induction searches generalizing searched found with
  | nil => rfl
  | cons s rest ih =>
    rw [pathsStarGo_cons, pathsStarGo_cons]
    have ih' := ih (fun s hs => hstep s (List.mem_cons_of_mem _ hs))
    have hg : ∀ pat init, (World.glob ⟨w.nodes ++ [(p, k)], sc⟩ pat).foldl (starStep d config s) init =
        (w.glob pat).foldl (starStep d config s) init := by
      intro pat init
      rcases glob_add w sc pat p k with h | h
      · rw [h, List.foldl_append]
        simp only [List.foldl_cons, List.foldl_nil]
        exact hstep s (by simp) _
      · rw [h]
    simp only [hg, ih']

theorem starStep_junk (d : DCtx) (config : Option Str) (s : Sid) (p : Str)
    (hj : (∃ x, d.ctx.sidOfPath p config = .ok x ∧ x.typed = false) ∨ d.ctx.sidOfPath p config = .error .spil)
    (acc : Except Err (List Sid × List Str)) : starStep d config s acc p = acc := by
  unfold starStep
  rcases acc with e | ⟨out, found⟩
  · rfl
  · simp only
    split
    · rfl
    · rcases hj with ⟨x, hx, hty⟩ | hj
      · rw [hx]; simp only [hty]
        split <;> simp
      · rw [hj]

theorem starStep_other (d : DCtx) (config : Option Str) (s : Sid) (p : Str) (x : Sid)
    (hx : d.ctx.sidOfPath p config = .ok x) (ht : s.type ≠ x.type)
    (acc : Except Err (List Sid × List Str)) : starStep d config s acc p = acc := by
  unfold starStep
  rcases acc with e | ⟨out, found⟩
  · rfl
  · simp only
    split
    · rfl
    · rw [hx]
      have : (x.type != s.type) = true := by simpa using fun e => ht e.symm
      simp [this]

/-- the Sids a star search may yield for the search Sid `s` -/
def StarRes (d : DCtx) (w : World) (config : Option Str) (s : Sid) (x : Sid) : Prop :=
  x.typed = true ∧ s.type = x.type ∧ Find.globMatch d.ctx.env s.string x.string = .ok true ∧
    ∃ p, w.pathExists p = true ∧ d.ctx.sidOfPath p config = .ok x

theorem starFold_res (d : DCtx) (w : World) (config : Option Str) (s : Sid) (l : List Str)
    (hl : ∀ p ∈ l, w.pathExists p = true) (out0 : List Sid) (f0 : List Str) (out : List Sid) (f : List Str)
    (h0 : ∀ x ∈ out0, StarRes d w config s x)
    (h : l.foldl (starStep d config s) (.ok (out0, f0)) = .ok (out, f)) :
    ∀ x ∈ out, StarRes d w config s x := by
  induction l generalizing out0 f0 with
  | nil =>
    simp only [List.foldl_nil, Except.ok.injEq, Prod.mk.injEq] at h
    rw [← h.1]; exact h0
  | cons p l ih =>
    simp only [List.foldl_cons] at h
    have hl' : ∀ q ∈ l, w.pathExists q = true := fun q hq => hl q (List.mem_cons_of_mem _ hq)
    have herr : ∀ e, l.foldl (starStep d config s) (.error e) ≠ .ok (out, f) := by
      intro e
      have : ∀ l : List Str, l.foldl (starStep d config s) (.error e) = .error e := by
        intro l; induction l with
        | nil => rfl
        | cons a l ih => simpa [List.foldl_cons, starStep] using ih
      rw [this]; simp
    unfold starStep at h
    simp only at h
    split at h
    · exact ih hl' out0 f0 h0 h
    · split at h
      · exact ih hl' out0 f0 h0 h
      · exact absurd h (herr _)
      · next x hx =>
        split at h
        · exact ih hl' out0 f0 h0 h
        · next hty =>
          split at h
          · exact ih hl' out0 f0 h0 h
          · next htyped =>
            split at h
            · exact absurd h (herr _)
            · exact ih hl' out0 f0 h0 h
            · next hgm =>
              refine ih hl' _ _ ?_ h
              intro y hy
              simp only [List.mem_append, List.mem_singleton] at hy
              rcases hy with hy | rfl
              · exact h0 y hy
              · refine ⟨by simpa using htyped, ?_, hgm, p, hl p (by simp), hx⟩
                have : y.type = s.type := by simpa using hty
                exact this.symm

theorem pathsStarGo_res (d : DCtx) (w : World) (config : Option Str) (searches : List Sid)
    (searched : List (Str × Str × Str)) (found : List Str) (r : List Sid)
    (h : d.pathsStarGo w config searches searched found = .ok r) :
    ∀ x ∈ r, ∃ s ∈ searches, StarRes d w config s x := by
  induction searches generalizing searched found r with
  | nil =>
    simp only [DCtx.pathsStarGo] at h
    cases h; simp
  | cons s rest ih =>
    rw [pathsStarGo_cons] at h
    split at h
    · cases h
    · next p hp =>
      simp only at h
      split at h
      · intro x hx
        obtain ⟨s', hs', hr⟩ := ih _ _ _ h x hx
        exact ⟨s', List.mem_cons_of_mem _ hs', hr⟩
      · split at h
        · cases h
        · next out f hfold =>
          split at h
          · cases h
          · next more hmore =>
            cases h
            intro x hx
            simp only [List.mem_append] at hx
            rcases hx with hx | hx
            · exact ⟨s, by simp, starFold_res d w config s _ (fun p hp => glob_mem w _ p hp) [] found out f (by simp) hfold x hx⟩
            · obtain ⟨s', hs', hr⟩ := ih _ _ _ hmore x hx
              exact ⟨s', List.mem_cons_of_mem _ hs', hr⟩

/-! ### `writeData` -/

theorem writeData_nodes (d : DCtx) (w w' : World) (path : Str) (attrs : Dict)
    (h : d.writeData w path attrs = .ok w') : w'.nodes = w.nodes := by
  unfold DCtx.writeData at h
  simp only at h
  split at h
  · cases h
  · cases h; rfl
  · cases h; rfl

end FSL
