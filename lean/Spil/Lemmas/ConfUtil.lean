/-
  Spil.Lemmas.ConfUtil — helper lemmas for C19.
-/
import Spil.Model.Conf
import Spil.Lemmas.Str

/-! ### `Str.splitOn` / `Str.joinWith` -/

namespace Str

/-- alias of `Str.join_split` (Lemmas/Str.lean) -/
theorem joinWith_splitOn (sep : Char) (s : Str) : joinWith sep (splitOn sep s) = s := join_split sep s

/-- alias of `Str.split_join` (Lemmas/Str.lean) -/
theorem splitOn_joinWith (sep : Char) (ps : List Str) (hne : ps ≠ [])
    (h : ∀ p ∈ ps, sep ∉ p) : splitOn sep (joinWith sep ps) = ps := split_join sep ps hne h

theorem not_mem_of_mem_splitOn (sep : Char) (s : Str) : ∀ p ∈ splitOn sep s, sep ∉ p := by
  induction s with
  | nil => simp [splitOn]
  | cons c cs ih =>
    simp only [splitOn]; split
    · intro p hp
      rcases List.mem_cons.1 hp with rfl | hp
      · simp
      · exact ih p hp
    · next hc =>
      match hs : splitOn sep cs with
      | [] => exact absurd hs (splitOn_ne_nil sep cs)
      | q :: qs =>
        rw [hs] at ih
        intro p hp
        rcases List.mem_cons.1 hp with rfl | hp
        · intro hm
          rcases List.mem_cons.1 hm with rfl | hm
          · exact hc rfl
          · exact ih q (by simp) hm
        · exact ih p (by simp [hp])

end Str

/-! ### `Dict.set` -/

namespace Dict

/-- `d[k] = v` on an absent key appends -/
theorem set_of_not_mem (d : Dict) (k v : Str) (h : k ∉ d.map (·.1)) : set d k v = d ++ [(k, v)] := by
  induction d with
  | nil => rfl
  | cons e d ih =>
    obtain ⟨k', v'⟩ := e
    simp only [List.map_cons, List.mem_cons, not_or] at h
    have hne : (k' == k) = false := by
      simp only [beq_eq_false_iff_ne, ne_eq]; exact fun e => h.1 e.symm
    simp [set, hne, ih h.2]

end Dict

/-! ### `extrapolateOne` -/

namespace ConfUtil

/-- the name given to the prefix `q` of a template of type `ty` with keytype `kt` -/
def pname (ty kt q : Str) : Str :=
  ty.take (ty.length - kt.length) ++ keyOfPart (((Str.splitOn '/' q).getLast?).getD [])

/-- the joined prefixes of `P` of lengths `n, n-1, …, 1` -/
def candsN (P : List Str) (n : Nat) : List Str :=
  ((List.range n).reverse).map (fun k => Str.joinWith '/' (P.take (k + 1)))

theorem candsN_succ (P : List Str) (n : Nat) :
    candsN P (n + 1) = Str.joinWith '/' (P.take (n + 1)) :: candsN P n := by
  simp [candsN, List.range_succ]

theorem any_fst_beq (l : List (Str × Str)) (x : Str) :
    l.any (·.1 == x) = true ↔ x ∈ l.map (·.1) := by
  simp only [List.any_eq_true, beq_iff_eq, List.mem_map]

theorem any_snd_beq (l : List (Str × Str)) (x : Str) :
    l.any (·.2 == x) = true ↔ x ∈ l.map (·.2) := by
  simp only [List.any_eq_true, beq_iff_eq, List.mem_map]

/-- what one run of the inner loop appends to `acc` -/
structure BlkSpec (orig acc blk : List (Str × Str)) (nm : Str → Str) (cands : List Str) : Prop where
  sub : (blk.map (·.2)).Sublist cands
  name : ∀ q ∈ blk, q.1 = nm q.2
  freshN : ∀ q ∈ blk, q.1 ∉ orig.map (·.1) ∧ q.1 ∉ acc.map (·.1)
  freshT : ∀ q ∈ blk, q.2 ∉ orig.map (·.2) ∧ q.2 ∉ acc.map (·.2)
  ndN : (blk.map (·.1)).Nodup
  ndT : (blk.map (·.2)).Nodup
  compl : ∀ c ∈ cands, c ∈ orig.map (·.2) ∨ c ∈ (acc ++ blk).map (·.2) ∨
    nm c ∈ orig.map (·.1) ∨ nm c ∈ (acc ++ blk).map (·.1)

theorem extrapolateOne_spec (sep ty kt : Str) (orig : List (Str × Str)) (P : List Str)
    (hP : ∀ p ∈ P, '/' ∉ p) :
    ∀ n acc, n ≤ P.length → ∃ blk,
      extrapolateOne sep ty kt orig n (P.take n) acc = acc ++ blk ∧
      BlkSpec orig acc blk (pname ty kt) (candsN P n) := by
  intro n
  induction n with
  | zero =>
    intro acc _
    refine ⟨[], by simp [extrapolateOne], ?_⟩
    constructor <;> simp [candsN]
  | succ n ih =>
    intro acc hn
    have hlt : n < P.length := hn
    have hcur : P.take (n + 1) = P.take n ++ [P[n]] := (List.take_append_getElem hlt).symm
    have hlast : (P.take (n + 1)).getLast? = some P[n] := by rw [hcur]; exact List.getLast?_concat
    have hdrop : (P.take (n + 1)).dropLast = P.take n := by rw [hcur]; exact List.dropLast_concat
    have hsplit : Str.splitOn '/' (Str.joinWith '/' (P.take (n + 1))) = P.take (n + 1) :=
      Str.splitOn_joinWith _ _ (by intro h; rw [h] at hlast; simp at hlast) (fun p hp => hP p (List.mem_of_mem_take hp))
    have hname : ty.take (ty.length - kt.length) ++ keyOfPart P[n]
        = pname ty kt (Str.joinWith '/' (P.take (n + 1))) := by
      simp [pname, hsplit, hlast]
    simp only [extrapolateOne, hlast, hdrop, hname]
    generalize hT : Str.joinWith '/' (P.take (n + 1)) = newT
    rw [candsN_succ, hT]
    by_cases hc : (((orig.any fun x => x.snd == newT) || acc.any fun x => x.snd == newT) ||
        ((orig.any fun x => x.fst == pname ty kt newT) ||
          acc.any fun x => x.fst == pname ty kt newT)) = true
    · rw [if_pos hc]
      obtain ⟨blk, heq, hs⟩ := ih acc (Nat.le_of_lt hlt)
      refine ⟨blk, heq, ?_⟩
      simp only [Bool.or_eq_true, any_fst_beq, any_snd_beq] at hc
      refine { sub := hs.sub.cons _, name := hs.name, freshN := hs.freshN, freshT := hs.freshT,
               ndN := hs.ndN, ndT := hs.ndT, compl := ?_ }
      intro c hcm
      rcases List.mem_cons.1 hcm with rfl | hcm
      · rcases hc with (h | h) | (h | h)
        · exact Or.inl h
        · exact Or.inr (Or.inl (by rw [List.map_append]; exact List.mem_append_left _ h))
        · exact Or.inr (Or.inr (Or.inl h))
        · exact Or.inr (Or.inr (Or.inr (by rw [List.map_append]; exact List.mem_append_left _ h)))
      · exact hs.compl c hcm
    · rw [if_neg hc]
      obtain ⟨blk, heq, hs⟩ := ih (acc ++ [(pname ty kt newT, newT)]) (Nat.le_of_lt hlt)
      refine ⟨(pname ty kt newT, newT) :: blk, by rw [heq]; simp, ?_⟩
      simp only [Bool.or_eq_true, any_fst_beq, any_snd_beq, not_or] at hc
      obtain ⟨⟨hc1, hc2⟩, hc3, hc4⟩ := hc
      have hfN := hs.freshN
      have hfT := hs.freshT
      simp only [List.map_append, List.mem_append, List.map_cons, List.map_nil,
        List.mem_singleton, not_or] at hfN hfT
      constructor
      · simpa using hs.sub.cons_cons newT
      · intro q hq
        rcases List.mem_cons.1 hq with rfl | hq
        · rfl
        · exact hs.name q hq
      · intro q hq
        rcases List.mem_cons.1 hq with rfl | hq
        · exact ⟨hc3, hc4⟩
        · exact ⟨(hfN q hq).1, (hfN q hq).2.1⟩
      · intro q hq
        rcases List.mem_cons.1 hq with rfl | hq
        · exact ⟨hc1, hc2⟩
        · exact ⟨(hfT q hq).1, (hfT q hq).2.1⟩
      · simp only [List.map_cons, List.nodup_cons]
        refine ⟨?_, hs.ndN⟩
        intro hm
        obtain ⟨q, hq, e⟩ := List.mem_map.1 hm
        exact (hfN q hq).2.2 e
      · simp only [List.map_cons, List.nodup_cons]
        refine ⟨?_, hs.ndT⟩
        intro hm
        obtain ⟨q, hq, e⟩ := List.mem_map.1 hm
        exact (hfT q hq).2.2 e
      · intro c hcm
        rcases List.mem_cons.1 hcm with rfl | hcm
        · right; left; simp
        · have := hs.compl c hcm
          simpa [List.append_assoc] using this

/-! ### `extrapolateGo` -/

/-- the proper, non-empty '/'-prefixes of a template, longest first (= `C19.properPrefixes`) -/
def ppfx (template : Str) : List Str :=
  let parts := Str.splitOn '/' template
  ((List.range (parts.length - 1)).reverse).map (fun k => Str.joinWith '/' (parts.take (k + 1)))

/-- entries of `l` whose name is not a name of `orig` -/
def gen (orig l : List (Str × Str)) : List (Str × Str) :=
  l.filter (fun p => !(orig.map (·.1)).contains p.1)

theorem BlkSpec.nil (orig acc : List (Str × Str)) (nm : Str → Str) : BlkSpec orig acc [] nm [] := by
  constructor <;> simp

/-- one iteration of the outer loop, after the explicit entry has been stored -/
theorem extrapolate_step_spec (sep : Str) (ex : List Str) (orig : List (Str × Str)) (ty t : Str)
    (acc : List (Str × Str)) :
    ∃ blk,
      (if ex.contains ty then
          extrapolateOne sep ty (keytypeOf sep ty) orig (Str.splitOn '/' t).dropLast.length
            (Str.splitOn '/' t).dropLast acc
        else acc) = acc ++ blk ∧
      (ex.contains ty = false → blk = []) ∧
      BlkSpec orig acc blk (pname ty (keytypeOf sep ty)) (if ex.contains ty then ppfx t else []) := by
  by_cases hex : ex.contains ty = true
  · simp only [hex, if_true]
    have h := extrapolateOne_spec sep ty (keytypeOf sep ty) orig (Str.splitOn '/' t)
      (Str.not_mem_of_mem_splitOn '/' t) ((Str.splitOn '/' t).length - 1) acc (Nat.sub_le _ _)
    rw [← List.dropLast_eq_take] at h
    obtain ⟨blk, heq, hs⟩ := h
    refine ⟨blk, ?_, by simp, hs⟩
    rw [List.length_dropLast]; exact heq
  · simp only [hex]
    exact ⟨[], by simp, fun _ => rfl, BlkSpec.nil _ _ _⟩

structure GoSpec (sep : Str) (ex : List Str) (orig rest acc res : List (Str × Str))
    (blocks : List (List (Str × Str))) : Prop where
  len : blocks.length = rest.length
  eq : res = acc ++ (rest.zip blocks).flatMap (fun pb => pb.1 :: pb.2)
  blk : ∀ pb ∈ rest.zip blocks,
    (ex.contains pb.1.1 = false → pb.2 = []) ∧
    (pb.2.map (·.2)).Sublist (ppfx pb.1.2) ∧
    ∀ q ∈ pb.2, q.1 = pname pb.1.1 (keytypeOf sep pb.1.1) q.2 ∧
      q.1 ∉ orig.map (·.1) ∧ q.2 ∉ orig.map (·.2)
  ndN : (res.map (·.1)).Nodup
  ndT : ((gen orig res).map (·.2)).Nodup
  compl : ∀ r ∈ rest, r.1 ∈ ex → ∀ c ∈ ppfx r.2,
    c ∈ orig.map (·.2) ∨ c ∈ res.map (·.2) ∨
    pname r.1 (keytypeOf sep r.1) c ∈ orig.map (·.1) ∨
    pname r.1 (keytypeOf sep r.1) c ∈ res.map (·.1)

theorem extrapolateGo_spec (sep : Str) (ex : List Str) (orig : List (Str × Str)) :
    ∀ rest acc, (∀ r ∈ rest, r ∈ orig) → (rest.map (·.1)).Nodup →
      (∀ r ∈ rest, r.1 ∉ acc.map (·.1)) → (acc.map (·.1)).Nodup →
      ((gen orig acc).map (·.2)).Nodup →
      ∃ blocks, GoSpec sep ex orig rest acc (extrapolateGo sep ex orig rest acc) blocks := by
  intro rest
  induction rest with
  | nil =>
    intro acc _ _ _ h4 h5
    exact ⟨[], { len := rfl, eq := by simp [extrapolateGo], blk := by simp,
                 ndN := by simpa [extrapolateGo] using h4, ndT := by simpa [extrapolateGo] using h5,
                 compl := by simp }⟩
  | cons e rest ih =>
    obtain ⟨ty, t⟩ := e
    intro acc h1 h2 h3 h4 h5
    have hty : ty ∉ acc.map (·.1) := h3 (ty, t) (by simp)
    simp only [extrapolateGo, Dict.set_of_not_mem acc ty t hty]
    obtain ⟨blk, heq, hnil, hs⟩ := extrapolate_step_spec sep ex orig ty t (acc ++ [(ty, t)])
    rw [heq]
    have hfN := hs.freshN
    have hfT := hs.freshT
    simp only [List.map_append, List.mem_append, List.map_cons, List.map_nil,
      List.mem_singleton, not_or] at hfN hfT
    simp only [List.map_cons, List.nodup_cons, List.mem_map] at h2
    -- hypotheses for the recursive call
    have h1' : ∀ r ∈ rest, r ∈ orig := fun r hr => h1 r (List.mem_cons_of_mem _ hr)
    have h3' : ∀ r ∈ rest, r.1 ∉ (acc ++ [(ty, t)] ++ blk).map (·.1) := by
      intro r hr
      simp only [List.map_append, List.mem_append, List.map_cons, List.map_nil,
        List.mem_singleton, not_or]
      refine ⟨⟨h3 r (List.mem_cons_of_mem _ hr), ?_⟩, ?_⟩
      · intro e; exact h2.1 ⟨r, hr, e⟩
      · intro hm
        obtain ⟨q, hq, e⟩ := List.mem_map.1 hm
        exact (hfN q hq).1 (e ▸ List.mem_map.2 ⟨r, h1' r hr, rfl⟩)
    have h4' : ((acc ++ [(ty, t)] ++ blk).map (·.1)).Nodup := by
      simp only [List.map_append, List.map_cons, List.map_nil]
      refine List.nodup_append.2 ⟨List.nodup_append.2 ⟨h4, by simp, ?_⟩, hs.ndN, ?_⟩
      · intro a ha b hb e
        rw [List.mem_singleton] at hb
        subst hb; subst e
        exact hty ha
      · intro a ha b hb e
        subst e
        obtain ⟨q, hq, e⟩ := List.mem_map.1 hb
        rcases List.mem_append.1 ha with ha | ha
        · exact (hfN q hq).2.1 (e ▸ ha)
        · rw [List.mem_singleton] at ha
          exact (hfN q hq).2.2 (e.trans ha)
    have hgen : gen orig (acc ++ [(ty, t)] ++ blk) = gen orig acc ++ blk := by
      have hin : ty ∈ orig.map (·.1) := List.mem_map.2 ⟨(ty, t), h1 _ (by simp), rfl⟩
      have hb : blk.filter (fun p => !(orig.map (·.1)).contains p.1) = blk := by
        rw [List.filter_eq_self]
        intro q hq
        have := (hfN q hq).1
        simpa using this
      simp only [gen, List.filter_append, hb]
      simp [hin]
    have h5' : ((gen orig (acc ++ [(ty, t)] ++ blk)).map (·.2)).Nodup := by
      rw [hgen, List.map_append]
      refine List.nodup_append.2 ⟨h5, hs.ndT, ?_⟩
      intro a ha b hb e
      subst e
      obtain ⟨q, hq, e⟩ := List.mem_map.1 hb
      obtain ⟨q', hq', e'⟩ := List.mem_map.1 ha
      have hq'' : q' ∈ acc := (List.mem_filter.1 hq').1
      exact (hfT q hq).2.1 (e ▸ List.mem_map.2 ⟨q', hq'', e'⟩)
    obtain ⟨blocks, hg⟩ := ih (acc ++ [(ty, t)] ++ blk) h1' h2.2 h3' h4' h5'
    refine ⟨blk :: blocks, ?_⟩
    have hsub : ∀ x, x ∈ (acc ++ [(ty, t)] ++ blk) →
        x ∈ extrapolateGo sep ex orig rest (acc ++ [(ty, t)] ++ blk) := by
      intro x hx; rw [hg.eq]; exact List.mem_append_left _ hx
    constructor
    · simp [hg.len]
    · rw [hg.eq]; simp [List.append_assoc]
    · intro pb hpb
      rw [List.zip_cons_cons] at hpb
      rcases List.mem_cons.1 hpb with rfl | hpb
      · refine ⟨hnil, ?_, ?_⟩
        · have := hs.sub
          by_cases hex : ex.contains ty = true
          · rw [if_pos hex] at this; exact this
          · have hb : blk = [] := hnil (by simpa using hex)
            subst hb; simp
        · intro q hq
          exact ⟨hs.name q hq, (hfN q hq).1, (hfT q hq).1⟩
      · exact hg.blk pb hpb
    · exact hg.ndN
    · exact hg.ndT
    · intro r hr hrex c hc
      rcases List.mem_cons.1 hr with rfl | hr
      · have hex : ex.contains ty = true := List.contains_iff_mem.2 hrex
        have := hs.compl c (by rw [if_pos hex]; exact hc)
        rcases this with h | h | h | h
        · exact Or.inl h
        · obtain ⟨x, hx, e⟩ := List.mem_map.1 h
          exact Or.inr (Or.inl (List.mem_map.2 ⟨x, hsub x hx, e⟩))
        · exact Or.inr (Or.inr (Or.inl h))
        · obtain ⟨x, hx, e⟩ := List.mem_map.1 h
          exact Or.inr (Or.inr (Or.inr (List.mem_map.2 ⟨x, hsub x hx, e⟩)))
      · exact hg.compl r hr hrex c hc

/-- the full specification of `extrapolateTemplates` on a table with distinct names -/
theorem extrapolateTemplates_spec (sep : Str) (ts : List (Str × Str)) (ex : List Str)
    (hd : (ts.map (·.1)).Nodup) :
    ∃ blocks, GoSpec sep ex ts ts [] (extrapolateTemplates sep ts ex) blocks :=
  extrapolateGo_spec sep ex ts ts [] (fun _ h => h) hd (by simp) (by simp) (by simp [gen])

/-- filtering an interleaving `e₁ :: b₁ ++ e₂ :: b₂ ++ …` by a predicate true on the `eᵢ` and
    false on the blocks gives back the `eᵢ` -/
theorem filter_interleave {α : Type} (p : α → Bool) :
    ∀ (rest : List α) (blocks : List (List α)), blocks.length = rest.length →
      (∀ pb ∈ rest.zip blocks, p pb.1 = true ∧ ∀ q ∈ pb.2, p q = false) →
      ((rest.zip blocks).flatMap (fun pb => pb.1 :: pb.2)).filter p = rest := by
  intro rest
  induction rest with
  | nil => intro blocks _ _; simp
  | cons e rest ih =>
    intro blocks hlen h
    cases blocks with
    | nil => simp at hlen
    | cons b blocks =>
      rw [List.zip_cons_cons] at h ⊢
      have hh := h (e, b) (by simp)
      have hb : b.filter p = [] := by
        rw [List.filter_eq_nil_iff]
        intro q hq; simp [hh.2 q hq]
      simp only [List.flatMap_cons, List.filter_append, List.filter_cons, hh.1, if_true, hb]
      rw [ih blocks (by simpa using hlen) (fun pb hpb => h pb (List.mem_cons_of_mem _ hpb))]
      rfl

/-- an element of the interleaving is an `eᵢ` or lies in a block -/
theorem mem_interleave {α : Type} {x : α} {rest : List α} {blocks : List (List α)}
    (h : x ∈ (rest.zip blocks).flatMap (fun pb => pb.1 :: pb.2)) :
    ∃ pb ∈ rest.zip blocks, x = pb.1 ∨ x ∈ pb.2 := by
  obtain ⟨pb, hpb, hx⟩ := List.mem_flatMap.1 h
  exact ⟨pb, hpb, List.mem_cons.1 hx⟩

/-! ### `patternReplacing` -/

theorem replaceForType_eq (kp : List (Str × List (Str × Str))) (ty : Str) :
    ∀ t, replaceForType kp ty t =
      (kp.filter (fun m => Str.isInfix m.1 ty)).foldl (fun t m => applyReplacements t m.2) t := by
  induction kp with
  | nil => intro t; rfl
  | cons m kp ih =>
    intro t
    obtain ⟨sel, reps⟩ := m
    unfold replaceForType at ih ⊢
    rw [List.foldl_cons, List.filter_cons]
    by_cases h : Str.isInfix sel ty = true
    · simp only [h, if_true, List.foldl_cons]; exact ih _
    · simp only [h]; exact ih _

theorem replaceForType_of_no_sel (kp : List (Str × List (Str × Str))) (ty t : Str)
    (h : ∀ m ∈ kp.map (·.1), Str.isInfix m ty = false) : replaceForType kp ty t = t := by
  rw [replaceForType_eq]
  have : kp.filter (fun m => Str.isInfix m.1 ty) = [] := by
    rw [List.filter_eq_nil_iff]
    intro m hm
    simp [h m.1 (List.mem_map.2 ⟨m, hm, rfl⟩)]
  rw [this]; rfl

theorem patternReplacing_eq (ts : List (Str × Str)) (kp : List (Str × List (Str × Str))) :
    patternReplacing ts kp = ts.map (fun p => (p.1, replaceForType kp p.1 p.2)) := rfl

end ConfUtil
