/-
  Spil.Lemmas.Crash — helper lemmas for C17: the exact state after any prefix of the effects of
  the repaired write protocol, and a toy codec.
-/
import Spil.Model.Crash

namespace Crash

theorem crashAfter_zero (f : Files) (effs : List Eff) : crashAfter f effs 0 = f := by
  simp [crashAfter]

/-- writing bytes into an existing temporary file appends them; the target is untouched -/
theorem foldl_writeTmp (t : Option Bytes) (l acc : Bytes) :
    (l.map Eff.writeTmp).foldl applyEff { target := t, tmp := some acc }
      = { target := t, tmp := some (acc ++ l) } := by
  induction l generalizing acc with
  | nil => simp
  | cons b l ih => simp [applyEff, ih]

/-- the state after `j + 1` effects of the repaired write -/
theorem crashAfter_write_succ (f : Files) (new : Bytes) (j : Nat) :
    crashAfter f (writeEffects new) (j + 1)
      = if j ≤ new.length + 1 then { target := f.target, tmp := some (new.take j) }
        else { target := some new, tmp := none } := by
  unfold crashAfter writeEffects
  rw [List.cons_append, List.take_succ_cons, List.foldl_cons, List.take_append, List.foldl_append, ← List.map_take]
  have h0 : applyEff f Eff.createTmp = { target := f.target, tmp := some [] } := rfl
  rw [h0, foldl_writeTmp]
  simp only [List.length_map, List.nil_append]
  by_cases h1 : j ≤ new.length
  · have : j - new.length = 0 := by omega
    have h2 : j ≤ new.length + 1 := by omega
    simp [this, h2]
  · by_cases h2 : j = new.length + 1
    · have : j - new.length = 1 := by omega
      have h3 : j ≤ new.length + 1 := by omega
      simp [this, h3, applyEff]
    · have h3 : ¬ j ≤ new.length + 1 := by omega
      obtain ⟨m, hm⟩ : ∃ m, j - new.length = m + 2 := ⟨j - new.length - 2, by omega⟩
      have h4 : new.take j = new := List.take_of_length_le (by omega)
      simp [hm, h3, applyEff, h4]

theorem writeEffects_length (new : Bytes) : (writeEffects new).length = new.length + 3 := by
  simp [writeEffects]

theorem crashAfter_write_full (f : Files) (new : Bytes) :
    crashAfter f (writeEffects new) (writeEffects new).length = { target := some new, tmp := none } := by
  rw [writeEffects_length, crashAfter_write_succ]
  have : ¬ new.length + 2 ≤ new.length + 1 := by omega
  simp [this]

theorem crashAfter_write_target (f : Files) (new : Bytes) (k : Nat) :
    (crashAfter f (writeEffects new) k).target = f.target ∨
    (crashAfter f (writeEffects new) k).target = some new := by
  cases k with
  | zero => left; rw [crashAfter_zero]
  | succ j =>
    rw [crashAfter_write_succ]
    split
    · left; rfl
    · right; rfl

/-- `mergedBytes` and hence `setData` only look at the target -/
theorem setData_eq {D} [Inhabited D] (c : Codec D) (overlay : D → D → D) (f : Files) (attrs : D) :
    setData c overlay f attrs
      = (mergedBytes c overlay f attrs).map (fun new => { target := some new, tmp := none }) := by
  unfold setData
  congr 1
  funext new
  exact crashAfter_write_full f new

theorem readData_enc {D} [Inhabited D] (c : Codec D) (d : D) (t : Option Bytes) :
    readData c { target := some (c.encode d), tmp := t } = d := by
  simp [readData, c.dec_enc]

/-- a `set` on a state whose sidecar is absent or valid succeeds and stores the overlay -/
theorem setData_valid {D} [Inhabited D] (c : Codec D) (overlay : D → D → D) (g : Files)
    (hvalid : g.target = none ∨ ∃ x, g.target = some (c.encode x)) (attrs : D) :
    ∃ f', setData c overlay g attrs = some f' ∧
      (g.target = none → readData c f' = attrs) ∧
      (g.target ≠ none → readData c f' = overlay (readData c g) attrs) := by
  rw [setData_eq]
  rcases hvalid with h | ⟨x, h⟩
  · refine ⟨{ target := some (c.encode attrs), tmp := none }, ?_, ?_, ?_⟩
    · simp [mergedBytes, h]
    · intro _; exact readData_enc c attrs none
    · intro hne; exact absurd h hne
  · refine ⟨{ target := some (c.encode (overlay x attrs)), tmp := none }, ?_, ?_, ?_⟩
    · simp [mergedBytes, h, c.dec_enc]
    · intro hn; rw [h] at hn; cases hn
    · intro _
      rw [readData_enc]
      simp [readData, h, c.dec_enc]

/-! ### a toy codec -/

def toyEnc (d : List Nat) : Bytes := d.map (· + 1) ++ [0]

def toyDec : Bytes → Option (List Nat)
  | [] => none
  | 0 :: rest => if rest = [] then some [] else none
  | (n + 1) :: rest => (toyDec rest).map (n :: ·)

theorem toyDec_enc (d : List Nat) : toyDec (toyEnc d) = some d := by
  induction d with
  | nil => simp [toyEnc, toyDec]
  | cons x xs ih =>
    have : toyEnc (x :: xs) = (x + 1) :: toyEnc xs := by simp [toyEnc]
    rw [this, toyDec, ih]; rfl

theorem toyDec_prefix (d : List Nat) (k : Nat) (h : k < (toyEnc d).length) :
    toyDec ((toyEnc d).take k) = none := by
  induction d generalizing k with
  | nil =>
    have : k = 0 := by simp [toyEnc] at h; omega
    subst this; simp [toyDec]
  | cons x xs ih =>
    have e : toyEnc (x :: xs) = (x + 1) :: toyEnc xs := by simp [toyEnc]
    rw [e] at h ⊢
    cases k with
    | zero => simp [toyDec]
    | succ k =>
      rw [List.take_succ_cons, toyDec, ih k (by simpa using h)]; rfl

end Crash
