/-
  Spil.Lemmas.Upd — helper lemmas for C04 / C14: `Dict.set` / `Dict.get` / `Dict.erase` /
  `Dict.update` algebra, the overlay loops of `query_helper.update` and `get_with`, what
  `format_*` computes on an arbitrary dictionary with distinct keys, the `to_string` / `to_dict`
  round trip, and insertion sort with respect to a pulled-back strict total order.
-/
import Spil.Lemmas.Hier
import Spil.Lemmas.Lst

namespace UpdL

open Spec SidL HierL

/-! ### `Dict.get` / `Dict.set` / `Dict.hasKey` / `Dict.erase` / `Dict.update` -/

theorem get_cons (k' v' : Str) (d : Dict) (k : Str) :
    Dict.get ((k', v') :: d) k = if k = k' then some v' else Dict.get d k := by
  simp only [Dict.get, List.lookup_cons]
  by_cases h : k = k'
  · simp [h]
  · have : (k == k') = false := by simpa using h
    simp [h, this]

theorem get_set (d : Dict) (k v k' : Str) :
    (Dict.set d k v).get k' = if k' = k then some v else d.get k' := by
  induction d with
  | nil => simp [Dict.set, Dict.get]
  | cons p d ih =>
    obtain ⟨k0, v0⟩ := p
    simp only [Dict.set]
    by_cases h0 : k0 = k
    · subst h0
      simp only [beq_self_eq_true, if_true, get_cons]
      by_cases h : k' = k0 <;> simp [h]
    · have : (k0 == k) = false := by simpa using h0
      simp only [this, Bool.false_eq_true, if_false, get_cons, ih]
      by_cases h : k' = k0
      · have : k' ≠ k := by rw [h]; exact h0
        simp [h, h0]
      · simp [h]

theorem hasKey_iff_mem (d : Dict) (k : Str) : d.hasKey k = true ↔ k ∈ d.map (·.1) := by
  simp only [Dict.hasKey, List.any_eq_true, beq_iff_eq, List.mem_map]

theorem get_isSome_iff (d : Dict) (k : Str) : (d.get k).isSome = true ↔ k ∈ d.map (·.1) := by
  induction d with
  | nil => simp [Dict.get]
  | cons p d ih =>
    obtain ⟨k0, v0⟩ := p
    rw [get_cons]
    by_cases h : k = k0
    · simp [h]
    · simp only [h, if_false, ih, List.map_cons, List.mem_cons, false_or]

theorem hasKey_eq_isSome (d : Dict) (k : Str) : d.hasKey k = (d.get k).isSome := by
  rw [Bool.eq_iff_iff, hasKey_iff_mem, get_isSome_iff]

theorem get_eq_none_iff (d : Dict) (k : Str) : d.get k = none ↔ k ∉ d.map (·.1) := by
  rw [← get_isSome_iff]
  cases d.get k <;> simp

theorem hasKey_false_get (d : Dict) (k : Str) (h : d.hasKey k = false) : d.get k = none := by
  rw [hasKey_eq_isSome] at h
  cases hg : d.get k with
  | none => rfl
  | some _ => rw [hg] at h; simp at h

theorem hasKey_set (d : Dict) (k v k' : Str) :
    (Dict.set d k v).hasKey k' = (decide (k' = k) || d.hasKey k') := by
  rw [hasKey_eq_isSome, hasKey_eq_isSome, get_set]
  by_cases h : k' = k <;> simp [h]

theorem keys_set (d : Dict) (k v : Str) :
    (Dict.set d k v).map (·.1) = if k ∈ d.map (·.1) then d.map (·.1) else d.map (·.1) ++ [k] := by
  induction d with
  | nil => simp [Dict.set]
  | cons p d ih =>
    obtain ⟨k0, v0⟩ := p
    simp only [Dict.set]
    by_cases h0 : k0 = k
    · subst h0; simp
    · have hb : (k0 == k) = false := by simpa using h0
      have h0' : ¬ k = k0 := fun e => h0 e.symm
      simp only [hb, Bool.false_eq_true, if_false, List.map_cons, ih, List.mem_cons, h0', false_or]
      split <;> simp

theorem set_nodup (d : Dict) (k v : Str) (h : (d.map (·.1)).Nodup) :
    ((Dict.set d k v).map (·.1)).Nodup := by
  rw [keys_set]
  split
  · exact h
  · next hk =>
    rw [List.nodup_append]
    refine ⟨h, by simp, ?_⟩
    intro a ha b hb
    simp only [List.mem_singleton] at hb
    subst hb
    intro e; subst e; exact hk ha

theorem update_nodup (pairs : List (Str × Str)) : ∀ (d : Dict), (d.map (·.1)).Nodup →
    ((Dict.update d pairs).map (·.1)).Nodup := by
  induction pairs with
  | nil => intro d h; exact h
  | cons p ps ih =>
    intro d h
    simp only [Dict.update, List.foldl_cons]
    exact ih _ (set_nodup d p.1 p.2 h)

theorem ofPairs_nodup (pairs : List (Str × Str)) : ((Dict.ofPairs pairs).map (·.1)).Nodup :=
  update_nodup pairs [] (by simp)

theorem get_erase (d : Dict) (k k' : Str) :
    (Dict.erase d k).get k' = if k' = k then none else d.get k' := by
  induction d with
  | nil => simp [Dict.erase, Dict.get]
  | cons p d ih =>
    obtain ⟨k0, v0⟩ := p
    simp only [Dict.erase, List.filter_cons] at ih ⊢
    by_cases h0 : k0 = k
    · subst h0
      simp only [bne_self_eq_false, Bool.false_eq_true, if_false, ih, get_cons]
      by_cases h : k' = k0 <;> simp [h]
    · have hb : (k0 != k) = true := by simpa using h0
      simp only [hb, if_true, get_cons, ih]
      by_cases h : k' = k0
      · have : k' ≠ k := by rw [h]; exact h0
        simp [h, h0]
      · simp [h]

theorem erase_nodup (d : Dict) (k : Str) (h : (d.map (·.1)).Nodup) :
    ((Dict.erase d k).map (·.1)).Nodup := by
  unfold Dict.erase
  exact h.sublist (List.Sublist.map _ List.filter_sublist)

/-- `d.update(pairs)`, pointwise, for pairs with distinct keys -/
theorem get_update (pairs : List (Str × Str)) (hn : (pairs.map (·.1)).Nodup) :
    ∀ (d : Dict) (k : Str), (Dict.update d pairs).get k =
      match pairs.lookup k with
      | some v => some v
      | none => d.get k := by
  induction pairs with
  | nil => intro d k; simp [Dict.update]
  | cons p ps ih =>
    obtain ⟨k0, v0⟩ := p
    simp only [List.map_cons, List.nodup_cons] at hn
    intro d k
    simp only [Dict.update, List.foldl_cons] at ih ⊢
    rw [ih hn.2, get_set, List.lookup_cons]
    by_cases h : k = k0
    · subst h
      have : ps.lookup k = none := by
        rw [List.lookup_eq_none_iff]
        intro p hp
        simp only [bne_iff_ne, ne_eq]
        intro e
        exact hn.1 (List.mem_map.mpr ⟨p, hp, e.symm⟩)
      simp [this]
    · have hb : (k == k0) = false := by simpa using h
      simp [h, hb]

/-! ### the overlay of `query_helper.update` -/

theorem updateGo_get (nd : Dict) (hn : (nd.map (·.1)).Nodup) : ∀ (data : Dict) (k : Str),
    (Query.updateGo data nd).get k =
      match nd.get k with
      | none => data.get k
      | some v =>
        if Str.startsWith v ['~'] then (if data.hasKey k then some (v.filter (· != '~')) else none)
        else some v := by
  induction nd with
  | nil => intro data k; simp [Query.updateGo, Dict.get]
  | cons p nd ih =>
    obtain ⟨k0, v0⟩ := p
    simp only [List.map_cons, List.nodup_cons] at hn
    intro data k
    have ih' := ih hn.2
    simp only [Query.updateGo]
    rw [get_cons]
    by_cases hk : k = k0
    · subst hk
      have hnone : Dict.get nd k = none := (get_eq_none_iff nd k).mpr hn.1
      simp only [if_true]
      cases hopt : Str.startsWith v0 ['~'] with
      | true =>
        cases hhas : data.hasKey k with
        | true =>
          simp only [Bool.true_or, if_true, ih', hnone, get_set]
        | false =>
          simp only [Bool.not_true, Bool.or_false, Bool.false_eq_true, if_false, ih', hnone]
          exact hasKey_false_get data k hhas
      | false =>
        simp only [Bool.not_false, Bool.or_true, if_true, Bool.false_eq_true, if_false, ih', hnone,
          get_set]
    · simp only [hk, if_false]
      split
      · rw [ih', get_set, hasKey_set]
        simp only [hk, if_false, decide_false, Bool.false_or]
      · rw [ih']

theorem updateGo_hasKey (nd : Dict) : ∀ (data : Dict) (k : Str), data.hasKey k = true →
    (Query.updateGo data nd).hasKey k = true := by
  induction nd with
  | nil => intro data k h; exact h
  | cons p nd ih =>
    obtain ⟨k0, v0⟩ := p
    intro data k h
    simp only [Query.updateGo]
    split
    · apply ih
      rw [hasKey_set, h, Bool.or_true]
    · exact ih data k h

theorem updateGo_nodup (nd : Dict) : ∀ (data : Dict), (data.map (·.1)).Nodup →
    ((Query.updateGo data nd).map (·.1)).Nodup := by
  induction nd with
  | nil => intro data h; exact h
  | cons p nd ih =>
    obtain ⟨k0, v0⟩ := p
    intro data h
    simp only [Query.updateGo]
    split
    · exact ih _ (set_nodup _ _ _ h)
    · exact ih data h

/-! ### insertion sort with respect to a pulled-back strict total order (a strict weak order) -/

theorem insertBy_pairwise_comap {α β} {lt : β → β → Bool} (h : Lst.STO lt) (f : α → β) (x : α)
    (l : List α) (hl : l.Pairwise (fun a b => lt (f b) (f a) = false)) :
    (Lst.insertBy (fun a b => lt (f a) (f b)) x l).Pairwise (fun a b => lt (f b) (f a) = false) := by
  induction l with
  | nil => simp [Lst.insertBy]
  | cons y ys ih =>
    rw [List.pairwise_cons] at hl
    simp only [Lst.insertBy]; split
    · next hxy =>
      refine List.pairwise_cons.2 ⟨?_, List.pairwise_cons.2 hl⟩
      intro z hz
      rcases List.mem_cons.1 hz with rfl | hz
      · exact h.asymm hxy
      · cases hzx : lt (f z) (f x) with
        | false => rfl
        | true =>
          have := h.trans _ _ _ hzx hxy
          rw [hl.1 z hz] at this
          exact absurd this (by simp)
    · next hxy =>
      refine List.pairwise_cons.2 ⟨?_, ih hl.2⟩
      intro z hz
      rcases (Lst.mem_insertBy _ x z ys).1 hz with rfl | hz
      · simpa using hxy
      · exact hl.1 z hz

/-- sorting by the pull-back of a strict total order along any map: no later item is strictly
    below an earlier one -/
theorem sortBy_pairwise_comap {α β} {lt : β → β → Bool} (h : Lst.STO lt) (f : α → β) (l : List α) :
    (Lst.sortBy (fun a b => lt (f a) (f b)) l).Pairwise (fun a b => lt (f b) (f a) = false) := by
  induction l with
  | nil => simp [Lst.sortBy]
  | cons x xs ih => exact insertBy_pairwise_comap h f x _ ih

/-! ### the keyword overlay of `get_with` -/

theorem popped_get (kw : List (Str × Option Str)) (k : Str) : ∀ (d : Dict),
    (kw.foldl (fun d (p : Str × Option Str) => if p.2.isNone then Dict.erase d p.1 else d) d).get k =
      if (k, none) ∈ kw then none else d.get k := by
  induction kw with
  | nil => intro d; simp
  | cons p kw ih =>
    obtain ⟨k0, o⟩ := p
    intro d
    simp only [List.foldl_cons, ih, List.mem_cons, Prod.mk.injEq]
    cases o with
    | none =>
      simp only [Option.isNone_none, if_true, get_erase, and_true]
      by_cases h : k = k0
      · simp [h]
      · simp [h]
    | some v => simp

theorem popped_nodup (kw : List (Str × Option Str)) : ∀ (d : Dict), (d.map (·.1)).Nodup →
    ((kw.foldl (fun d (p : Str × Option Str) => if p.2.isNone then Dict.erase d p.1 else d) d).map (·.1)).Nodup := by
  induction kw with
  | nil => intro d h; exact h
  | cons p kw ih =>
    intro d h
    simp only [List.foldl_cons]
    apply ih
    split
    · exact erase_nodup _ _ h
    · exact h

theorem kwPairs_keys_sub (kw : List (Str × Option Str)) :
    ((kw.filterMap (fun (p : Str × Option Str) => p.2.map (fun v => (p.1, v)))).map (·.1)).Sublist
      (kw.map (·.1)) := by
  induction kw with
  | nil => simp
  | cons p kw ih =>
    obtain ⟨k0, o⟩ := p
    cases o with
    | none => simpa [List.filterMap_cons] using ih.trans (List.sublist_cons_self _ _)
    | some v => simpa [List.filterMap_cons] using ih

theorem kwPairs_lookup (kw : List (Str × Option Str)) (hn : (kw.map (·.1)).Nodup) (k : Str) :
    (kw.filterMap (fun (p : Str × Option Str) => p.2.map (fun v => (p.1, v)))).lookup k =
      (kw.lookup k).join := by
  induction kw with
  | nil => simp
  | cons p kw ih =>
    obtain ⟨k0, o⟩ := p
    simp only [List.map_cons, List.nodup_cons] at hn
    have ih' := ih hn.2
    cases o with
    | none =>
      simp only [List.filterMap_cons, Option.map_none, List.lookup_cons, ih']
      by_cases h : k = k0
      · subst h
        have : kw.lookup k = none := by
          rw [List.lookup_eq_none_iff]
          intro p hp
          simp only [bne_iff_ne, ne_eq]
          intro e
          exact hn.1 (List.mem_map.mpr ⟨p, hp, e.symm⟩)
        simp [this]
      · have hb : (k == k0) = false := by simpa using h
        simp [hb]
    | some v =>
      simp only [List.filterMap_cons, Option.map_some, List.lookup_cons, ih']
      by_cases h : k = k0
      · simp [h]
      · have hb : (k == k0) = false := by simpa using h
        simp [hb]

theorem lookup_mem {α} (kw : List (Str × α)) (k : Str) (v : α) (h : kw.lookup k = some v) :
    (k, v) ∈ kw := by
  induction kw with
  | nil => simp at h
  | cons p kw ih =>
    obtain ⟨k0, v0⟩ := p
    rw [List.lookup_cons] at h
    cases hb : k == k0 with
    | true =>
      rw [hb] at h
      simp at h hb
      simp [h, hb]
    | false =>
      rw [hb] at h
      simp [ih h]

theorem overlayKw_eq (fields : Dict) (kw : List (Str × Option Str)) :
    Ctx.overlayKw fields kw =
      Dict.update (kw.foldl (fun d (p : Str × Option Str) => if p.2.isNone then Dict.erase d p.1 else d) fields)
        (kw.filterMap (fun (p : Str × Option Str) => p.2.map (fun v => (p.1, v)))) := rfl

theorem overlayKw_get (fields : Dict) (kw : List (Str × Option Str)) (hn : (kw.map (·.1)).Nodup)
    (k : Str) :
    (Ctx.overlayKw fields kw).get k =
      match kw.lookup k with
      | some (some v) => some v
      | some none => none
      | none => fields.get k := by
  rw [overlayKw_eq, get_update _ (hn.sublist (kwPairs_keys_sub kw)), kwPairs_lookup kw hn, popped_get]
  cases hl : kw.lookup k with
  | none =>
    have : (k, (none : Option Str)) ∉ kw := by
      intro hm
      rw [List.lookup_eq_none_iff] at hl
      have := hl _ hm
      simp at this
    simp [this]
  | some o =>
    cases o with
    | none => simp [lookup_mem kw k none hl]
    | some v => simp

theorem overlayKw_nodup (fields : Dict) (kw : List (Str × Option Str)) (hf : (fields.map (·.1)).Nodup) :
    ((Ctx.overlayKw fields kw).map (·.1)).Nodup := by
  rw [overlayKw_eq]
  exact update_nodup _ _ (popped_nodup kw fields hf)

/-! ### `format_*` on an arbitrary dictionary with distinct keys -/

theorem lookup_map_graph (K : List Str) (f : Str → Str) (k : Str) :
    List.lookup k (K.map (fun x => (x, f x))) = if k ∈ K then some (f k) else none := by
  induction K with
  | nil => simp
  | cons x K ih =>
    simp only [List.map_cons, List.lookup_cons, ih, List.mem_cons]
    by_cases h : k = x
    · simp [h]
    · have hb : (k == x) = false := by simpa using h
      simp [hb, h]

/-- the values of `ov` listed in the order of `K`, zipped back with `K`: the same mapping as `ov`
    when `K` is the key set of `ov` -/
theorem zip_vals_get (ov : Dict) (K : List Str) (hkeys : ∀ k, k ∈ ov.map (·.1) ↔ k ∈ K) (k : Str) :
    Dict.get (K.zip (K.map (fun k => (ov.get k).getD []))) k = ov.get k := by
  rw [← List.map_prod_left_eq_zip]
  simp only [Dict.get]
  rw [lookup_map_graph]
  by_cases h : k ∈ K
  · simp only [h, if_true]
    have := (get_isSome_iff ov k).mpr ((hkeys k).mpr h)
    simp only [Dict.get] at this
    cases hg : List.lookup k ov with
    | none => rw [hg] at this; simp at this
    | some v => simp
  · simp only [h, if_false]
    have := (get_eq_none_iff ov k).mpr (fun hm => h ((hkeys k).mp hm))
    simp only [Dict.get] at this
    exact this.symm

/-- a dictionary with distinct keys whose key set is that of a configured template is a
    reordering of the template's keys zipped with the values in template order -/
theorem dictOf_of_keysEq (ts : List (Str × Template)) (ov : Dict) (hnd : (ov.map (·.1)).Nodup)
    (a : Str × Template) (ha : a ∈ ts) (hK : (keysOf a.2).Nodup)
    (hk : Dict.keysEq ov (keysOf a.2) = true) :
    DictOf ts (keysOf a.2) ((keysOf a.2).map (fun k => (ov.get k).getD [])) ov := by
  rw [keysEq_iff] at hk
  refine ⟨hK, by simp, ?_, ⟨a, ha, rfl⟩⟩
  have nodup_of_map : ∀ (l : Dict), (l.map (·.1)).Nodup → l.Nodup := fun l h =>
    List.Pairwise.of_map (S := fun x y => x ≠ y) (·.1) (fun a b h e => h (congrArg _ e)) h
  have hnd1 : ov.Nodup := nodup_of_map _ hnd
  have hnd2 : ((keysOf a.2).zip ((keysOf a.2).map (fun k => (ov.get k).getD []))).Nodup := by
    apply nodup_of_map
    rw [List.map_fst_zip (by simp)]
    exact hK
  rw [List.perm_ext_iff_of_nodup hnd1 hnd2]
  rintro ⟨k, v⟩
  rw [← List.map_prod_left_eq_zip]
  simp only [List.mem_map, Prod.mk.injEq]
  constructor
  · intro hm
    have hg := get_of_mem ov hnd k v hm
    refine ⟨k, (hk k).mp (List.mem_map.mpr ⟨(k, v), hm, rfl⟩), rfl, ?_⟩
    rw [hg]; rfl
  · rintro ⟨k', hk', rfl, rfl⟩
    obtain ⟨p, hp, hpk⟩ := List.mem_map.mp ((hk k').mpr hk')
    obtain ⟨pk, pv⟩ := p
    simp only at hpk
    subst hpk
    rw [get_of_mem ov hnd pk pv hp]
    exact hp

/-- no template has the key set of `p`: `dict_to_type` finds nothing -/
theorem formatAllGo_nil (e : Env) (R : Resolver) (p : Dict) (ts : List (Str × Template))
    (H : ∀ a ∈ ts, sidTplOk e a.2 = true ∧ Dict.keysEq p (keysOf a.2) = false) :
    Resolver.formatAllGo e R p ts = .ok [] := by
  induction ts with
  | nil => simp [Resolver.formatAllGo]
  | cons a ts ih =>
    obtain ⟨l, t⟩ := a
    obtain ⟨hwf, hk⟩ := H (l, t) (by simp)
    simp only [Resolver.formatAllGo, ih (fun a ha => H a (by simp [ha])),
      formatTpl_none e R l t hwf p hk]

theorem dictToTypes_nil (c : Ctx) (hwf : sidHierOk c.env c.cfg.sid.templates = true) (p : Dict)
    (h : ∀ a ∈ c.cfg.sid.templates, Dict.keysEq p (keysOf a.2) = false) :
    c.dictToTypes p = .ok [] := by
  obtain ⟨h1, _, _, _⟩ := hier_unpack _ _ hwf
  have H := tableOk_unpack _ _ h1
  unfold Ctx.dictToTypes Resolver.formatAll
  have hts : c.sidR.templates = c.cfg.sid.templates := rfl
  rw [hts, formatAllGo_nil c.env c.sidR p _ (fun a ha => ⟨(H a ha).1, h a ha⟩)]
  simp only [ite_self, List.map_nil]

/-- rendering `p` through a template with its key list that accepts the joined values, and
    reading the rendered string back under that type -/
theorem applied_eq (c : Ctx) (hwf : sidHierOk c.env c.cfg.sid.templates = true)
    (K vals : List Str) (p : Dict) (hd : DictOf c.cfg.sid.templates K vals p) (hK : K ≠ [])
    (hsl : ∀ v ∈ vals, '/' ∉ v) (hr : renderable (Str.joinWith '/' vals))
    (b : Str × Template) (hb : b ∈ c.cfg.sid.templates) (hbK : keysOf b.2 = K)
    (hacc : accepts c.env b.2 (Str.joinWith '/' vals) = true) :
    c.dictToSidStr p b.1 = .ok (Str.joinWith '/' vals) ∧
    c.sidToDict (Str.joinWith '/' vals) (some b.1) = .ok (some (b.1, K.zip vals)) ∧
    wellTyped c.env c.cfg.sid.templates ⟨Str.joinWith '/' vals, b.1, K.zip vals⟩ := by
  obtain ⟨h1, _, _, _⟩ := hier_unpack _ _ hwf
  have H := tableOk_unpack _ _ h1
  have hp : p.isEmpty = false := by simp [hd.ne_nil hK]
  obtain ⟨l, t⟩ := b
  simp only at hbK hacc ⊢
  have hlne : l ≠ [] := tableOk_label_ne _ _ h1 (l, t) hb
  have hl : c.sidR.lookup l = some t := (H (l, t) hb).2
  have hwt : sidTplOk c.env t = true := (H (l, t) hb).1
  have hk : Dict.keysEq p (keysOf t) = true := by rw [keysEq_iff, hbK]; exact hd.keys
  have hfmt := formatTpl_eq c.env c.sidR rfl l t hl hwt p vals (by rw [hbK]; exact hd.len)
    (by rw [hbK]; exact hd.get) hk hr
  rw [hacc] at hfmt
  have hvne : vals ≠ [] := by
    intro h0
    have := hd.len
    rw [h0] at this
    cases K with
    | nil => exact hK rfl
    | cons _ _ => simp at this
  have hsplit : Str.splitOn '/' (Str.joinWith '/' vals) = vals := Str.split_join '/' vals hvne hsl
  have hl' : c.cfg.sid.templates.lookup l = some t := hl
  refine ⟨?_, ?_, ?_⟩
  · unfold Ctx.dictToSidStr Resolver.formatOne
    have hle : l.isEmpty = false := by simp [hlne]
    simp only [hp, hle, Bool.false_eq_true, if_false, hl, hfmt, if_true, Option.getD_some]
  · rw [sidToDict_forced c h1 l _ hlne]
    unfold forcedDict
    have hne' : (Str.joinWith '/' vals).isEmpty = false := by simp [hr.1]
    simp only [hl', hne', hacc, Bool.not_false, Bool.and_self, if_true]
    unfold fieldsOf
    rw [hsplit]
    change Except.ok (some (l, (keysOf t).zip vals)) = _
    rw [hbK]
  · refine ⟨t, hl', hr.1, hacc, ?_⟩
    show K.zip vals = (keysOf t).zip (Str.splitOn '/' (Str.joinWith '/' vals))
    rw [hsplit, hbK]

/-- everything the update theorems need about an overlaid dictionary `ov` with distinct keys whose
    key set is that of the configured template `a` -/
theorem overlay_facts (c : Ctx) (hwf : sidHierOk c.env c.cfg.sid.templates = true) (ov : Dict)
    (hnd : (ov.map (·.1)).Nodup) (hslash : ∀ p ∈ ov, '/' ∉ p.2)
    (a : Str × Template) (ha : a ∈ c.cfg.sid.templates)
    (hk : Dict.keysEq ov (keysOf a.2) = true) :
    DictOf c.cfg.sid.templates (keysOf a.2) ((keysOf a.2).map (fun k => (ov.get k).getD [])) ov ∧
    keysOf a.2 ≠ [] ∧ (∀ v ∈ (keysOf a.2).map (fun k => (ov.get k).getD []), '/' ∉ v) ∧
    (∀ k, Dict.get ((keysOf a.2).zip ((keysOf a.2).map (fun k => (ov.get k).getD []))) k = ov.get k) ∧
    ((keysOf a.2).zip ((keysOf a.2).map (fun k => (ov.get k).getD []))).length = ov.length := by
  obtain ⟨h1, _, _, _⟩ := hier_unpack _ _ hwf
  have H := tableOk_unpack _ _ h1
  obtain ⟨_, hKnd, hKne, _, _⟩ := tplOk_unpack c.env a.2 (H a ha).1
  have hd := dictOf_of_keysEq c.cfg.sid.templates ov hnd a ha hKnd hk
  refine ⟨hd, by simpa [keysOf] using hKne, ?_, zip_vals_get ov _ ((keysEq_iff _ _).mp hk),
    hd.perm.length_eq.symm⟩
  intro v hv
  obtain ⟨k, hkK, rfl⟩ := List.mem_map.mp hv
  obtain ⟨p, hp, hpk⟩ := List.mem_map.mp (((keysEq_iff _ _).mp hk k).mpr hkK)
  obtain ⟨pk, pv⟩ := p
  simp only at hpk
  subst hpk
  rw [get_of_mem ov hnd pk pv hp]
  exact hslash _ hp

/-! ### `to_string` / `to_dict` round trip -/

theorem set_append_new (d : Dict) (k v : Str) (h : k ∉ d.map (·.1)) :
    Dict.set d k v = d ++ [(k, v)] := by
  induction d with
  | nil => rfl
  | cons p d ih =>
    obtain ⟨k0, v0⟩ := p
    simp only [List.map_cons, List.mem_cons, not_or] at h
    have hb : (k0 == k) = false := by simpa using fun e => h.1 e.symm
    simp only [Dict.set, hb, Bool.false_eq_true, if_false, ih h.2, List.cons_append]

/-- `d.update(pairs)` appends the pairs when their keys are new and distinct -/
theorem update_append (pairs : List (Str × Str)) : ∀ (d : Dict), (pairs.map (·.1)).Nodup →
    (∀ k ∈ pairs.map (·.1), k ∉ d.map (·.1)) → Dict.update d pairs = d ++ pairs := by
  induction pairs with
  | nil => intro d _ _; simp [Dict.update]
  | cons p ps ih =>
    obtain ⟨k0, v0⟩ := p
    intro d hn hd
    simp only [List.map_cons, List.nodup_cons] at hn
    simp only [Dict.update, List.foldl_cons] at ih ⊢
    rw [set_append_new d k0 v0 (hd k0 (by simp))]
    rw [ih _ hn.2]
    · simp
    · intro k hk
      simp only [List.map_append, List.map_cons, List.map_nil, List.mem_append, List.mem_singleton,
        not_or]
      refine ⟨hd k (by simp [hk]), ?_⟩
      intro e; subst e; exact hn.1 hk

theorem ofPairs_self (d : Dict) (hn : (d.map (·.1)).Nodup) : Dict.ofPairs d = d := by
  unfold Dict.ofPairs
  rw [update_append d [] hn (by simp)]
  simp

/-- without optional values the overlay loop is `dict.update` -/
theorem updateGo_eq_update (nd : Dict) (h : ∀ p ∈ nd, Str.startsWith p.2 ['~'] = false) :
    ∀ (data : Dict), Query.updateGo data nd = Dict.update data nd := by
  induction nd with
  | nil => intro data; rfl
  | cons p nd ih =>
    obtain ⟨k0, v0⟩ := p
    intro data
    have h0 : Str.startsWith v0 ['~'] = false := h (k0, v0) (by simp)
    simp only [Query.updateGo, h0, Bool.not_false, Bool.or_true, if_true, Bool.false_eq_true, if_false,
      Dict.update, List.foldl_cons]
    exact ih (fun p hp => h p (by simp [hp])) _

theorem mem_joinWith (sep : Char) (ps : List Str) (ch : Char) (h : ch ∈ Str.joinWith sep ps) :
    ch = sep ∨ ∃ p ∈ ps, ch ∈ p := by
  induction ps with
  | nil => simp [Str.joinWith] at h
  | cons p ps ih =>
    cases ps with
    | nil => right; exact ⟨p, by simp, by simpa [Str.joinWith] using h⟩
    | cons q qs =>
      simp only [Str.joinWith, List.mem_append, List.mem_cons] at h
      rcases h with h | h | h
      · right; exact ⟨p, by simp, h⟩
      · left; exact h
      · rcases ih h with h | ⟨p', hp', h⟩
        · left; exact h
        · right; exact ⟨p', by simp [hp'], h⟩

theorem joinWith_last (sep : Char) (ps : List Str) (h : ps ≠ []) :
    ∃ a, Str.joinWith sep ps = a ++ ps.getLast h := by
  induction ps with
  | nil => exact absurd rfl h
  | cons p ps ih =>
    cases ps with
    | nil => exact ⟨[], by simp [Str.joinWith]⟩
    | cons q qs =>
      obtain ⟨a, ha⟩ := ih (by simp)
      refine ⟨p ++ sep :: a, ?_⟩
      simp only [Str.joinWith, ha, List.getLast_cons_cons, List.append_assoc, List.cons_append]

theorem joinWith_head (sep : Char) (p : Str) (ps : List Str) :
    ∃ b, Str.joinWith sep (p :: ps) = p ++ b := by
  cases ps with
  | nil => exact ⟨[], by simp [Str.joinWith]⟩
  | cons q qs => exact ⟨sep :: Str.joinWith sep (q :: qs), rfl⟩

theorem cutFragment_id (s : Str) (h : '#' ∉ s) : Query.cutFragment s = s := by
  induction s with
  | nil => rfl
  | cons c cs ih =>
    simp only [List.mem_cons, not_or] at h
    have hb : (c == '#') = false := by simpa using fun e => h.1 e.symm
    simp only [Query.cutFragment, hb, Bool.false_eq_true, if_false, ih h.2]

theorem parsePairs_pieces (d : Dict) (h : ∀ p ∈ d, p.2 ≠ [] ∧ '=' ∉ p.1) :
    Query.parsePairs (d.map (fun p => p.1 ++ '=' :: p.2)) = d := by
  induction d with
  | nil => rfl
  | cons p d ih =>
    obtain ⟨k, v⟩ := p
    obtain ⟨hv, hk⟩ := h (k, v) (by simp)
    simp only at hv hk
    have hve : v.isEmpty = false := by simp [hv]
    simp only [List.map_cons, Query.parsePairs, Str.split1_some '=' k v hk, hve, Bool.false_eq_true,
      if_false, ih (fun p hp => h p (by simp [hp]))]

theorem toDict_clean (q : Str) (hoom : Query.outOfModel q = false)
    (hmap : q.map (fun c => if c == '?' then '&' else c) = q)
    (hhead : ∃ c r, q = c :: r ∧ c ≠ '&') (hend : Str.endsWith q ['&'] = false) :
    Query.toDict q = .ok (Dict.ofPairs (Query.parsePairs (Str.splitOn '&' (Query.cutFragment
      (q.filter (fun c => c != '\t' && c != '\r' && c != '\n')))))) := by
  obtain ⟨c0, r0, rfl, hc0⟩ := hhead
  unfold Query.toDict
  simp only [hoom, Bool.false_eq_true, if_false, hmap]
  split
  · next heq => simp at heq; exact absurd heq.1 hc0
  · simp only [hend, Bool.false_eq_true, if_false]

/-- characters a query string is parsed through unchanged -/
def plain (ch : Char) : Prop :=
  ch ∉ ['&', '=', '#', '?', '%', '+', ' ', '\t', '\r', '\n', '~']

/-- `to_dict(to_string(d)) = d` for a non-empty dictionary with distinct non-empty keys and
    non-empty values made of plain characters -/
theorem toDict_toString (d : Dict) (hne : d ≠ []) (hnd : (d.map (·.1)).Nodup)
    (hv : ∀ p ∈ d, p.2 ≠ [] ∧ p.1 ≠ [] ∧ ∀ ch ∈ p.1 ++ p.2, plain ch) :
    Query.toString d = Str.joinWith '&' (d.map (fun p => p.1 ++ '=' :: p.2)) ∧
    Query.toDict (Query.toString d) = .ok d := by
  have hstr : Query.toString d = Str.joinWith '&' (d.map (fun p => p.1 ++ '=' :: p.2)) := by
    unfold Query.toString
    congr 1
    apply List.map_congr_left
    rintro ⟨k, v⟩ hp
    have h := (hv _ hp).2.2
    simp only at h ⊢
    have e1 : Query.noSpace k = k := by
      apply List.filter_eq_self.2
      intro ch hch
      have := h ch (by simp [hch])
      simp only [plain, List.mem_cons, not_or] at this
      simpa using this.2.2.2.2.2.2.1
    have e2 : Query.noSpace v = v := by
      apply List.filter_eq_self.2
      intro ch hch
      have := h ch (by simp [hch])
      simp only [plain, List.mem_cons, not_or] at this
      simpa using this.2.2.2.2.2.2.1
    rw [e1, e2]
  refine ⟨hstr, ?_⟩
  rw [hstr]
  generalize hq : Str.joinWith '&' (d.map (fun p => p.1 ++ '=' :: p.2)) = q
  -- the characters of the query string
  have hch : ∀ ch ∈ q, ch ∉ ['#', '?', '%', '+', '\t', '\r', '\n'] := by
    intro ch hm
    rw [← hq] at hm
    rcases mem_joinWith _ _ _ hm with h | ⟨p, hp, h⟩
    · subst h; decide
    · obtain ⟨⟨k, v⟩, hkv, rfl⟩ := List.mem_map.mp hp
      simp only [List.mem_append, List.mem_cons] at h
      have hpl := (hv _ hkv).2.2
      simp only at hpl
      rcases h with h | h | h
      · have := hpl ch (by simp [h])
        simp only [plain, List.mem_cons, not_or] at this ⊢
        simp [this]
      · subst h; decide
      · have := hpl ch (by simp [h])
        simp only [plain, List.mem_cons, not_or] at this ⊢
        simp [this]
  have hoom : Query.outOfModel q = false := by
    unfold Query.outOfModel
    rw [List.any_eq_false]
    intro ch hm
    have := hch ch hm
    simp only [List.mem_cons, not_or] at this
    simp [this]
  have hmap : q.map (fun c => if c == '?' then '&' else c) = q := by
    conv => rhs; rw [← List.map_id q]
    apply List.map_congr_left
    intro ch hm
    have := hch ch hm
    simp only [List.mem_cons, not_or] at this
    simp [this]
  have hfilt : q.filter (fun c => c != '\t' && c != '\r' && c != '\n') = q := by
    apply List.filter_eq_self.2
    intro ch hm
    have := hch ch hm
    simp only [List.mem_cons, not_or] at this
    simp [this]
  have hcut : Query.cutFragment q = q := by
    apply cutFragment_id
    intro hm
    have := hch _ hm
    simp at this
  -- first and last character
  obtain ⟨p0, d', rfl⟩ : ∃ p0 d', d = p0 :: d' := by
    cases d with
    | nil => exact absurd rfl hne
    | cons p0 d' => exact ⟨p0, d', rfl⟩
  have hhead : ∃ c r, q = c :: r ∧ c ≠ '&' := by
    obtain ⟨hv0, hk0, hpl⟩ := hv p0 (by simp)
    obtain ⟨b, hb⟩ := joinWith_head '&' (p0.1 ++ '=' :: p0.2) (d'.map (fun p => p.1 ++ '=' :: p.2))
    rw [List.map_cons, hb] at hq
    cases hk : p0.1 with
    | nil => exact absurd hk hk0
    | cons c k' =>
      refine ⟨c, k' ++ '=' :: p0.2 ++ b, ?_, ?_⟩
      · rw [← hq, hk]; simp
      · have := hpl c (by simp [hk])
        simp only [plain, List.mem_cons, not_or] at this
        exact this.1
  have hend : Str.endsWith q ['&'] = false := by
    have hne' : (p0 :: d').map (fun p => p.1 ++ '=' :: p.2) ≠ [] := by simp
    obtain ⟨a, ha⟩ := joinWith_last '&' _ hne'
    rw [hq] at ha
    rw [List.getLast_map] at ha
    · have hlm : (p0 :: d').getLast (by simp) ∈ p0 :: d' := List.getLast_mem _
      obtain ⟨hvl, _, hpl⟩ := hv _ hlm
      generalize (p0 :: d').getLast (by simp) = pl at ha hvl hpl
      rcases List.eq_nil_or_concat pl.2 with h | ⟨v', c, h⟩
      · exact absurd h hvl
      · have hc : c ≠ '&' := by
          have := hpl c (by simp [h])
          simp only [plain, List.mem_cons, not_or] at this
          exact this.1
        have : q = (a ++ pl.1 ++ '=' :: v') ++ [c] := by rw [ha, h]; simp
        rw [this]
        unfold Str.endsWith
        simp only [List.reverse_append, List.reverse_cons, List.reverse_nil, List.nil_append,
          List.cons_append, List.isPrefixOf]
        have : ('&' == c) = false := by simpa using fun e => hc e.symm
        simp [this]
  have hsplit : Str.splitOn '&' q = (p0 :: d').map (fun p => p.1 ++ '=' :: p.2) := by
    rw [← hq]
    apply Str.split_join
    · simp
    · intro p hp
      obtain ⟨⟨k, v⟩, hkv, rfl⟩ := List.mem_map.mp hp
      have hpl := (hv _ hkv).2.2
      simp only at hpl ⊢
      intro hm
      simp only [List.mem_append, List.mem_cons] at hm
      rcases hm with h | h | h
      · have := hpl '&' (by simp [h]); simp [plain] at this
      · exact absurd h (by decide)
      · have := hpl '&' (by simp [h]); simp [plain] at this
  have hparse : Query.parsePairs ((p0 :: d').map (fun p => p.1 ++ '=' :: p.2)) = p0 :: d' := by
    apply parsePairs_pieces
    intro p hp
    refine ⟨(hv p hp).1, ?_⟩
    intro hm
    have := (hv p hp).2.2 '=' (by simp [hm])
    simp [plain] at this
  rw [toDict_clean q hoom hmap hhead hend, hfilt, hcut, hsplit, hparse, ofPairs_self _ hnd]

/-! ### `sub in s` -/

theorem isInfix_nil (s : Str) : Str.isInfix [] s = true := by
  cases s <;> simp [Str.isInfix]

theorem isInfix_append_left (sub s : Str) (a : Str) (h : Str.isInfix sub s = true) :
    Str.isInfix sub (a ++ s) = true := by
  induction a with
  | nil => exact h
  | cons c a ih => simp [Str.isInfix, ih]

theorem isPrefixOf_append_right (sub s b : Str) (h : sub.isPrefixOf s = true) :
    sub.isPrefixOf (s ++ b) = true := by
  rw [List.isPrefixOf_iff_prefix] at h ⊢
  exact h.trans (List.prefix_append _ _)

theorem isInfix_append_right (sub s : Str) (b : Str) (h : Str.isInfix sub s = true) :
    Str.isInfix sub (s ++ b) = true := by
  induction s with
  | nil =>
    simp only [Str.isInfix, List.isEmpty_iff] at h
    subst h; exact isInfix_nil _
  | cons c cs ih =>
    simp only [Str.isInfix, Bool.or_eq_true] at h
    simp only [List.cons_append, Str.isInfix, Bool.or_eq_true]
    rcases h with h | h
    · left; exact isPrefixOf_append_right _ (c :: cs) b h
    · right; exact ih h

/-- an infix of a piece is an infix of the joined string -/
theorem isInfix_join_of_mem (sep : Char) (sub : Str) (ps : List Str) (p : Str) (hp : p ∈ ps)
    (h : Str.isInfix sub p = true) : Str.isInfix sub (Str.joinWith sep ps) = true := by
  induction ps with
  | nil => simp at hp
  | cons p0 ps ih =>
    cases ps with
    | nil =>
      simp only [List.mem_singleton] at hp
      subst hp; exact h
    | cons q qs =>
      simp only [Str.joinWith]
      rcases List.mem_cons.1 hp with rfl | hp'
      · exact isInfix_append_right _ _ _ h
      · apply isInfix_append_left
        simp only [Str.isInfix, ih hp', Bool.or_true]

theorem isPrefixOf_append_sep (sep : Char) : ∀ (sub a b : Str), sep ∉ sub →
    sub.isPrefixOf (a ++ sep :: b) = true → sub.isPrefixOf a = true
  | [], _, _, _, _ => by simp
  | s :: sub', [], b, hs, h => by
    simp only [List.nil_append, List.isPrefixOf, Bool.and_eq_true, beq_iff_eq] at h
    exact absurd (by simp [h.1]) hs
  | s :: sub', c :: a', b, hs, h => by
    simp only [List.cons_append, List.isPrefixOf, Bool.and_eq_true] at h ⊢
    exact ⟨h.1, isPrefixOf_append_sep sep sub' a' b (fun hm => hs (by simp [hm])) h.2⟩

theorem isInfix_append_sep (sep : Char) (sub p rest : Str) (hs : sep ∉ sub)
    (h : Str.isInfix sub (p ++ sep :: rest) = true) :
    Str.isInfix sub p = true ∨ Str.isInfix sub rest = true := by
  induction p with
  | nil =>
    simp only [List.nil_append, Str.isInfix, Bool.or_eq_true] at h
    rcases h with h | h
    · left
      have := isPrefixOf_append_sep sep sub [] rest hs h
      cases sub with
      | nil => rfl
      | cons _ _ => simp at this
    · right; exact h
  | cons c cs ih =>
    simp only [List.cons_append, Str.isInfix, Bool.or_eq_true] at h
    rcases h with h | h
    · left
      simp only [Str.isInfix, Bool.or_eq_true]
      left; exact isPrefixOf_append_sep sep sub (c :: cs) rest hs h
    · rcases ih h with h' | h'
      · left; simp only [Str.isInfix, h', Bool.or_true]
      · right; exact h'

/-- a separator-free infix of a joined string lies inside one piece -/
theorem isInfix_join_sep (sep : Char) (sub : Str) (hs : sep ∉ sub) (ps : List Str) (hne : ps ≠ [])
    (h : Str.isInfix sub (Str.joinWith sep ps) = true) : ∃ p ∈ ps, Str.isInfix sub p = true := by
  induction ps with
  | nil => exact absurd rfl hne
  | cons p0 ps ih =>
    cases ps with
    | nil => exact ⟨p0, by simp, h⟩
    | cons q qs =>
      simp only [Str.joinWith] at h
      rcases isInfix_append_sep sep sub p0 _ hs h with h' | h'
      · exact ⟨p0, by simp, h'⟩
      · obtain ⟨p, hp, hp'⟩ := ih (by simp) h'
        exact ⟨p, by simp [hp], hp'⟩

/-- the first element of a filter is what `find?` finds -/
theorem filter_of_find {α} (q : α → Bool) (l : List α) (a : α) (h : l.find? q = some a) :
    ∃ rest, l.filter q = a :: rest := by
  induction l with
  | nil => simp at h
  | cons x l ih =>
    rw [List.find?_cons] at h
    rw [List.filter_cons]
    cases hq : q x with
    | true =>
      rw [hq] at h
      simp only [Option.some.injEq] at h
      subst h
      exact ⟨l.filter q, by simp⟩
    | false =>
      rw [hq] at h
      simpa using ih h

end UpdL
