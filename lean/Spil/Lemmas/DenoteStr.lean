/-
  Spil.Lemmas.DenoteStr — helper lemmas for the end-to-end reading of search expressions (C07c):
  the string stages `extensions` and `or_op` of the unfolder pipeline enumerate exactly the plain
  strings `Spec.Picks` describes.
-/
import Spil.Spec.Denote
import Spil.Lemmas.Unfold
import Spil.Lemmas.Upd
import Spil.Lemmas.Hier

namespace DenL

open Spec Ctx

/-! ### `strip` is idempotent -/

theorem lstrip_head : ∀ s : Str, Str.lstrip s = [] ∨ ∃ c cs, Str.lstrip s = c :: cs ∧ Str.isPySpace c = false
  | [] => Or.inl rfl
  | c :: cs => by
    simp only [Str.lstrip]
    split
    · exact lstrip_head cs
    · next h => exact Or.inr ⟨c, cs, rfl, by simpa using h⟩

theorem lstrip_fix (c : Char) (cs : Str) (h : Str.isPySpace c = false) : Str.lstrip (c :: cs) = c :: cs := by
  simp [Str.lstrip, h]

theorem strip_idem (s : Str) : Str.strip (Str.strip s) = Str.strip s := by
  unfold Str.strip
  rcases lstrip_head (Str.lstrip s).reverse with hv | ⟨c, v', hv, hc⟩
  · rw [hv]; rfl
  · rw [hv]
    -- t = v'.reverse ++ [c] is a non-empty prefix of u = lstrip s
    have hsuf := Str.lstrip_suffix (Str.lstrip s).reverse
    rw [hv] at hsuf
    have hpre : (c :: v').reverse <+: Str.lstrip s := by
      have := List.reverse_prefix.2 hsuf
      simpa using this
    rcases lstrip_head s with hu | ⟨d, u', hu, hd⟩
    · rw [hu] at hpre
      simp at hpre
    · rw [hu] at hpre
      -- head of t is d
      have ht : ∃ t', (c :: v').reverse = d :: t' := by
        cases ht : (c :: v').reverse with
        | nil => simp at ht
        | cons e t' =>
          rw [ht] at hpre
          exact ⟨t', by rw [(List.cons_prefix_cons.1 hpre).1]⟩
      obtain ⟨t', ht'⟩ := ht
      rw [ht', lstrip_fix d t' hd, ← ht']
      simp only [List.reverse_reverse]
      rw [lstrip_fix c v' hc]

/-! ### alternatives -/

theorem altsOf_of_no_comma (p : Str) (h : Str.hasChar ',' p = false) : altsOf p = [p] := by
  simp [altsOf, h]

theorem hasChar_iff (ch : Char) (s : Str) : Str.hasChar ch s = true ↔ ch ∈ s := by
  simp [Str.hasChar, List.any_eq_true]

theorem hasChar_false_iff (ch : Char) (s : Str) : Str.hasChar ch s = false ↔ ch ∉ s := by
  rw [← hasChar_iff]; simp

/-- every alternative of a ',' list is ','-free; and stripped when the list is a proper list -/
theorem altsOf_props (p : Str) : ∀ a ∈ altsOf p, ',' ∉ a ∧ (Str.hasChar ',' p = true → Str.strip a = a) := by
  intro a ha
  unfold altsOf at ha
  split at ha
  · next hc =>
    obtain ⟨q, hq, rfl⟩ := List.mem_map.1 ha
    refine ⟨?_, fun _ => strip_idem q⟩
    intro hm
    exact Str.splitOn_not_mem ',' p q hq ((Str.strip_infix q).subset hm)
  · next hc =>
    simp only [List.mem_singleton] at ha
    subst ha
    have hc' : Str.hasChar ',' a = false := by simpa using hc
    exact ⟨(hasChar_false_iff _ _).1 hc', fun h => by rw [hc'] at h; cases h⟩

/-- the alternatives of a ','-joined list of plain values are these values -/
theorem mem_altsOf_join (L : List Str) (hne : L ≠ []) (hc : ∀ e ∈ L, ',' ∉ e)
    (hs : 2 ≤ L.length → ∀ e ∈ L, Str.strip e = e) (x : Str) :
    x ∈ altsOf (Str.joinWith ',' L) ↔ x ∈ L := by
  match L, hne with
  | [e], _ =>
    simp only [Str.joinWith]
    rw [altsOf_of_no_comma e ((hasChar_false_iff _ _).2 (hc e (by simp)))]
  | e1 :: e2 :: rest, _ =>
    have hcm : Str.hasChar ',' (Str.joinWith ',' (e1 :: e2 :: rest)) = true := by
      rw [hasChar_iff]; simp [Str.joinWith]
    have hsp := Str.split_join ',' (e1 :: e2 :: rest) (by simp) hc
    unfold altsOf
    rw [if_pos hcm, hsp]
    have hs' := hs (by simp)
    constructor
    · intro hx
      obtain ⟨e, he, rfl⟩ := List.mem_map.1 hx
      rw [hs' e he]; exact he
    · intro hx
      exact List.mem_map.2 ⟨x, hx, hs' x hx⟩

/-! ### the alias table -/

theorem aliasOk_unpack (sc : SidConf) (h : aliasOk sc = true) (k : Str) (vs : List Str)
    (hl : sc.extensionAlias.lookup k = some vs) :
    k ≠ [] ∧ vs ≠ [] ∧ ∀ v ∈ vs, '/' ∉ v ∧ ',' ∉ v ∧ '?' ∉ v ∧ ':' ∉ v ∧ Str.strip v = v ∧
      Str.isInfix startMark v = false := by
  have hm := UpdL.lookup_mem _ _ _ hl
  unfold aliasOk at h
  rw [List.all_eq_true] at h
  have := h (k, vs) hm
  simp only [Bool.and_eq_true, Bool.not_eq_true', List.isEmpty_eq_false_iff, List.all_eq_true] at this
  refine ⟨this.1.1, this.1.2, ?_⟩
  intro v hv
  have hv := this.2 v hv
  simp only [extOk, Bool.and_eq_true, Bool.not_eq_true', beq_iff_eq, hasChar_false_iff] at hv
  exact ⟨hv.1.1.1.1.1, hv.1.1.1.1.2, hv.1.1.1.2, hv.1.1.2, hv.1.2, hv.2⟩

/-! ### `handle_extension` -/

theorem handleExtension_nil (c : Ctx) : c.handleExtension [] = [] := rfl

theorem handleExtension_eq (c : Ctx) (last : Str) (hne : last ≠ []) :
    c.handleExtension last =
      Str.joinWith ',' (Lst.sortBy Str.lt (Lst.dedupBy (· == ·) (lastAlts c last))) := by
  have : last.isEmpty = false := by simp [hne]
  simp only [handleExtension, this, lastAlts, altsOf]
  rfl

theorem lastAlts_nil (c : Ctx) (hal : aliasOk c.cfg.sid = true) : lastAlts c [] = [[]] := by
  have hl : c.cfg.sid.extensionAlias.lookup [] = none := by
    cases h : c.cfg.sid.extensionAlias.lookup [] with
    | none => rfl
    | some vs => exact absurd rfl (aliasOk_unpack _ hal _ _ h).1
  simp [lastAlts, altsOf, Str.hasChar, hl]

/-- where the values of `lastAlts` come from -/
theorem mem_lastAlts (c : Ctx) (last e : Str) (h : e ∈ lastAlts c last) :
    (e ∈ altsOf last ∧ c.cfg.sid.extensionAlias.lookup e = none) ∨
    ∃ k vs, k ∈ altsOf last ∧ c.cfg.sid.extensionAlias.lookup k = some vs ∧ e ∈ vs := by
  simp only [lastAlts, List.mem_flatMap] at h
  obtain ⟨a, ha, he⟩ := h
  cases hl : c.cfg.sid.extensionAlias.lookup a with
  | none =>
    rw [hl] at he
    simp only [Option.getD_none, List.mem_singleton] at he
    subst he
    exact Or.inl ⟨ha, hl⟩
  | some vs =>
    rw [hl] at he
    exact Or.inr ⟨a, vs, ha, hl, by simpa using he⟩

theorem lastAlts_ne_nil (c : Ctx) (hal : aliasOk c.cfg.sid = true) (last : Str) : lastAlts c last ≠ [] := by
  have hne : altsOf last ≠ [] := by
    unfold altsOf
    split
    · simpa using Str.splitOn_ne_nil ',' last
    · simp
  cases ha : altsOf last with
  | nil => exact absurd ha hne
  | cons a as =>
    simp only [lastAlts, ha, List.flatMap_cons, ne_eq, List.append_eq_nil_iff, not_and]
    intro h0
    cases hl : c.cfg.sid.extensionAlias.lookup a with
    | none => rw [hl] at h0; simp at h0
    | some vs =>
      rw [hl] at h0
      exact absurd (by simpa using h0) (aliasOk_unpack _ hal _ _ hl).2.1

/-- the values of `lastAlts` are ','-free, and stripped unless the list is the segment itself -/
theorem lastAlts_props (c : Ctx) (hal : aliasOk c.cfg.sid = true) (last : Str) :
    (∀ e ∈ lastAlts c last, ',' ∉ e) ∧
    ((∀ e ∈ lastAlts c last, Str.strip e = e) ∨ lastAlts c last = [last]) := by
  refine ⟨?_, ?_⟩
  · intro e he
    rcases mem_lastAlts c last e he with ⟨ha, _⟩ | ⟨k, vs, _, hl, hv⟩
    · exact (altsOf_props last e ha).1
    · exact ((aliasOk_unpack _ hal _ _ hl).2.2 e hv).2.1
  · by_cases hc : Str.hasChar ',' last = true
    · left
      intro e he
      rcases mem_lastAlts c last e he with ⟨ha, _⟩ | ⟨k, vs, _, hl, hv⟩
      · exact (altsOf_props last e ha).2 hc
      · exact ((aliasOk_unpack _ hal _ _ hl).2.2 e hv).2.2.2.2.1
    · have hc' : Str.hasChar ',' last = false := by simpa using hc
      cases hl : c.cfg.sid.extensionAlias.lookup last with
      | none =>
        right
        simp [lastAlts, altsOf_of_no_comma last hc', hl]
      | some vs =>
        left
        intro e he
        have : e ∈ vs := by simpa [lastAlts, altsOf_of_no_comma last hc', hl] using he
        exact ((aliasOk_unpack _ hal _ _ hl).2.2 e this).2.2.2.2.1

/-- the ',' list `handle_extension` writes denotes exactly the alias-expanded alternatives -/
theorem mem_altsOf_handle (c : Ctx) (hal : aliasOk c.cfg.sid = true) (last x : Str) :
    x ∈ altsOf (c.handleExtension last) ↔ x ∈ lastAlts c last := by
  by_cases hne : last = []
  · subst hne
    rw [handleExtension_nil, lastAlts_nil c hal]
    simp [altsOf, Str.hasChar]
  · rw [handleExtension_eq c last hne]
    obtain ⟨hcm, hst⟩ := lastAlts_props c hal last
    have hmem : ∀ e, e ∈ Lst.sortBy Str.lt (Lst.dedupBy (· == ·) (lastAlts c last)) ↔ e ∈ lastAlts c last := by
      intro e; rw [Lst.mem_sortBy, Lst.mem_dedupBy]
    rw [mem_altsOf_join _ _ (fun e he => hcm e ((hmem e).1 he)), hmem]
    · intro h2 e he
      rcases hst with hst | hst
      · exact hst e ((hmem e).1 he)
      · rw [hst] at h2
        simp [Lst.dedupBy, Lst.sortBy, Lst.insertBy] at h2
    · intro h0
      have hR := lastAlts_ne_nil c hal last
      cases hR' : lastAlts c last with
      | nil => exact hR hR'
      | cons a as =>
        have : a ∈ Lst.sortBy Str.lt (Lst.dedupBy (· == ·) (lastAlts c last)) := by
          rw [hmem, hR']; simp
        rw [h0] at this
        simp at this

/-- the characters of what `handle_extension` writes -/
theorem mem_handle (c : Ctx) (last : Str) (ch : Char) (h : ch ∈ c.handleExtension last) :
    ch = ',' ∨ ch ∈ last ∨ ∃ k vs v, c.cfg.sid.extensionAlias.lookup k = some vs ∧ v ∈ vs ∧ ch ∈ v := by
  by_cases hne : last = []
  · subst hne; rw [handleExtension_nil] at h; simp at h
  · rw [handleExtension_eq c last hne] at h
    rcases UpdL.mem_joinWith _ _ _ h with h | ⟨e, he, hce⟩
    · exact Or.inl h
    · rw [Lst.mem_sortBy, Lst.mem_dedupBy] at he
      rcases mem_lastAlts c last e he with ⟨ha, _⟩ | ⟨k, vs, _, hl, hv⟩
      · exact Or.inr (Or.inl ((altsOf_infix last e ha).subset hce))
      · exact Or.inr (Or.inr ⟨k, vs, e, hl, hv, hce⟩)

/-- a ','-free marker inside what `handle_extension` writes is inside the segment or an extension -/
theorem infix_handle (c : Ctx) (last m : Str) (hm : ',' ∉ m)
    (h : Str.isInfix m (c.handleExtension last) = true) :
    Str.isInfix m last = true ∨
      ∃ k vs v, c.cfg.sid.extensionAlias.lookup k = some vs ∧ v ∈ vs ∧ Str.isInfix m v = true := by
  by_cases hne : last = []
  · subst hne; rw [handleExtension_nil] at h; exact Or.inl h
  · rw [handleExtension_eq c last hne] at h
    by_cases hL : Lst.sortBy Str.lt (Lst.dedupBy (· == ·) (lastAlts c last)) = []
    · rw [hL] at h
      simp only [Str.joinWith, Str.isInfix, List.isEmpty_iff] at h
      subst h
      exact Or.inl (UpdL.isInfix_nil _)
    · obtain ⟨e, he, hie⟩ := UpdL.isInfix_join_sep ',' m hm _ hL h
      rw [Lst.mem_sortBy, Lst.mem_dedupBy] at he
      rcases mem_lastAlts c last e he with ⟨ha, _⟩ | ⟨k, vs, _, hl, hv⟩
      · left
        rw [Str.isInfix_iff] at hie ⊢
        exact hie.trans (altsOf_infix last e ha)
      · exact Or.inr ⟨k, vs, e, hl, hv, hie⟩

theorem mem_joinWith_of_mem (sep : Char) : ∀ (ps : List Str) (p : Str), p ∈ ps → ∀ ch ∈ p,
    ch ∈ Str.joinWith sep ps
  | [], _, hp, _, _ => by simp at hp
  | [q], p, hp, ch, h => by
    simp only [List.mem_singleton] at hp
    subst hp; simpa [Str.joinWith] using h
  | q :: r :: rest, p, hp, ch, h => by
    simp only [Str.joinWith, List.mem_append, List.mem_cons]
    rcases List.mem_cons.1 hp with rfl | hp
    · exact Or.inl h
    · exact Or.inr (Or.inr (mem_joinWith_of_mem sep (r :: rest) p hp ch h))

/-! ### choices -/

theorem choice_plain : ∀ (ps picks : List Str), (∀ p ∈ ps, Str.hasChar ',' p = false) →
    (Choice ps picks ↔ picks = ps)
  | [], picks, _ => by
    constructor
    · intro h; cases h; rfl
    · rintro rfl; exact Choice.nil
  | p :: ps, picks, h => by
    have hp := altsOf_of_no_comma p (h p (by simp))
    constructor
    · intro hc
      cases hc with
      | cons ha hc' =>
        rw [hp] at ha
        simp only [List.mem_singleton] at ha
        subst ha
        rw [(choice_plain ps _ (fun q hq => h q (by simp [hq]))).1 hc']
    · rintro rfl
      exact Choice.cons (by rw [hp]; simp) ((choice_plain ps ps (fun q hq => h q (by simp [hq]))).2 rfl)

theorem choice_append_singleton (h : Str) : ∀ (init picks : List Str),
    Choice (init ++ [h]) picks ↔ ∃ pi l, picks = pi ++ [l] ∧ Choice init pi ∧ l ∈ altsOf h
  | [], picks => by
    constructor
    · intro hc
      cases hc with
      | cons ha hc' =>
        cases hc'
        exact ⟨[], _, rfl, Choice.nil, ha⟩
    · rintro ⟨pi, l, rfl, hpi, hl⟩
      cases hpi
      exact Choice.cons hl Choice.nil
  | p :: init, picks => by
    constructor
    · intro hc
      cases hc with
      | cons ha hc' =>
        obtain ⟨pi, l, rfl, hpi, hl⟩ := (choice_append_singleton h init _).1 hc'
        exact ⟨_ :: pi, l, rfl, Choice.cons ha hpi, hl⟩
    · rintro ⟨pi, l, rfl, hpi, hl⟩
      cases hpi with
      | cons ha hpi' =>
        exact Choice.cons ha ((choice_append_singleton h init _).2 ⟨_, l, rfl, hpi', hl⟩)

theorem choice_length : ∀ {ps picks : List Str}, Choice ps picks → picks.length = ps.length
  | _, _, .nil => rfl
  | _, _, .cons _ h => by simp [choice_length h]

/-! ### `extensions` and `or_op` on a query-free expression -/

theorem dropLast_append_getLast (l : List Str) (h : l ≠ []) :
    l.dropLast ++ [(l.getLast?).getD []] = l := by
  rw [List.getLast?_eq_some_getLast h]
  simp [List.dropLast_concat_getLast]

theorem extensions_eq (c : Ctx) (s : Str) (hq : '?' ∉ s) :
    c.extensions s = .ok (Str.joinWith '/' ((Str.splitOn '/' s).dropLast ++
      [c.handleExtension (((Str.splitOn '/' s).getLast?).getD [])])) := by
  simp [extensions, Str.split1_none '?' s hq]

/-- the alias-expanded segments -/
def segs1 (c : Ctx) (s : Str) : List Str :=
  (Str.splitOn '/' s).dropLast ++ [c.handleExtension (((Str.splitOn '/' s).getLast?).getD [])]

theorem last_mem (s : Str) : ((Str.splitOn '/' s).getLast?).getD [] ∈ Str.splitOn '/' s := by
  rw [List.getLast?_eq_some_getLast (Str.splitOn_ne_nil '/' s)]
  exact List.getLast_mem _

/-- the characters of the alias-expanded segments -/
theorem mem_segs1 (c : Ctx) (s : Str) (p : Str) (hp : p ∈ segs1 c s) (ch : Char) (h : ch ∈ p) :
    ch = ',' ∨ (ch ∈ s ∧ ch ≠ '/') ∨
      ∃ k vs v, c.cfg.sid.extensionAlias.lookup k = some vs ∧ v ∈ vs ∧ ch ∈ v := by
  simp only [segs1, List.mem_append, List.mem_singleton] at hp
  rcases hp with hp | rfl
  · have hp' := List.dropLast_subset _ hp
    refine Or.inr (Or.inl ⟨(Str.splitOn_infix '/' s p hp').subset h, ?_⟩)
    rintro rfl
    exact Str.splitOn_not_mem '/' s p hp' h
  · rcases mem_handle c _ ch h with h | h | h
    · exact Or.inl h
    · refine Or.inr (Or.inl ⟨(Str.splitOn_infix '/' s _ (last_mem s)).subset h, ?_⟩)
      rintro rfl
      exact Str.splitOn_not_mem '/' s _ (last_mem s) h
    · exact Or.inr (Or.inr h)

theorem segs1_no_slash (c : Ctx) (hal : aliasOk c.cfg.sid = true) (s : Str) :
    ∀ p ∈ segs1 c s, '/' ∉ p := by
  intro p hp h
  rcases mem_segs1 c s p hp '/' h with h | ⟨_, h⟩ | ⟨k, vs, v, hl, hv, hc⟩
  · cases h
  · exact h rfl
  · exact ((aliasOk_unpack _ hal _ _ hl).2.2 v hv).1 hc

theorem segs1_ne_nil (c : Ctx) (s : Str) : segs1 c s ≠ [] := by simp [segs1]

/-- the string after `extensions` -/
def s1 (c : Ctx) (s : Str) : Str := Str.joinWith '/' (segs1 c s)

theorem split_s1 (c : Ctx) (hal : aliasOk c.cfg.sid = true) (s : Str) :
    Str.splitOn '/' (s1 c s) = segs1 c s :=
  Str.split_join '/' _ (segs1_ne_nil c s) (segs1_no_slash c hal s)

theorem s1_no_char (c : Ctx) (s : Str) (ch : Char)
    (h1 : ch ≠ '/') (h2 : ch ≠ ',') (hs : ch ∉ s)
    (hv : ∀ k vs v, c.cfg.sid.extensionAlias.lookup k = some vs → v ∈ vs → ch ∉ v) : ch ∉ s1 c s := by
  intro h
  rcases UpdL.mem_joinWith _ _ _ h with h | ⟨p, hp, hc⟩
  · exact h1 h
  · rcases mem_segs1 c s p hp ch hc with h | ⟨h, _⟩ | ⟨k, vs, v, hl, hvv, hc'⟩
    · exact h2 h
    · exact hs h
    · exact hv k vs v hl hvv hc'

theorem s1_no_mark (c : Ctx) (hal : aliasOk c.cfg.sid = true) (s : Str)
    (hm : Str.isInfix startMark s = false) : Str.isInfix startMark (s1 c s) = false := by
  cases h : Str.isInfix startMark (s1 c s) with
  | false => rfl
  | true =>
    exfalso
    obtain ⟨p, hp, hip⟩ := UpdL.isInfix_join_sep '/' startMark startMark_no_slash _ (segs1_ne_nil c s) h
    have hcontra : ∀ q ∈ Str.splitOn '/' s, Str.isInfix startMark q = true → False := by
      intro q hq hiq
      rw [Str.isInfix_eq_false_iff] at hm
      rw [Str.isInfix_iff] at hiq
      exact hm (hiq.trans (Str.splitOn_infix '/' s q hq))
    simp only [segs1, List.mem_append, List.mem_singleton] at hp
    rcases hp with hp | rfl
    · exact hcontra p (List.dropLast_subset _ hp) hip
    · rcases infix_handle c _ startMark (by decide) hip with h' | ⟨k, vs, v, hl, hv, hiv⟩
      · exact hcontra _ (last_mem s) h'
      · have := ((aliasOk_unpack _ hal _ _ hl).2.2 v hv).2.2.2.2.2
        rw [this] at hiv; cases hiv

/-- STAGE A: on a query-free expression, `extensions` then `or_op` succeed and enumerate exactly
    the plain strings the expression stands for -/
theorem stageA (c : Ctx) (hal : aliasOk c.cfg.sid = true) (s : Str) (hq : '?' ∉ s)
    (hm : Str.isInfix startMark s = false) :
    ∃ A, c.extensions s = .ok (s1 c s) ∧ orOp (s1 c s) = .ok A ∧ ∀ a, a ∈ A ↔ Picks c s a := by
  have hext : c.extensions s = .ok (s1 c s) := extensions_eq c s hq
  have hq1 : '?' ∉ s1 c s := s1_no_char c s '?' (by decide) (by decide) hq
    (fun k vs v hl hv => ((aliasOk_unpack _ hal _ _ hl).2.2 v hv).2.2.1)
  -- both branches of `or_op` enumerate the choices over the alias-expanded segments
  have hA : ∃ A, orOp (s1 c s) = .ok A ∧
      ∀ a, a ∈ A ↔ ∃ picks, Choice (segs1 c s) picks ∧ a = Str.joinWith '/' picks := by
    by_cases hcm : Str.hasChar ',' (s1 c s) = true
    · refine ⟨orOnPath (s1 c s), ?_, ?_⟩
      · simp [orOp, hcm, Str.split1_none '?' _ hq1]
      · intro a
        rw [orOnPath_eq _ (s1_no_mark c hal s hm), split_s1 c hal s]
        exact mem_orProduct _ (segs1_ne_nil c s) a
    · have hcm' : Str.hasChar ',' (s1 c s) = false := by simpa using hcm
      refine ⟨[s1 c s], by simp [orOp, hcm'], ?_⟩
      intro a
      have hplain : ∀ p ∈ segs1 c s, Str.hasChar ',' p = false := by
        intro p hp
        rw [hasChar_false_iff] at hcm' ⊢
        intro h
        apply hcm'
        exact mem_joinWith_of_mem '/' _ p hp ',' h
      simp only [List.mem_singleton]
      constructor
      · rintro rfl
        exact ⟨segs1 c s, (choice_plain _ _ hplain).2 rfl, rfl⟩
      · rintro ⟨picks, hc, rfl⟩
        rw [(choice_plain _ _ hplain).1 hc]; rfl
  obtain ⟨A, hor, hmemA⟩ := hA
  refine ⟨A, hext, hor, ?_⟩
  intro a
  rw [hmemA a]
  unfold Picks
  constructor
  · rintro ⟨picks, hc, rfl⟩
    obtain ⟨pi, l, rfl, hpi, hl⟩ := (choice_append_singleton _ _ _).1 hc
    exact ⟨pi, l, hpi, (mem_altsOf_handle c hal _ l).1 hl, rfl⟩
  · rintro ⟨pi, l, hpi, hl, rfl⟩
    exact ⟨pi ++ [l], (choice_append_singleton _ _ _).2 ⟨pi, l, rfl, hpi,
      (mem_altsOf_handle c hal _ l).2 hl⟩, rfl⟩

end DenL
