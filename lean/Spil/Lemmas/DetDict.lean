/-
  Spil.Lemmas.DetDict — `match_to_dict` with the duplicate check on captures whose repeated keys
  agree; the three-digit group counter; `Dict.set` / `Dict.get` facts.
-/
import Spil.Lemmas.DetTpl
import Spil.Lemmas.Template

namespace Det

open Spec

/-! ### dictionaries -/

theorem get_set (d : Dict) (k v k' : Str) :
    (Dict.set d k v).get k' = if k' = k then some v else d.get k' := by
  induction d with
  | nil =>
    by_cases h : k' = k
    · subst h; simp [Dict.set, Dict.get]
    · have hb : (k' == k) = false := by simpa using h
      simp [Dict.set, Dict.get, List.lookup_cons, hb, h]
  | cons p d ih =>
    obtain ⟨k0, v0⟩ := p
    simp only [Dict.get] at ih ⊢
    by_cases h0 : k0 = k
    · subst h0
      simp only [Dict.set, beq_self_eq_true, if_true, List.lookup_cons]
      by_cases h : k' = k0
      · subst h; simp
      · have hb : (k' == k0) = false := by simpa using h
        simp [hb, h]
    · have hb0 : (k0 == k) = false := by simpa using h0
      simp only [Dict.set, hb0, Bool.false_eq_true, if_false, List.lookup_cons]
      by_cases h : k' = k0
      · subst h; simp [h0]
      · have hb : (k' == k0) = false := by simpa using h
        simp only [hb]; exact ih

theorem keys_set (d : Dict) (k v : Str) :
    (Dict.set d k v).map (·.1) = if k ∈ d.map (·.1) then d.map (·.1) else d.map (·.1) ++ [k] := by
  induction d with
  | nil => simp [Dict.set]
  | cons p d ih =>
    obtain ⟨k0, v0⟩ := p
    simp only [Dict.set]
    by_cases h0 : k0 = k
    · subst h0; simp
    · have : (k0 == k) = false := by simpa using h0
      simp only [this, Bool.false_eq_true, if_false, List.map_cons, ih, List.mem_cons]
      have h0' : ¬ k = k0 := fun h => h0 h.symm
      by_cases hm : k ∈ d.map (·.1)
      · simp [hm]
      · simp only [List.mem_map] at hm
        simp [hm, h0']

theorem get_eq_none_iff (d : Dict) (k : Str) : d.get k = none ↔ k ∉ d.map (·.1) := by
  induction d with
  | nil => simp [Dict.get]
  | cons p d ih =>
    obtain ⟨k0, v0⟩ := p
    simp only [Dict.get, List.lookup_cons, List.map_cons, List.mem_cons, not_or]
    simp only [Dict.get] at ih
    by_cases h : k = k0
    · subst h; simp
    · have : (k == k0) = false := by simpa using h
      simp only [this, ih]
      exact ⟨fun hh => ⟨h, hh⟩, fun hh => hh.2⟩

theorem get_some_mem (d : Dict) (k v : Str) (h : d.get k = some v) : k ∈ d.map (·.1) := by
  by_cases hm : k ∈ d.map (·.1)
  · exact hm
  · rw [(get_eq_none_iff d k).mpr hm] at h; simp at h

/-! ### the counter -/

set_option maxRecDepth 1000000 in
theorem pad3_length : ∀ n, n < 1000 → (Str.pad3 n).length = 3 := by decide

/-- what `match_to_dict` does to a group name -/
def strip (n : Str) : Str := n.take (n.length - 3)

theorem strip_name (k : Str) (c : Nat) (h : c < 1000) : strip (k ++ Str.pad3 c) = k := by
  simp [strip, pad3_length c h]

theorem countKey_mem_le (k : Str) (ex : Re) (seen rest : List Tok) :
    Template.countKey k seen + 1 ≤ Template.countKey k (seen ++ .ph k ex :: rest) := by
  rw [SidL.countKey_append]
  simp [Template.countKey]

theorem capNames_strip : ∀ (t : Template) (seen : List Tok),
    (∀ k ∈ phKeys t, Template.countKey k (seen ++ t) < 1000) →
    (capNames seen t).map strip = phKeys t
  | [], seen, _ => rfl
  | .lit s :: rest, seen, h => by
    simp only [capNames, phKeys]
    apply capNames_strip rest
    intro k hk
    have := h k (by simpa [phKeys] using hk)
    simpa using this
  | .ph k ex :: rest, seen, h => by
    simp only [capNames, phKeys, List.map_cons]
    have hk := h k (by simp [phKeys])
    have hle := countKey_mem_le k ex seen rest
    rw [strip_name k _ (by omega)]
    congr 1
    apply capNames_strip rest
    intro k' hk'
    have := h k' (by simp [phKeys, hk'])
    simpa using this

theorem capNames_length : ∀ (t : Template) (seen : List Tok),
    (capNames seen t).length = (phKeys t).length
  | [], _ => rfl
  | .lit s :: rest, seen => by simp only [capNames, phKeys]; exact capNames_length rest _
  | .ph k ex :: rest, seen => by
    simp only [capNames, phKeys, List.length_cons]; rw [capNames_length rest _]

/-! ### `keys` -/

/-- first occurrences, in order -/
def dedup : List Str → List Str
  | [] => []
  | k :: ks => k :: (dedup ks).filter (· != k)

theorem keys_eq_dedup : ∀ t : Template, Template.keys t = dedup (phKeys t)
  | [] => rfl
  | .lit s :: rest => by simp only [Template.keys, phKeys]; exact keys_eq_dedup rest
  | .ph k ex :: rest => by simp only [Template.keys, phKeys, dedup, keys_eq_dedup rest]

theorem mem_dedup (k : Str) : ∀ ks : List Str, k ∈ dedup ks ↔ k ∈ ks
  | [] => by simp [dedup]
  | k0 :: ks => by
    simp only [dedup, List.mem_cons, List.mem_filter, mem_dedup k ks, bne_iff_ne, ne_eq]
    by_cases h : k = k0 <;> simp [h]

/-! ### accumulating consistent captures -/

/-- the accumulator after storing `f k` for every `k ∈ ks` -/
def accum (f : Str → Str) (ks : List Str) (acc : Dict) : Dict :=
  ks.foldl (fun a k => Dict.set a k (f k)) acc

theorem matchToDict_consistent (f : Str → Str) : ∀ (caps : Caps) (acc : Dict),
    (∀ p ∈ caps, p.2 = f (strip p.1)) → (∀ k v, acc.get k = some v → v = f k) →
    Template.matchToDict true caps acc = .ok (accum f (caps.map (fun p => strip p.1)) acc)
  | [], acc, _, _ => rfl
  | (n, v) :: caps, acc, hc, ha => by
    have hv : v = f (strip n) := hc (n, v) (by simp)
    have hacc' : ∀ k v', (Dict.set acc (strip n) v).get k = some v' → v' = f k := by
      intro k v' hg
      rw [get_set] at hg
      split at hg
      · next hk => subst hk; simp at hg; rw [← hg, hv]
      · exact ha k v' hg
    have ih := matchToDict_consistent f caps (Dict.set acc (strip n) v)
      (fun p hp => hc p (by simp [hp])) hacc'
    simp only [Template.matchToDict, List.map_cons, accum, List.foldl_cons]
    show (match acc.get (strip n) with
      | some old => if (true && old != v) = true then Except.error Err.resolva
          else Template.matchToDict true caps (Dict.set acc (strip n) v)
      | none => Template.matchToDict true caps (Dict.set acc (strip n) v)) = _
    rw [ih, ← hv]
    cases hg : acc.get (strip n) with
    | none => rfl
    | some old =>
      have := ha _ _ hg
      simp only [Bool.true_and, bne_iff_ne, ne_eq]
      rw [if_neg (by rw [this, hv]; simp)]
      rfl

theorem accum_get (f : Str → Str) : ∀ (ks : List Str) (acc : Dict) (k : Str),
    (accum f ks acc).get k = if k ∈ ks then some (f k) else acc.get k
  | [], acc, k => by simp [accum]
  | k0 :: ks, acc, k => by
    simp only [accum, List.foldl_cons]
    have := accum_get f ks (Dict.set acc k0 (f k0)) k
    simp only [accum] at this
    rw [this, get_set]
    by_cases h1 : k ∈ ks
    · simp [h1]
    · by_cases h2 : k = k0
      · subst h2; simp
      · simp [h1, h2]

theorem accum_keys (f : Str → Str) : ∀ (ks : List Str) (acc : Dict),
    (accum f ks acc).map (·.1) =
      acc.map (·.1) ++ (dedup ks).filter (fun k => !(acc.map (·.1)).contains k)
  | [], acc => by simp [accum, dedup]
  | k0 :: ks, acc => by
    simp only [accum, List.foldl_cons]
    have := accum_keys f ks (Dict.set acc k0 (f k0))
    simp only [accum] at this
    rw [this, keys_set]
    simp only [dedup, List.filter_cons]
    by_cases hm : k0 ∈ acc.map (·.1)
    · have hc : (List.map (fun x => x.fst) acc).contains k0 = true := by simpa using hm
      simp only [hm, if_true, hc, Bool.not_true, Bool.false_eq_true, if_false, List.filter_filter]
      congr 1
      apply List.filter_congr
      intro x _
      by_cases hx : x = k0
      · subst hx; rw [hc]; rfl
      · have : (x != k0) = true := by simpa using hx
        rw [this, Bool.and_true]
    · have hc : (List.map (fun x => x.fst) acc).contains k0 = false := by simpa using hm
      simp only [hm, if_false, hc, Bool.not_false, if_true, List.filter_filter,
        List.append_assoc, List.singleton_append]
      congr 2
      apply List.filter_congr
      intro x _
      simp only [List.contains_append, List.contains_cons, List.contains_nil, Bool.or_false,
        Bool.not_or]
      rfl

theorem accum_nil_keys (f : Str → Str) (ks : List Str) : (accum f ks []).map (·.1) = dedup ks := by
  rw [accum_keys]
  simp

/-! ### what a successful `match_to_dict` stores -/

theorem matchToDict_ok_get : ∀ (caps : Caps) (acc d : Dict),
    Template.matchToDict true caps acc = .ok d →
    (∀ p ∈ caps, d.get (strip p.1) = some p.2) ∧ (∀ k v, acc.get k = some v → d.get k = some v)
  | [], acc, d, h => by
    simp only [Template.matchToDict, Except.ok.injEq] at h
    subst h
    exact ⟨by simp, fun _ _ h => h⟩
  | (n, v) :: caps, acc, d, h => by
    have hstep : Template.matchToDict true caps (Dict.set acc (strip n) v) = .ok d ∧
        (∀ old, acc.get (strip n) = some old → old = v) := by
      simp only [Template.matchToDict] at h
      change (match acc.get (strip n) with
        | some old => if (true && old != v) = true then Except.error Err.resolva
            else Template.matchToDict true caps (Dict.set acc (strip n) v)
        | none => Template.matchToDict true caps (Dict.set acc (strip n) v)) = _ at h
      cases hg : acc.get (strip n) with
      | none => rw [hg] at h; exact ⟨h, by simp⟩
      | some old =>
        rw [hg] at h
        simp only [Bool.true_and, bne_iff_ne, ne_eq] at h
        by_cases ho : old = v
        · rw [if_neg (by simp [ho])] at h
          exact ⟨h, by intro o ho'; simp at ho'; rw [← ho', ho]⟩
        · rw [if_pos ho] at h; simp at h
    obtain ⟨ih1, ih2⟩ := matchToDict_ok_get caps _ d hstep.1
    have hnew : d.get (strip n) = some v := ih2 _ _ (by rw [get_set]; simp)
    refine ⟨?_, ?_⟩
    · intro p hp
      simp only [List.mem_cons] at hp
      rcases hp with rfl | hp
      · exact hnew
      · exact ih1 p hp
    · intro k v' hg
      by_cases hk : k = strip n
      · subst hk
        rw [hstep.2 v' hg]; exact hnew
      · apply ih2
        rw [get_set]; simp [hk, hg]

theorem mem_zip_map {α β : Type} (g : α → β) : ∀ (l : List α) (p : α × β),
    p ∈ l.zip (l.map g) → p.2 = g p.1
  | [], p, h => by simp at h
  | a :: l, p, h => by
    simp only [List.map_cons, List.zip_cons_cons, List.mem_cons] at h
    rcases h with rfl | h
    · rfl
    · exact mem_zip_map g l p h

end Det
