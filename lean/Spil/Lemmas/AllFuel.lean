/-
  Spil.Lemmas.AllFuel — the fuel of the mutual block `finderDoFind / finderFind / constStar` is only
  a termination device: once it exceeds twice the length of the parent chain of the finder, the
  answer no longer depends on it.
-/
import Spil.Lemmas.AllConst

namespace DataConf

/-- length of the parent chain that starts at finder `i` (`FindInPaths` and a `FindInConstants`
    without parent source: 0), followed for at most `n` finders; `none` when the chain leaves the
    table (a dangling index) or is longer than `n` -/
def depth (dc : DataConf) : Nat → Nat → Option Nat
  | 0, _ => none
  | n + 1, i =>
    match dc.finders[i]? with
    | none => none
    | some (.paths _) => some 0
    | some (.constants _ _ none) => some 0
    | some (.constants _ _ (some p)) => (depth dc n p).map (· + 1)

/-- the parent indices are valid and form chains without cycles: from every finder the chain of
    parent sources ends after at most `finders.length` finders -/
def chainOk (dc : DataConf) : Bool :=
  (List.range dc.finders.length).all (fun i => (dc.depth dc.finders.length i).isSome)

theorem depth_lt (dc : DataConf) : ∀ (n i r : Nat), dc.depth n i = some r → r < n
  | 0, _, _, h => by simp [depth] at h
  | n + 1, i, r, h => by
    unfold depth at h
    split at h
    · cases h
    · injection h with h; omega
    · injection h with h; omega
    · next p _ =>
      cases hp : depth dc n p with
      | none => rw [hp] at h; cases h
      | some r' =>
        rw [hp] at h
        simp only [Option.map_some, Option.some.injEq] at h
        have := depth_lt dc n p r' hp
        omega

theorem chainOk_depth (dc : DataConf) (h : dc.chainOk = true) (i : Nat) (hi : i < dc.finders.length) :
    ∃ r, dc.depth dc.finders.length i = some r ∧ r < dc.finders.length := by
  unfold chainOk at h
  rw [List.all_eq_true] at h
  have := h i (List.mem_range.2 hi)
  cases hd : dc.depth dc.finders.length i with
  | none => rw [hd] at this; cases this
  | some r => exact ⟨r, rfl, depth_lt dc _ _ _ hd⟩

end DataConf

namespace AllL

variable (d : DCtx) (w : World)

/-- `star_search` of a constants Finder depends on the fuel only through its parent source -/
theorem constStar_congr (f1 f2 : Nat) (key : Str) (values : List Str) (parent : Option Nat)
    (h : ∀ pi, parent = some pi → ∀ rp, d.finderFind w f1 pi rp = d.finderFind w f2 pi rp)
    (ss : List Sid) :
    d.constStar w f1 key values parent ss = d.constStar w f2 key values parent ss := by
  rw [constStar_eq, constStar_eq]
  cases parent with
  | none => rfl
  | some pi =>
    have : (fun rp => d.finderFind w f1 pi rp) = (fun rp => d.finderFind w f2 pi rp) :=
      funext (h pi rfl)
    simp only [Option.map_some, this]

/-- more fuel than twice the chain length (+1) changes nothing -/
theorem fuel_indep : ∀ (n i r : Nat), d.data.depth n i = some r → ∀ (f k : Nat), 2 * r + 1 ≤ f →
    ∀ ss, d.finderDoFind w (f + k) i ss = d.finderDoFind w f i ss
  | 0, _, _, h, _, _, _, _ => by simp [DataConf.depth] at h
  | n + 1, i, r, h, f, k, hf, ss => by
    obtain ⟨f', rfl⟩ : ∃ f', f = f' + 1 := ⟨f - 1, by omega⟩
    have e : f' + 1 + k = (f' + k) + 1 := by omega
    rw [e]
    unfold DataConf.depth at h
    cases hi : d.data.finders[i]? with
    | none => rw [finderDoFind_none d w _ i hi, finderDoFind_none d w _ i hi]
    | some fd =>
      rw [hi] at h
      cases fd with
      | paths config => rw [finderDoFind_paths d w _ i config hi, finderDoFind_paths d w _ i config hi]
      | constants key values parent =>
        rw [finderDoFind_constants d w _ i key values parent hi,
          finderDoFind_constants d w _ i key values parent hi]
        have hstar : (fun ss => d.constStar w (f' + k) key values parent ss) =
            (fun ss => d.constStar w f' key values parent ss) := by
          funext ss'
          apply constStar_congr
          intro pi hpi rp
          subst hpi
          simp only at h
          cases hp : d.data.depth n pi with
          | none => rw [hp] at h; cases h
          | some r' =>
            rw [hp] at h
            simp only [Option.map_some, Option.some.injEq] at h
            obtain ⟨f'', rfl⟩ : ∃ f'', f' = f'' + 1 := ⟨f' - 1, by omega⟩
            have e' : f'' + 1 + k = (f'' + k) + 1 := by omega
            rw [e', finderFind_succ, finderFind_succ]
            apply findVia_congr
            intro ss''
            exact fuel_indep n pi r' hp f'' k (by omega) ss''
        rw [hstar]

/-- the same for `Finder.find` of the finder `i` -/
theorem fuel_indep_find (n i r : Nat) (h : d.data.depth n i = some r) (f k : Nat)
    (hf : 2 * r + 2 ≤ f) (rp : Sid) :
    d.finderFind w (f + k) i rp = d.finderFind w f i rp := by
  obtain ⟨f', rfl⟩ : ∃ f', f = f' + 1 := ⟨f - 1, by omega⟩
  have e : f' + 1 + k = (f' + k) + 1 := by omega
  rw [e, finderFind_succ, finderFind_succ]
  apply findVia_congr
  intro ss
  exact fuel_indep d w n i r h f' k (by omega) ss

end AllL
