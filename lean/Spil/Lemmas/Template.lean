/-
  Spil.Lemmas.Template — the compiled regular expression of a well-formed sid template, the shape
  of its successes, which success `Re.search` selects, and what `matchToDict` / `format` /
  `keysEq` compute on it.
-/
import Spil.Spec.Sid
import Spil.Lemmas.ReRun

namespace SidL

open Spec

/-! ### shape of a well-formed sid template -/

/-- `t` is `{k1:e1}/{k2:e2}/…/{kn:en}` with placeholders `ps` -/
inductive SidShape : Template → List (Str × Re) → Prop
  | one (k : Str) (e : Re) : SidShape [.ph k e] [(k, e)]
  | cons (k : Str) (e : Re) (rest : Template) (p : Str × Re) (ps : List (Str × Re)) :
      SidShape rest (p :: ps) → SidShape (.ph k e :: .lit ['/'] :: rest) ((k, e) :: p :: ps)

theorem alternates_cases (t : Template) (h : alternates t = true) :
    (∃ k e, t = [.ph k e]) ∨
    (∃ k e rest, t = .ph k e :: .lit ['/'] :: rest ∧ alternates rest = true) := by
  unfold alternates at h
  split at h
  · exact Or.inl ⟨_, _, rfl⟩
  · exact Or.inr ⟨_, _, _, rfl, h⟩
  · simp at h

theorem phs_ne_nil_of_alternates (t : Template) (h : alternates t = true) : phs t ≠ [] := by
  rcases alternates_cases t h with ⟨k, e, rfl⟩ | ⟨k, e, rest, rfl, _⟩ <;> simp [phs]

theorem sidShape_of_alternates (t : Template) (h : alternates t = true) : SidShape t (phs t) := by
  induction hn : t.length using Nat.strongRecOn generalizing t with
  | _ n ih =>
    rcases alternates_cases t h with ⟨k, e, rfl⟩ | ⟨k, e, rest, rfl, hr⟩
    · exact SidShape.one k e
    · have hne := phs_ne_nil_of_alternates rest hr
      have := ih rest.length (by subst hn; simp; omega) rest hr rfl
      simp only [phs]
      match hp : phs rest with
      | [] => exact absurd hp hne
      | p :: ps => rw [hp] at this; exact SidShape.cons k e rest p ps this

theorem SidShape.ne_nil {t : Template} {ps : List (Str × Re)} (h : SidShape t ps) : ps ≠ [] := by
  cases h <;> simp

theorem SidShape.phs_eq {t : Template} {ps : List (Str × Re)} (h : SidShape t ps) : phs t = ps := by
  induction h with
  | one k e => simp [phs]
  | cons k e rest p ps _ ih => simp [phs, ih]

theorem distinct_iff_nodup (l : List Str) : distinct l = true ↔ l.Nodup := by
  induction l with
  | nil => simp [distinct]
  | cons a l ih => simp [distinct, ih, List.nodup_cons]

/-! ### the compiled expression -/

/-- name of the (first) group of key `k` -/
def nm (k : Str) : Str := k ++ ['0', '0', '1']

/-- the compiled expression of `{k1:e1}/…/{kn:en}` -/
def sidRe : List (Str × Re) → Re
  | [] => .eps
  | [(k, e)] => .grp (nm k) e
  | (k, e) :: p :: ps => .seq (.grp (nm k) e) (.seq (.cls (.lit '/')) (sidRe (p :: ps)))

theorem countKey_append (k : Str) (a b : List Tok) :
    Template.countKey k (a ++ b) = Template.countKey k a + Template.countKey k b := by
  induction a with
  | nil => simp [Template.countKey]
  | cons x a ih =>
    cases x with
    | lit s => simp [Template.countKey, ih]
    | ph k' e => simp [Template.countKey, ih]; omega

theorem mkSeq_cons_of_ne (a : Re) (l : List Re) (h : l ≠ []) :
    Re.mkSeq (a :: l) = .seq a (Re.mkSeq l) := by
  cases l with
  | nil => exact absurd rfl h
  | cons b l => simp [Re.mkSeq]

theorem items_ne_nil {t : Template} {ps : List (Str × Re)} (h : SidShape t ps) (seen : List Tok) :
    Template.items seen t ≠ [] := by
  cases h <;> simp [Template.items]

theorem mkSeq_items {t : Template} {ps : List (Str × Re)} (h : SidShape t ps) :
    ∀ seen, (ps.map (·.1)).Nodup → (∀ k ∈ ps.map (·.1), Template.countKey k seen = 0) →
      Re.mkSeq (Template.items seen t) = sidRe ps := by
  induction h with
  | one k e =>
    intro seen _ hc
    have := hc k (by simp)
    simp [Template.items, this, Re.mkSeq, sidRe, nm, Str.pad3_one]
  | cons k e rest p ps hs ih =>
    intro seen hnd hc
    have hk := hc k (by simp)
    simp only [List.map_cons, List.nodup_cons] at hnd
    have hrest := ih (seen ++ [.ph k e] ++ [.lit ['/']]) (by simpa using hnd.2) (by
      intro k' hk'
      have h0 := hc k' (by simp only [List.map_cons, List.mem_cons]; right; simpa using hk')
      have hne : k ≠ k' := by
        intro heq; subst heq; exact hnd.1 (by simpa using hk')
      simp [countKey_append, Template.countKey, h0, hne])
    have hne := items_ne_nil hs (seen ++ [.ph k e] ++ [.lit ['/']])
    simp only [Template.items, List.map_cons, List.map_nil, List.singleton_append]
    rw [mkSeq_cons_of_ne _ _ (by simp), mkSeq_cons_of_ne _ _ hne, hrest]
    simp [sidRe, hk, nm, Str.pad3_one, Template.litCls]

theorem compile_eq {t : Template} {ps : List (Str × Re)} (h : SidShape t ps)
    (hnd : (ps.map (·.1)).Nodup) : Template.compile t = sidRe ps := by
  unfold Template.compile
  exact mkSeq_items h [] hnd (by intro k _; rfl)

/-! ### shape of the successes of the compiled expression -/

theorem acceptsSegs_length (e : Env) (ps : List (Str × Re)) (segs : List Str)
    (h : acceptsSegs e ps segs = true) : segs.length = ps.length := by
  induction ps generalizing segs with
  | nil => cases segs <;> simp_all [acceptsSegs]
  | cons p ps ih =>
    cases segs with
    | nil => simp [acceptsSegs] at h
    | cons g gs =>
      simp only [acceptsSegs, Bool.and_eq_true] at h
      simp [ih gs h.2]

/-- every success of the compiled expression consumes `seg1/…/segn` with slash-free segments each
    accepted by its expression, and captures exactly the segments -/
theorem sidRe_mem (e : Env) (ps : List (Str × Re)) (hne : ps ≠ [])
    (hsf : ∀ p ∈ ps, p.2.slashFree e = true ∧ p.2.noGrp = true) :
    ∀ s x, x ∈ (sidRe ps).run e s →
      ∃ segs : List Str, (∀ g ∈ segs, '/' ∉ g) ∧ x.1 = Str.joinWith '/' segs ∧
        x.2.2 = (ps.map (fun p => nm p.1)).zip segs ∧ acceptsSegs e ps segs = true := by
  induction ps with
  | nil => exact absurd rfl hne
  | cons p ps ih =>
    obtain ⟨k, ex⟩ := p
    have hk := hsf (k, ex) (by simp)
    cases ps with
    | nil =>
      intro s x hx
      simp only [sidRe] at hx
      obtain ⟨c, hc, hcap⟩ := (mem_run_grp e (nm k) ex s x).mp hx
      have hc0 := run_noGrp e ex hk.2 s _ hc
      have hsl := run_slashFree e ex hk.1 s _ hc
      have hacc := accepts_of_mem_run e ex s _ hc
      simp only at hc0 hsl hacc
      refine ⟨[x.1], ?_, ?_, ?_, ?_⟩
      · simpa using hsl
      · simp [Str.joinWith]
      · simp [hcap, hc0]
      · simp [acceptsSegs, hacc]
    | cons q qs =>
      intro s x hx
      simp only [sidRe] at hx
      obtain ⟨m1, r1, c1, m2, c2, h1, h2, hm, hcap⟩ := (mem_run_seq e _ _ s x).mp hx
      obtain ⟨c, hc, hcap1⟩ := (mem_run_grp e (nm k) ex s _).mp h1
      obtain ⟨m3, r3, c3, m4, c4, h3, h4, hm2, hcap2⟩ := (mem_run_seq e _ _ r1 _).mp h2
      obtain ⟨d, hd, hr1, hm3, hc3⟩ := (mem_run_cls e _ r1 _).mp h3
      simp only at hc hcap1 hm2 hcap2 hr1 hm3 hc3 h4
      have hd' : d = '/' := by simpa [Cls.test] using hd
      subst hd'
      have hc0 := run_noGrp e ex hk.2 s _ hc
      have hsl := run_slashFree e ex hk.1 s _ hc
      have hacc := accepts_of_mem_run e ex s _ hc
      simp only at hc0 hsl hacc
      obtain ⟨segs, hs1, hs2, hs3, hs4⟩ :=
        ih (by simp) (fun p hp => hsf p (by simp [hp])) r3 _ h4
      simp only at hs2 hs3
      have hlen := acceptsSegs_length e _ _ hs4
      cases segs with
      | nil => simp at hlen
      | cons g gs =>
        refine ⟨m1 :: g :: gs, ?_, ?_, ?_, ?_⟩
        · intro y hy
          simp only [List.mem_cons] at hy
          rcases hy with rfl | hy
          · exact hsl
          · exact hs1 y (by simpa using hy)
        · rw [hm, hm2, hm3, hs2]; simp [Str.joinWith]
        · rw [hcap, hcap1, hcap2, hc3, hc0, hs3]; simp
        · show (ex.accepts e m1 && acceptsSegs e (q :: qs) (g :: gs)) = true
          rw [hacc, hs4]; rfl

/-- accepted segments give a success of the compiled expression in front of any continuation -/
theorem sidRe_mem_of_accepts (e : Env) (ps : List (Str × Re)) (hne : ps ≠ []) :
    ∀ segs, acceptsSegs e ps segs = true → ∀ r,
      ∃ caps, (Str.joinWith '/' segs, r, caps) ∈ (sidRe ps).run e (Str.joinWith '/' segs ++ r) := by
  induction ps with
  | nil => exact absurd rfl hne
  | cons p ps ih =>
    obtain ⟨k, ex⟩ := p
    cases ps with
    | nil =>
      intro segs h r
      cases segs with
      | nil => simp [acceptsSegs] at h
      | cons g gs =>
        cases gs with
        | cons _ _ => simp [acceptsSegs] at h
        | nil =>
          simp only [acceptsSegs, Bool.and_eq_true] at h
          obtain ⟨c, hc⟩ := mem_run_of_accepts e ex g h.1 r
          refine ⟨c ++ [(nm k, g)], ?_⟩
          simp only [sidRe, Str.joinWith]
          rw [mem_run_grp]
          exact ⟨c, hc, rfl⟩
    | cons q qs =>
      intro segs h r
      cases segs with
      | nil => simp [acceptsSegs] at h
      | cons g gs =>
        simp only [acceptsSegs, Bool.and_eq_true] at h
        have hlen := acceptsSegs_length e _ _ h.2
        cases gs with
        | nil => simp at hlen
        | cons g2 gs =>
          obtain ⟨caps', hcaps'⟩ := ih (by simp) (g2 :: gs) h.2 r
          obtain ⟨c, hc⟩ := mem_run_of_accepts e ex g h.1 ('/' :: (Str.joinWith '/' (g2 :: gs) ++ r))
          refine ⟨(c ++ [(nm k, g)]) ++ ([] ++ caps'), ?_⟩
          simp only [sidRe]
          rw [mem_run_seq]
          refine ⟨g, '/' :: (Str.joinWith '/' (g2 :: gs) ++ r), c ++ [(nm k, g)],
            '/' :: Str.joinWith '/' (g2 :: gs), [] ++ caps', ?_, ?_, ?_, rfl⟩
          · rw [mem_run_grp]
            refine ⟨c, ?_, rfl⟩
            simpa [Str.joinWith] using hc
          · rw [mem_run_seq]
            refine ⟨['/'], Str.joinWith '/' (g2 :: gs) ++ r, [], Str.joinWith '/' (g2 :: gs), caps',
              ?_, hcaps', rfl, rfl⟩
            simp [Re.run, Cls.test]
          · simp [Str.joinWith]

/-! ### which success `$` selects -/

/-- the last placeholder expression satisfies `q` -/
def lastSat (q : Re → Bool) : List (Str × Re) → Bool
  | [] => false
  | [(_, e)] => q e
  | _ :: p :: ps => lastSat q (p :: ps)

theorem lastSat_of_all (q1 q2 : Re → Bool) (ps : List (Str × Re)) (hne : ps ≠ [])
    (h : ∀ p ∈ ps, q1 p.2 = true ∨ q2 p.2 = true) :
    lastSat q1 ps = true ∨ lastSat q2 ps = true := by
  induction ps with
  | nil => exact absurd rfl hne
  | cons p ps ih =>
    cases ps with
    | nil => obtain ⟨k, e⟩ := p; simpa [lastSat] using h (k, e) (by simp)
    | cons q qs =>
      simp only [lastSat]
      exact ih (by simp) (fun x hx => h x (by simp [hx]))

theorem dollarOk_sidRe (e : Env) (ps : List (Str × Re)) (h : lastSat isFree ps = true) :
    (sidRe ps).dollarOk e := by
  induction ps with
  | nil => simp [lastSat] at h
  | cons p ps ih =>
    obtain ⟨k, ex⟩ := p
    cases ps with
    | nil =>
      simp only [lastSat, isFree, beq_iff_eq] at h
      subst h
      exact dollarOk_grp e _ _ (dollarOk_star_notSlash e)
    | cons q qs =>
      simp only [lastSat] at h
      exact dollarOk_seq e _ _ (dollarOk_seq e _ _ (ih h))

/-- with a newline-free last expression, a string ending in a newline is never accepted -/
theorem not_accepts_nl (e : Env) (ps : List (Str × Re)) (h : lastSat (Re.nlFree e) ps = true) :
    ∀ m, acceptsSegs e ps (Str.splitOn '/' (m ++ ['\n'])) = true → False := by
  induction ps with
  | nil => simp [lastSat] at h
  | cons p ps ih =>
    obtain ⟨k, ex⟩ := p
    intro m hacc
    rcases Str.first_sep '/' m with hno | ⟨g, rest, rfl, hg⟩
    · have : '/' ∉ m ++ ['\n'] := by simp [hno]
      rw [Str.splitOn_of_not_mem _ _ this] at hacc
      cases ps with
      | cons q qs => simp [acceptsSegs] at hacc
      | nil =>
        simp only [acceptsSegs, Bool.and_eq_true, lastSat] at hacc h
        obtain ⟨c, hc⟩ := (accepts_iff e ex _).mp hacc.1
        have := run_nlFree e ex h _ _ hc
        simp at this
    · rw [List.append_assoc, List.cons_append, Str.splitOn_append_sep _ _ _ hg] at hacc
      cases ps with
      | nil =>
        have := Str.splitOn_ne_nil '/' (rest ++ ['\n'])
        match hs : Str.splitOn '/' (rest ++ ['\n']) with
        | [] => exact this hs
        | a :: as => rw [hs] at hacc; simp [acceptsSegs] at hacc
      | cons q qs =>
        simp only [acceptsSegs, Bool.and_eq_true, lastSat] at hacc h
        exact ih h rest hacc.2

/-- every `$`-success of the compiled expression consumed an accepted string -/
theorem search_some (e : Env) (ps : List (Str × Re)) (hne : ps ≠ [])
    (hsf : ∀ p ∈ ps, p.2.slashFree e = true ∧ p.2.noGrp = true)
    (s : Str) (caps : Caps) (h : (sidRe ps).search e s = some caps) :
    ∃ m, (s = m ∨ s = m ++ ['\n']) ∧ acceptsSegs e ps (Str.splitOn '/' m) = true ∧
      caps = (ps.map (fun p => nm p.1)).zip (Str.splitOn '/' m) := by
  simp only [Re.search, Option.map_eq_some_iff] at h
  obtain ⟨x, hx, rfl⟩ := h
  have hmem := List.mem_of_find?_eq_some hx
  have hd := List.find?_some hx
  have happ := run_app e _ s x hmem
  obtain ⟨segs, h1, h2, h3, h4⟩ := sidRe_mem e ps hne hsf s x hmem
  have hlen := acceptsSegs_length e _ _ h4
  have hsegne : segs ≠ [] := by
    intro h0; subst h0
    cases ps with
    | nil => exact hne rfl
    | cons _ _ => simp at hlen
  have hsp : Str.splitOn '/' x.1 = segs := by rw [h2]; exact Str.split_join '/' segs hsegne h1
  refine ⟨x.1, ?_, by rw [hsp]; exact h4, by rw [hsp]; exact h3⟩
  simp only [atDollar, Bool.or_eq_true, beq_iff_eq] at hd
  rcases hd with hd | hd
  · left; rw [← happ, hd]; simp
  · right; rw [← happ, hd]

/-- when the whole string is accepted, `search` finds the whole-string success -/
theorem search_of_accepts (e : Env) (ps : List (Str × Re)) (hne : ps ≠ [])
    (hsf : ∀ p ∈ ps, p.2.slashFree e = true ∧ p.2.noGrp = true)
    (hlast : lastSat isFree ps = true ∨ lastSat (Re.nlFree e) ps = true)
    (s : Str) (hacc : acceptsSegs e ps (Str.splitOn '/' s) = true) :
    (sidRe ps).search e s = some ((ps.map (fun p => nm p.1)).zip (Str.splitOn '/' s)) := by
  obtain ⟨caps0, h0⟩ := sidRe_mem_of_accepts e ps hne _ hacc []
  rw [Str.join_split, List.append_nil] at h0
  have hsome : ((sidRe ps).run e s).find? (fun p => atDollar p.2.1) ≠ none := by
    intro hnone
    have := List.find?_eq_none.mp hnone _ h0
    simp [atDollar] at this
  match hf : ((sidRe ps).run e s).find? (fun p => atDollar p.2.1) with
  | none => exact absurd hf hsome
  | some x =>
    have hmem := List.mem_of_find?_eq_some hf
    have hd := List.find?_some hf
    have happ := run_app e _ s x hmem
    have hrest : x.2.1 = [] := by
      rcases hlast with hfree | hnl
      · exact dollarOk_sidRe e ps hfree s x hf
      · simp only [atDollar, Bool.or_eq_true, beq_iff_eq] at hd
        rcases hd with hd | hd
        · exact hd
        · exfalso
          rw [hd] at happ
          rw [← happ] at hacc
          exact not_accepts_nl e ps hnl x.1 hacc
    have hx1 : x.1 = s := by rw [hrest] at happ; simpa using happ
    obtain ⟨m, _, _, hcaps⟩ := search_some e ps hne hsf s x.2.2 (by simp [Re.search, hf])
    obtain ⟨segs, h1, h2, h3, h4⟩ := sidRe_mem e ps hne hsf s x hmem
    have hlen := acceptsSegs_length e _ _ h4
    have hsegne : segs ≠ [] := by
      intro h0; subst h0
      cases ps with
      | nil => exact hne rfl
      | cons _ _ => simp at hlen
    have hsp : Str.splitOn '/' s = segs := by
      rw [← hx1, h2]; exact Str.split_join '/' segs hsegne h1
    simp only [Re.search, hf, Option.map_some]
    rw [h3, hsp]

/-! ### `matchToDict` without duplicate check -/

theorem matchToDict_false_cons (name v : Str) (rest : Caps) (acc : Dict) :
    Template.matchToDict false ((name, v) :: rest) acc =
      Template.matchToDict false rest (Dict.set acc (name.take (name.length - 3)) v) := by
  simp only [Template.matchToDict]
  split <;> simp

theorem matchToDict_false_ok (caps : Caps) : ∀ acc, ∃ d, Template.matchToDict false caps acc = .ok d := by
  induction caps with
  | nil => intro acc; exact ⟨acc, rfl⟩
  | cons p caps ih =>
    obtain ⟨name, v⟩ := p
    intro acc
    rw [matchToDict_false_cons]
    exact ih _

theorem dict_set_of_not_mem (acc : Dict) (k v : Str) (h : ∀ p ∈ acc, p.1 ≠ k) :
    Dict.set acc k v = acc ++ [(k, v)] := by
  induction acc with
  | nil => rfl
  | cons p acc ih =>
    obtain ⟨k', v'⟩ := p
    have hk : k' ≠ k := h (k', v') (by simp)
    simp [Dict.set, hk, ih (fun q hq => h q (by simp [hq]))]

theorem nm_strip (k : Str) : (nm k).take ((nm k).length - 3) = k := by
  simp [nm]

theorem matchToDict_zip (ks : List Str) (hnd : ks.Nodup) :
    ∀ (segs : List Str) (acc : Dict), (∀ p ∈ acc, p.1 ∉ ks) →
      Template.matchToDict false ((ks.map nm).zip segs) acc = .ok (acc ++ ks.zip segs) := by
  induction ks with
  | nil => intro segs acc _; simp [Template.matchToDict]
  | cons k ks ih =>
    intro segs acc hacc
    cases segs with
    | nil => simp [Template.matchToDict]
    | cons g gs =>
      simp only [List.map_cons, List.zip_cons_cons]
      rw [matchToDict_false_cons, nm_strip]
      rw [dict_set_of_not_mem acc k g (fun p hp hpk => hacc p hp (by simp [hpk]))]
      rw [List.nodup_cons] at hnd
      rw [ih hnd.2 gs]
      · simp
      · intro p hp
        simp only [List.mem_append, List.mem_singleton] at hp
        rcases hp with hp | rfl
        · intro hmem; exact hacc p hp (by simp [hmem])
        · exact hnd.1

/-! ### `format`, `keys`, `keysEq` on the field dictionary -/

theorem lookup_zip (ks : List Str) (hnd : ks.Nodup) :
    ∀ (segs : List Str), ∀ p ∈ ks.zip segs, Dict.get (ks.zip segs) p.1 = some p.2 := by
  induction ks with
  | nil => intro segs p hp; simp at hp
  | cons k ks ih =>
    intro segs p hp
    cases segs with
    | nil => simp at hp
    | cons g gs =>
      rw [List.nodup_cons] at hnd
      simp only [List.zip_cons_cons, List.mem_cons] at hp
      rcases hp with rfl | hp
      · simp [Dict.get]
      · have hmem : p.1 ∈ ks := (List.of_mem_zip (a := p.1) (b := p.2) hp).1
        have hne : p.1 ≠ k := by intro h; rw [h] at hmem; exact hnd.1 hmem
        have := ih hnd.2 gs p hp
        have hne' : (p.1 == k) = false := by simpa using hne
        simp only [Dict.get] at this ⊢
        rw [List.zip_cons_cons, List.lookup_cons, hne']
        exact this

theorem format_sid {t : Template} {ps : List (Str × Re)} (h : SidShape t ps) (d : Dict) :
    ∀ segs : List Str, segs.length = ps.length →
      (∀ p ∈ (ps.map (·.1)).zip segs, d.get p.1 = some p.2) →
      Template.format t d = some (Str.joinWith '/' segs) := by
  induction h with
  | one k e =>
    intro segs hlen hd
    match segs, hlen with
    | [g], _ =>
      have := hd (k, g) (by simp)
      simp only at this
      simp [Template.format, this, Str.joinWith]
  | cons k e rest p ps _ ih =>
    intro segs hlen hd
    match segs, hlen with
    | g :: g2 :: gs, hlen =>
      have h1 := hd (k, g) (by simp)
      have h2 := ih (g2 :: gs) (by simpa using hlen) (fun x hx => hd x (by
        simp only [List.map_cons, List.zip_cons_cons, List.mem_cons] at hx ⊢
        right; exact hx))
      simp only at h1
      simp [Template.format, h1, h2, Str.joinWith]

theorem keys_sid {t : Template} {ps : List (Str × Re)} (h : SidShape t ps)
    (hnd : (ps.map (·.1)).Nodup) : Template.keys t = ps.map (·.1) := by
  induction h with
  | one k e => simp [Template.keys]
  | cons k e rest p ps _ ih =>
    simp only [List.map_cons, List.nodup_cons] at hnd
    have := ih (by simpa using hnd.2)
    simp only [Template.keys, this, List.map_cons, List.cons.injEq, true_and]
    rw [List.filter_eq_self]
    intro a ha
    have : a ≠ k := by intro h; subst h; exact hnd.1 (by simpa using ha)
    simpa using this

theorem keysEq_zip (ks segs : List Str) (hlen : segs.length = ks.length) :
    Dict.keysEq (ks.zip segs) ks = true := by
  simp only [Dict.keysEq, Bool.and_eq_true, List.all_eq_true, List.contains_iff_mem]
  constructor
  · intro p hp
    exact (List.of_mem_zip (a := p.1) (b := p.2) hp).1
  · intro k hk
    simp only [Dict.hasKey, List.any_eq_true, beq_iff_eq]
    have : (ks.zip segs).map (·.1) = ks := List.map_fst_zip (by omega)
    rw [← this] at hk
    simp only [List.mem_map] at hk
    obtain ⟨p, hp, rfl⟩ := hk
    exact ⟨p, hp, rfl⟩

end SidL
