/-
  Spil.Lemmas.Str — `Str.splitOn` / `Str.joinWith` round trips and the order facts about
  `Str.lt` / `Str.ltList` (strict total orders).
-/
import Spil.Model.Str
import Spil.Lemmas.Lst

namespace Str

theorem splitOn_ne_nil (sep : Char) (s : Str) : splitOn sep s ≠ [] := by
  induction s with
  | nil => simp [splitOn]
  | cons c cs ih =>
    simp only [splitOn]; split
    · simp
    · split <;> simp_all

theorem join_split (sep : Char) (s : Str) : joinWith sep (splitOn sep s) = s := by
  induction s with
  | nil => simp [splitOn, joinWith]
  | cons c cs ih =>
    simp only [splitOn]; split
    · next h =>
      subst h
      have := splitOn_ne_nil c cs
      match hs : splitOn c cs with
      | [] => exact absurd hs this
      | p :: ps => rw [hs] at ih; simp [joinWith, ih]
    · next h =>
      match hs : splitOn sep cs with
      | [] => exact absurd hs (splitOn_ne_nil sep cs)
      | [p] => rw [hs] at ih; simp [joinWith] at ih ⊢; exact ih
      | p :: q :: ps => rw [hs] at ih; simp [joinWith] at ih ⊢; exact ih

theorem splitOn_inj (sep : Char) (a b : Str) (h : splitOn sep a = splitOn sep b) : a = b := by
  rw [← join_split sep a, ← join_split sep b, h]

theorem split_join (sep : Char) (ps : List Str) (hne : ps ≠ [])
    (h : ∀ p ∈ ps, sep ∉ p) : splitOn sep (joinWith sep ps) = ps := by
  induction ps with
  | nil => exact absurd rfl hne
  | cons p ps ih =>
    cases ps with
    | nil =>
      simp only [joinWith]
      have hp : sep ∉ p := h p (by simp)
      clear ih h hne
      induction p with
      | nil => simp [splitOn]
      | cons c cs ih2 =>
        have hc : c ≠ sep := by intro e; apply hp; simp [e]
        have hcs : sep ∉ cs := by intro e; apply hp; simp [e]
        simp [splitOn, hc, ih2 hcs]
    | cons q qs =>
      have ih' := ih (by simp) (fun x hx => h x (by simp [hx]))
      have hp : sep ∉ p := h p (by simp)
      simp only [joinWith]
      clear ih h hne
      induction p with
      | nil => simp [splitOn, ih']
      | cons c cs ih2 =>
        have hc : c ≠ sep := by intro e; apply hp; simp [e]
        have hcs : sep ∉ cs := by intro e; apply hp; simp [e]
        simp [splitOn, hc, ih2 hcs]

/-- number of pieces: one more per separator -/
theorem splitOn_length_cons (sep c : Char) (s : Str) :
    (splitOn sep (c :: s)).length =
      if c = sep then (splitOn sep s).length + 1 else (splitOn sep s).length := by
  simp only [splitOn]
  split
  · simp
  · match hs : splitOn sep s with
    | [] => exact absurd hs (splitOn_ne_nil sep s)
    | p :: ps => simp

/-! ### order -/

/-- code-point comparison of characters -/
def charLt (a b : Char) : Bool := decide (a.toNat < b.toNat)

theorem charLt_sto : Lst.STO charLt where
  irrefl a := by simp [charLt]
  trans a b c hab hbc := by simp [charLt] at *; omega
  tri a b hab hba := by
    simp [charLt] at *
    exact Char.toNat_inj.1 (by omega)

theorem lt_eq_lexLt : ∀ a b : Str, lt a b = Lst.lexLt charLt a b
  | [], [] => rfl
  | [], _ :: _ => rfl
  | _ :: _, [] => rfl
  | a :: as, b :: bs => by
    simp only [lt, Lst.lexLt, charLt, lt_eq_lexLt as bs, decide_eq_true_eq, gt_iff_lt]

theorem lt_sto : Lst.STO lt := by
  have : lt = Lst.lexLt charLt := by funext a b; exact lt_eq_lexLt a b
  rw [this]; exact Lst.lexLt_sto charLt_sto

theorem ltList_eq_lexLt : ∀ a b : List Str, ltList a b = Lst.lexLt lt a b
  | [], [] => rfl
  | [], _ :: _ => rfl
  | _ :: _, [] => rfl
  | a :: as, b :: bs => by
    simp only [ltList, Lst.lexLt, ltList_eq_lexLt as bs]

theorem ltList_sto : Lst.STO ltList := by
  have : ltList = Lst.lexLt lt := by funext a b; exact ltList_eq_lexLt a b
  rw [this]; exact Lst.lexLt_sto lt_sto

/-- contiguity of equal-prefix classes under `ltList` -/
theorem ltList_take_between (i : Nat) (a b c : List Str) (hab : ltList a b = false)
    (hbc : ltList b c = false) (hac : a.take i = c.take i) : b.take i = a.take i := by
  rw [ltList_eq_lexLt] at hab hbc
  exact Lst.lexLt_take_between lt_sto i a b c hab hbc hac

/-- the order `sorted(..., key=lambda x: x.split('/'), reverse=True)` sorts by -/
def segGt (a b : Str) : Bool := ltList (splitOn '/' b) (splitOn '/' a)

theorem segGt_sto : Lst.STO segGt :=
  ltList_sto.comapRev (splitOn '/') (splitOn_inj '/')

end Str
