/-
  Spil.Lemmas.GtLast — the head of `sortedPick` (the overall greatest entry), one group only when
  the segments before '>' are literal, `FindInAll` when every search is routed to one path Finder,
  and the shape of `Sid.get_last`.
-/
import Spil.Lemmas.GtPath

namespace GtL

open Spec Find GlobL

/-! ### the first pick is the greatest entry of all -/

theorem head_sortedPick (idx : Nat) (founds : List Str) (y : Str) (t : List Str)
    (h : sortedPick idx founds = y :: t) : y ∈ founds ∧ ∀ z ∈ founds, segGe y z := by
  rw [sortedPick_eq] at h
  have hp := sortedFounds_pairwise founds
  cases hs : sortedFounds founds with
  | nil => rw [hs] at h; simp [groupHeads] at h
  | cons a l =>
    rw [hs, groupHeads_cons] at h
    injection h with h _
    subst h
    rw [hs, List.pairwise_cons] at hp
    refine ⟨(mem_sortedFounds founds a).1 (by rw [hs]; simp), fun z hz => ?_⟩
    have hz' : z ∈ a :: l := by rw [← hs]; exact (mem_sortedFounds founds z).2 hz
    rcases List.mem_cons.1 hz' with rfl | hz'
    · exact Str.ltList_sto.irrefl _
    · exact Str.ltList_sto.asymm (hp.1 z hz')

theorem sortedPick_eq_nil (idx : Nat) (founds : List Str) (h : sortedPick idx founds = []) :
    founds = [] := by
  cases founds with
  | nil => rfl
  | cons a l =>
    obtain ⟨r, hr, _⟩ := C09.c09_pick_max idx (a :: l) a (by simp)
    rw [h] at hr; cases hr

/-! ### literal segments before '>' : one group -/

theorem take_of_all2_glob (idx : Nat) {ps xs : List Str} (h : All2 Glob ps xs)
    (hlit : ∀ seg ∈ ps.take idx, '*' ∉ seg ∧ '?' ∉ seg ∧ '[' ∉ seg) : xs.take idx = ps.take idx := by
  induction h generalizing idx with
  | nil => simp
  | @cons a b as bs hab _ ih =>
    cases idx with
    | zero => simp
    | succ i =>
      simp only [List.take_succ_cons] at hlit ⊢
      obtain ⟨h1, h2, h3⟩ := hlit a (by simp)
      rw [(C08.c08_literal a b h1 h2 h3).1 hab, ih i (fun seg hs => hlit seg (List.mem_cons_of_mem _ hs))]

/-- an entry matched by a search whose first `idx` segments are literal starts with them -/
theorem groupKey_of_glob (idx : Nat) (p x : Str) (hg : Glob p x)
    (hlit : ∀ seg ∈ (Str.splitOn '/' p).take idx, '*' ∉ seg ∧ '?' ∉ seg ∧ '[' ∉ seg) :
    groupKey idx x = (Str.splitOn '/' p).take idx :=
  take_of_all2_glob idx (Glob.comps hg) hlit

/-! ### `FindInAll` when every typed search goes to one path Finder -/

theorem groupByFinder_same (d : DCtx) (i : Nat) : ∀ (rest acc : List Sid),
    (∀ s ∈ rest, d.finderFor s = some i) → d.groupByFinder rest [(i, acc)] = [(i, acc ++ rest)]
  | [], acc, _ => by simp [DCtx.groupByFinder]
  | s :: rest, acc, h => by
    have hs := h s (by simp)
    simp only [DCtx.groupByFinder, hs, List.any_cons, List.any_nil, beq_self_eq_true, Bool.or_false,
      if_true, List.map_cons, List.map_nil]
    rw [groupByFinder_same d i rest (acc ++ [s]) (fun x hx => h x (List.mem_cons_of_mem _ hx))]
    simp

theorem groupByFinder_all (d : DCtx) (i : Nat) (s0 : Sid) (rest : List Sid)
    (h : ∀ s ∈ s0 :: rest, d.finderFor s = some i) :
    d.groupByFinder (s0 :: rest) [] = [(i, s0 :: rest)] := by
  have hs := h s0 (by simp)
  simp only [DCtx.groupByFinder, hs, List.any_nil, Bool.false_eq_true, if_false, List.nil_append]
  rw [groupByFinder_same d i rest [s0] (fun x hx => h x (List.mem_cons_of_mem _ hx))]
  simp

theorem finderDoFind_paths (d : DCtx) (w : World) (i : Nat) (config : Option Str)
    (hfi : d.data.finders[i]? = some (.paths config)) (searches : List Sid) :
    d.finderDoFind w d.fuel i searches = d.pathsDoFind w config searches := by
  have : d.fuel = (2 * d.data.finders.length + 1) + 1 := rfl
  rw [this, DCtx.finderDoFind]
  simp only [hfi]

/-- `FindInAll().find(search)` when all the typed searches `search` unfolds into are routed to the
    path Finder with index `i` -/
theorem findInAll_paths (d : DCtx) (w : World) (search : Str) (searches : List Sid) (i : Nat)
    (config : Option Str) (r : List Str)
    (hu : d.ctx.unfoldSearch search false false = .ok searches)
    (hroute : ∀ s ∈ searches, d.finderFor s = some i)
    (hfi : d.data.finders[i]? = some (.paths config))
    (hr : d.pathsDoFind w config searches = .ok r) :
    d.findInAll w search = .ok (Lst.dedupBy (· == ·) r) := by
  unfold DCtx.findInAll
  rw [hu]
  cases searches with
  | nil =>
    have : r = [] := by
      simp only [DCtx.pathsDoFind, DCtx.doFindWith, List.isEmpty_nil, if_true] at hr
      injection hr with hr; exact hr.symm
    subst this
    simp [DCtx.groupByFinder, Ctx.flatMapE, Ctx.mapE, Lst.dedupBy]
  | cons s0 rest =>
    simp only [groupByFinder_all d i s0 rest hroute, Ctx.flatMapE, Ctx.mapE,
      finderDoFind_paths d w i config hfi, hr, List.flatten_cons, List.flatten_nil, List.append_nil]

/-! ### `Sid.get_last` -/

/-- the body of `get_last` for the resolved key `k` -/
def getLastK (d : DCtx) (w : World) (x : Sid) (k : Str) : Except Err Sid :=
  match d.ctx.getWithKw x [(k, some ['>'])] with
  | .error e => .error e
  | .ok s =>
    match d.findOneAll w s.string with
    | .error e => .error e
    | .ok none => .ok Sid.empty
    | .ok (some f) =>
      match d.ctx.sidOfString f with
      | .error e => .error e
      | .ok found =>
        match found.fields.get k with
        | some v => .ok (if v.isEmpty then Sid.empty else found)
        | none => .ok Sid.empty

theorem getLast_K (d : DCtx) (w : World) (x : Sid) (key : Option Str) :
    d.getLast w x key =
      if x.fields.isEmpty then .ok Sid.empty else getLastK d w x (lastKey x key) := rfl

theorem getLastK_eq (d : DCtx) (w : World) (x : Sid) (k : Str) :
    getLastK d w x k =
      match d.ctx.getWithKw x [(k, some ['>'])] with
      | .error e => .error e
      | .ok s =>
        match d.findInAll w s.string with
        | .error e => .error e
        | .ok l => lastAnswer d.ctx k l.head? := by
  unfold getLastK DCtx.findOneAll
  cases d.ctx.getWithKw x [(k, some ['>'])] with
  | error e => rfl
  | ok s =>
    simp only
    cases d.findInAll w s.string with
    | error e => rfl
    | ok l =>
      cases l with
      | nil => rfl
      | cons f t => rfl

theorem getLast_eq (d : DCtx) (w : World) (x : Sid) (key : Option Str) :
    d.getLast w x key =
      if x.fields.isEmpty then .ok Sid.empty else
      match d.ctx.getWithKw x [(lastKey x key, some ['>'])] with
      | .error e => .error e
      | .ok s =>
        match d.findInAll w s.string with
        | .error e => .error e
        | .ok l => lastAnswer d.ctx (lastKey x key) l.head? := by
  rw [getLast_K, getLastK_eq]

end GtL
