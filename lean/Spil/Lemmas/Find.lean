/-
  Spil.Lemmas.Find — helper lemmas for C08 / C09.
-/
import Spil.Spec.Find
import Spil.Lemmas.Lst
import Spil.Lemmas.Str
import Spil.Lemmas.Re

namespace Spec

/-! ### inversion of the glob relation -/

theorem glob_nil (s : Str) : Glob [] s ↔ s = [] := by
  constructor
  · intro h; cases h; rfl
  · rintro rfl; exact .nil

theorem glob_star_nil (p : Str) : Glob ('*' :: p) [] ↔ Glob p [] := by
  constructor
  · intro h
    cases h with
    | starSkip h => exact h
  · exact .starSkip

theorem glob_star_cons (p : Str) (c : Char) (s : Str) :
    Glob ('*' :: p) (c :: s) ↔ (c ≠ '/' ∧ Glob ('*' :: p) s) ∨ Glob p (c :: s) := by
  constructor
  · intro h
    cases h with
    | starSkip h => exact Or.inr h
    | starTake hc h => exact Or.inl ⟨hc, h⟩
    | lit h => contradiction
  · rintro (⟨hc, h⟩ | h)
    · exact .starTake hc h
    · exact .starSkip h

theorem glob_q (p s : Str) :
    Glob ('?' :: p) s ↔ ∃ c s', s = c :: s' ∧ c ≠ '/' ∧ Glob p s' := by
  constructor
  · intro h
    cases h with
    | one hc h => exact ⟨_, _, rfl, hc, h⟩
    | lit _ h => contradiction
  · rintro ⟨c, s', rfl, hc, h⟩
    exact .one hc h

theorem glob_lit (a : Char) (p s : Str) (h1 : a ≠ '*') (h2 : a ≠ '?') (h3 : a ≠ '[') :
    Glob (a :: p) s ↔ ∃ s', s = a :: s' ∧ Glob p s' := by
  constructor
  · intro h
    cases h with
    | starSkip h => contradiction
    | starTake _ h => contradiction
    | one _ h => contradiction
    | lit _ _ _ h => exact ⟨_, rfl, h⟩
  · rintro ⟨s', rfl, h⟩
    exact .lit h1 h2 h3 h

end Spec

namespace Find

open Spec

/-! ### `glob2re` -/

theorem glob2re_cons (c : Char) (cs : Str) (items : List Re) (hc : c ≠ '[')
    (hi : glob2re cs = some items) :
    glob2re (c :: cs) = some ((if c = '*' then Re.star .notSlash else if c = '?' then
      Re.cls .notSlash else Re.cls (.lit c)) :: items) := by
  have hc' : (c == '[') = false := by simpa using hc
  simp only [glob2re, hc', hi]
  by_cases h1 : c = '*'
  · simp [h1]
  · by_cases h2 : c = '?'
    · subst h2; simp
    · simp [h1, h2]

theorem glob2re_isSome (pat : Str) (hb : '[' ∉ pat) : ∃ items, glob2re pat = some items := by
  induction pat with
  | nil => exact ⟨[], rfl⟩
  | cons c cs ih =>
    simp only [List.mem_cons, not_or] at hb
    obtain ⟨items, hi⟩ := ih hb.2
    exact ⟨_, glob2re_cons c cs items (fun e => hb.1 e.symm) hi⟩

/-- `globB` on a `[`-free pattern is `matchZ` of the translated sequence -/
theorem globB_of_some (e : Env) (pat item : Str) (items : List Re) (hi : glob2re pat = some items) :
    globB e pat item = (Re.mkSeq items).matchZ e item := by
  simp [globB, hi]

theorem globB_iff_glob (e : Env) (pat : Str) (hb : '[' ∉ pat) :
    ∀ item, globB e pat item = true ↔ Glob pat item := by
  induction pat with
  | nil =>
    intro item
    rw [globB_of_some e [] item [] rfl, Re.matchZ_mkSeq_nil, glob_nil]
  | cons c cs ih =>
    simp only [List.mem_cons, not_or] at hb
    have hc : c ≠ '[' := fun e => hb.1 e.symm
    obtain ⟨items, hi⟩ := glob2re_isSome cs hb.2
    have ih' : ∀ item, (Re.mkSeq items).matchZ e item = true ↔ Glob cs item := by
      intro item; rw [← globB_of_some e cs item items hi]; exact ih hb.2 item
    intro item
    rw [globB_of_some e _ item _ (glob2re_cons c cs items hc hi)]
    by_cases h1 : c = '*'
    · subst h1
      simp only [if_true]
      rw [Re.matchZ_mkSeq_star]
      induction item with
      | nil =>
        refine (exists_starSplits_nil e .notSlash
          (fun r => (Re.mkSeq items).matchZ e r = true)).trans ?_
        rw [ih', glob_star_nil]
      | cons x xs ih2 =>
        refine (exists_starSplits_cons e .notSlash x xs
          (fun r => (Re.mkSeq items).matchZ e r = true)).trans ?_
        rw [ih2, ih', glob_star_cons]
        simp [Cls.test]
    · by_cases h2 : c = '?'
      · subst h2
        simp only [if_neg h1, if_true]
        rw [Re.matchZ_mkSeq_cls, glob_q]
        simp only [Cls.test, bne_iff_ne, ne_eq, ih']
      · simp only [if_neg h1, if_neg h2]
        rw [Re.matchZ_mkSeq_cls, glob_lit c cs item h1 h2 hc]
        simp only [Cls.test, beq_iff_eq, ih']
        constructor
        · rintro ⟨x, xs, rfl, rfl, h⟩; exact ⟨xs, rfl, h⟩
        · rintro ⟨xs, rfl, h⟩; exact ⟨c, xs, rfl, rfl, h⟩

/-! ### `scanList` / `starSearchGo` -/

/-- first occurrences of the items of `xs` that are not in `done` -/
def fresh (done xs : List Str) : List Str :=
  (Lst.dedupBy (· == ·) xs).filter (fun x => !done.contains x)

theorem fresh_nil_left (xs : List Str) : fresh [] xs = Lst.dedupBy (· == ·) xs := by
  simp only [fresh, List.contains_nil, Bool.not_false]
  exact List.filter_eq_self.2 (fun _ _ => rfl)

theorem fresh_nil_right (done : List Str) : fresh done [] = [] := by
  simp [fresh, Lst.dedupBy]

theorem fresh_cons_new (done : List Str) (x : Str) (xs : List Str) (hx : done.contains x = false) :
    fresh done (x :: xs) = x :: fresh (done ++ [x]) xs := by
  simp only [fresh, Lst.dedupBy, List.filter_cons, hx, Bool.not_false, if_true, List.filter_filter,
    List.cons.injEq, true_and]
  apply List.filter_congr
  intro y _
  simp only [List.contains_append, List.contains_cons, List.contains_nil, Bool.or_false, Bool.not_or]
  rw [Bool.beq_comm (a := y)]

theorem fresh_cons_old (done : List Str) (x : Str) (xs : List Str) (hx : done.contains x = true) :
    fresh done (x :: xs) = fresh done xs := by
  simp only [fresh, Lst.dedupBy, List.filter_cons, hx, Bool.not_true, List.filter_filter]
  simp only [Bool.false_eq_true, if_false]
  apply List.filter_congr
  intro y _
  by_cases hy : x = y
  · subst hy
    have : x ∈ done := by simpa using hx
    simp [this]
  · have : (x == y) = false := by simpa using hy
    simp [this]

theorem fresh_append (done a b : List Str) :
    fresh done (a ++ b) = fresh done a ++ fresh (done ++ fresh done a) b := by
  simp only [fresh, Lst.dedupBy_append, List.filter_append, List.filter_filter]
  congr 1
  apply List.filter_congr
  intro y _
  simp only [List.contains_append]
  cases hd : done.contains y with
  | true => simp
  | false =>
    simp only [Bool.not_false, Bool.true_and, Bool.false_or]
    congr 1
    rw [Bool.eq_iff_iff]
    simp only [List.contains_iff_mem, List.mem_filter, Lst.mem_dedupBy]
    have : ¬ y ∈ done := by simpa using hd
    simp [this]

theorem scanList_eq (e : Env) (re : Re) (l done : List Str) :
    scanList e re false l done =
      (fresh done (l.filter (re.matchZ e)), done ++ fresh done (l.filter (re.matchZ e))) := by
  induction l generalizing done with
  | nil => simp [scanList, fresh_nil_right]
  | cons item rest ih =>
    simp only [scanList]
    cases hm : re.matchZ e item with
    | false => simp [hm, ih]
    | true =>
      cases hd : done.contains item with
      | true => simp [hm, ih, fresh_cons_old _ _ _ hd]
      | false =>
        simp [hm, ih, fresh_cons_new _ _ _ hd]

theorem starSearchGo_eq (e : Env) (l : List Str) (pats : List Str) (hb : ∀ p ∈ pats, '[' ∉ p) :
    ∀ done, starSearchGo e ⟨l, false⟩ pats done =
      .ok (fresh done (pats.flatMap (fun p => l.filter (fun x => globB e p x)))) := by
  induction pats with
  | nil => intro done; simp [starSearchGo, fresh_nil_right]
  | cons p ps ih =>
    intro done
    obtain ⟨items, hi⟩ := glob2re_isSome p (hb p (by simp))
    have hg : (fun x => globB e p x) = (Re.mkSeq items).matchZ e := by
      funext x; exact globB_of_some e p x items hi
    simp only [starSearchGo, hi, scanList_eq, List.flatMap_cons, hg]
    rw [ih (fun q hq => hb q (List.mem_cons_of_mem _ hq)), fresh_append]

/-! ### `groupHeads` -/

/-- items of `l` whose key differs from their predecessor's (`prev` before the first) -/
def gh (key : Str → List Str) : Str → List Str → List Str
  | _, [] => []
  | prev, y :: rest => if key prev == key y then gh key y rest else y :: gh key y rest

theorem groupHeads_cons (key : Str → List Str) (x : Str) (l : List Str) :
    groupHeads key (x :: l) = x :: gh key x l := by
  induction l generalizing x with
  | nil => simp [groupHeads, gh]
  | cons y rest ih =>
    simp only [groupHeads, gh, ih y]
    split <;> rfl

theorem gh_sublist (key : Str → List Str) (prev : Str) (l : List Str) :
    (gh key prev l).Sublist l := by
  induction l generalizing prev with
  | nil => simp [gh]
  | cons y rest ih =>
    simp only [gh]; split
    · exact (ih y).trans (List.sublist_cons_self _ _)
    · exact (ih y).cons_cons _

theorem groupHeads_sublist (key : Str → List Str) (l : List Str) : (groupHeads key l).Sublist l := by
  cases l with
  | nil => simp [groupHeads]
  | cons x l => rw [groupHeads_cons]; exact (gh_sublist key x l).cons_cons _

/-- every item is represented by a head that has the same key and is equal or earlier -/
theorem gh_repr (key : Str → List Str) (R : Str → Str → Prop) (prev : Str) (l : List Str)
    (hp : (prev :: l).Pairwise R) :
    ∀ x ∈ l, ∃ r ∈ prev :: gh key prev l, key r = key x ∧ (r = x ∨ R r x) := by
  induction l generalizing prev with
  | nil => simp
  | cons y rest ih =>
    rw [List.pairwise_cons] at hp
    have hp2 := hp.2
    have ih' := ih y hp2
    rw [List.pairwise_cons] at hp2
    intro x hx
    by_cases hk : key prev = key y
    · have hgh : gh key prev (y :: rest) = gh key y rest := by simp [gh, hk]
      rw [hgh]
      rcases List.mem_cons.1 hx with rfl | hx'
      · exact ⟨prev, by simp, hk, Or.inr (hp.1 _ (by simp))⟩
      · obtain ⟨r, hr, hkr, hrx⟩ := ih' x hx'
        rcases List.mem_cons.1 hr with hry | hr'
        · exact ⟨prev, by simp, hk.trans (hry ▸ hkr), Or.inr (hp.1 _ hx)⟩
        · exact ⟨r, List.mem_cons_of_mem _ hr', hkr, hrx⟩
    · have hgh : gh key prev (y :: rest) = y :: gh key y rest := by simp [gh, hk]
      rw [hgh]
      rcases List.mem_cons.1 hx with rfl | hx'
      · exact ⟨x, by simp, rfl, Or.inl rfl⟩
      · obtain ⟨r, hr, hkr, hrx⟩ := ih' x hx'
        exact ⟨r, List.mem_cons_of_mem _ hr, hkr, hrx⟩

theorem groupHeads_repr (key : Str → List Str) (R : Str → Str → Prop) (l : List Str)
    (hp : l.Pairwise R) :
    ∀ x ∈ l, ∃ r ∈ groupHeads key l, key r = key x ∧ (r = x ∨ R r x) := by
  cases l with
  | nil => simp
  | cons a l =>
    rw [groupHeads_cons]
    intro x hx
    rcases List.mem_cons.1 hx with rfl | hx
    · exact ⟨x, by simp, rfl, Or.inl rfl⟩
    · exact gh_repr key R a l hp x hx

/-- when key classes are contiguous (`between`), heads have pairwise different keys -/
theorem gh_keys (key : Str → List Str) (R : Str → Str → Prop)
    (between : ∀ a b c, R a b → R b c → key a = key c → key b = key a)
    (prev : Str) (l : List Str) (hp : (prev :: l).Pairwise R) :
    (∀ r ∈ gh key prev l, key r ≠ key prev) ∧
      (gh key prev l).Pairwise (fun a b => key a ≠ key b) := by
  induction l generalizing prev with
  | nil => simp [gh]
  | cons y rest ih =>
    rw [List.pairwise_cons] at hp
    obtain ⟨ih1, ih2⟩ := ih y hp.2
    have hp2 := List.pairwise_cons.1 hp.2
    by_cases hk : key prev = key y
    · have hgh : gh key prev (y :: rest) = gh key y rest := by simp [gh, hk]
      rw [hgh, hk]
      exact ⟨ih1, ih2⟩
    · have hgh : gh key prev (y :: rest) = y :: gh key y rest := by simp [gh, hk]
      rw [hgh]
      refine ⟨?_, List.pairwise_cons.2 ⟨fun r hr => (ih1 r hr).symm, ih2⟩⟩
      intro r hr
      rcases List.mem_cons.1 hr with rfl | hr
      · exact fun e => hk e.symm
      · intro hkr
        have hr' : r ∈ rest := (gh_sublist key y rest).subset hr
        have := between prev y r (hp.1 y (by simp)) (hp2.1 r hr') hkr.symm
        exact hk this.symm

theorem groupHeads_keys (key : Str → List Str) (R : Str → Str → Prop)
    (between : ∀ a b c, R a b → R b c → key a = key c → key b = key a)
    (l : List Str) (hp : l.Pairwise R) :
    (groupHeads key l).Pairwise (fun a b => key a ≠ key b) := by
  cases l with
  | nil => simp [groupHeads]
  | cons a l =>
    rw [groupHeads_cons]
    obtain ⟨h1, h2⟩ := gh_keys key R between a l hp
    exact List.pairwise_cons.2 ⟨fun r hr => (h1 r hr).symm, h2⟩

/-! ### `sortedPick` -/

/-- the sorted, duplicate-free list `sortedPick` groups -/
def sortedFounds (founds : List Str) : List Str :=
  Lst.sortBy Str.segGt (Lst.dedupBy (· == ·) founds)

theorem sortedPick_eq (index : Nat) (founds : List Str) :
    sortedPick index founds = groupHeads (groupKey index) (sortedFounds founds) := rfl

theorem mem_sortedFounds (founds : List Str) (x : Str) : x ∈ sortedFounds founds ↔ x ∈ founds := by
  simp [sortedFounds, Lst.mem_sortBy, Lst.mem_dedupBy]

theorem sortedFounds_pairwise (founds : List Str) :
    (sortedFounds founds).Pairwise (fun a b => Str.segGt a b = true) :=
  Lst.sortBy_pairwise Str.segGt_sto _ (Lst.dedupBy_nodup founds)

theorem groupKey_between (index : Nat) (a b c : Str) (hab : Str.segGt a b = true)
    (hbc : Str.segGt b c = true) (hac : groupKey index a = groupKey index c) :
    groupKey index b = groupKey index a := by
  apply Str.ltList_take_between index _ _ _ _ _ hac
  · exact Str.ltList_sto.asymm hab
  · exact Str.ltList_sto.asymm hbc

end Find
