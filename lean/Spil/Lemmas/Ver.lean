/-
  Spil.Lemmas.Ver — version rendering (`Str.pad3`), reading back (`DCtx.parseNat`) and the
  monotonicity of the glob relation under replacing a literal run by '*'.
-/
import Spil.Spec.FS
import Spil.Spec.Find
import Spil.Lemmas.Str
import Spil.Lemmas.StrSplit
import Spil.Lemmas.Find

namespace Str

/-! ### decimal digits -/

/-- the ASCII digit of `k` -/
def digitChar (k : Nat) : Char := Char.ofNat (48 + k)

theorem digitChar_cases (k : Nat) (h : k < 10) :
    k = 0 ∨ k = 1 ∨ k = 2 ∨ k = 3 ∨ k = 4 ∨ k = 5 ∨ k = 6 ∨ k = 7 ∨ k = 8 ∨ k = 9 := by omega

theorem digitChar_toNat (k : Nat) (h : k < 10) : (digitChar k).toNat = 48 + k := by
  rcases digitChar_cases k h with h | h | h | h | h | h | h | h | h | h <;> subst h <;> decide

theorem digitChar_ge (k : Nat) (h : k < 10) : '0' ≤ digitChar k := by
  rcases digitChar_cases k h with h | h | h | h | h | h | h | h | h | h <;> subst h <;> decide

theorem digitChar_le (k : Nat) (h : k < 10) : digitChar k ≤ '9' := by
  rcases digitChar_cases k h with h | h | h | h | h | h | h | h | h | h <;> subst h <;> decide

theorem digitChar_ne_v (k : Nat) (h : k < 10) : digitChar k ≠ 'v' := by
  intro e
  have := digitChar_toNat k h
  rw [e] at this
  have h2 : ('v' : Char).toNat = 118 := by decide
  omega

theorem natDigits_one (fuel n : Nat) (hf : 0 < fuel) (h : n < 10) :
    natDigits fuel n = [digitChar n] := by
  cases fuel with
  | zero => omega
  | succ f => simp [natDigits, h, digitChar]

theorem natDigits_two (fuel n : Nat) (hf : 1 < fuel) (h1 : 10 ≤ n) (h2 : n < 100) :
    natDigits fuel n = [digitChar (n / 10), digitChar (n % 10)] := by
  cases fuel with
  | zero => omega
  | succ f =>
    have : ¬ n < 10 := by omega
    simp only [natDigits, this, if_false]
    rw [natDigits_one f (n / 10) (by omega) (by omega)]
    simp [digitChar]

theorem natDigits_three (fuel n : Nat) (hf : 2 < fuel) (h1 : 100 ≤ n) (h2 : n < 1000) :
    natDigits fuel n = [digitChar (n / 100), digitChar (n / 10 % 10), digitChar (n % 10)] := by
  cases fuel with
  | zero => omega
  | succ f =>
    have : ¬ n < 10 := by omega
    simp only [natDigits, this, if_false]
    rw [natDigits_two f (n / 10) (by omega) (by omega) (by omega)]
    have : n / 10 / 10 = n / 100 := by omega
    simp [digitChar, this]

/-- normal form of `'%03d' % n` below 1000 -/
theorem pad3_lt (n : Nat) (h : n < 1000) :
    pad3 n = [digitChar (n / 100), digitChar (n / 10 % 10), digitChar (n % 10)] := by
  have hz : ('0' : Char) = digitChar 0 := by decide
  unfold pad3
  by_cases h1 : n < 10
  · rw [natDigits_one _ n (by omega) h1]
    have a : n / 100 = 0 := by omega
    have b : n / 10 % 10 = 0 := by omega
    have c : n % 10 = n := by omega
    simp [a, b, c, List.replicate]
    exact hz
  · by_cases h2 : n < 100
    · rw [natDigits_two _ n (by omega) (by omega) h2]
      have a : n / 100 = 0 := by omega
      have b : n / 10 % 10 = n / 10 := by omega
      simp [a, b]
      exact hz
    · rw [natDigits_three _ n (by omega) (by omega) h]
      simp

/-- the number of digits grows with the number -/
theorem natDigits_length (fuel : Nat) : ∀ n k, n < fuel → 10 ^ k ≤ n → k + 1 ≤ (natDigits fuel n).length := by
  induction fuel with
  | zero => intro n k h; omega
  | succ f ih =>
    intro n k hf hk
    simp only [natDigits]
    split
    · next h10 =>
      cases k with
      | zero => simp
      | succ k' =>
        have : 10 ≤ 10 ^ (k' + 1) := by
          rw [Nat.pow_succ]
          have := Nat.one_le_pow k' 10 (by omega)
          omega
        omega
    · next h10 =>
      rw [List.length_append]
      cases k with
      | zero => simp
      | succ k' =>
        have h1 : 10 ^ k' ≤ n / 10 := by
          rw [Nat.le_div_iff_mul_le (by omega)]
          rw [Nat.pow_succ] at hk
          exact hk
        have := ih (n / 10) k' (by omega) h1
        simp
        omega

theorem pad3_length_ge (n : Nat) : (natDigits (n + 1) n).length ≤ (pad3 n).length := by
  unfold pad3
  simp

theorem pad3_wide (n : Nat) (h : 1000 ≤ n) : 4 ≤ (pad3 n).length := by
  have := natDigits_length (n + 1) n 3 (by omega) (by simpa using h)
  have := pad3_length_ge n
  omega

end Str

namespace DCtx

open Str

/-- `int()` of three ASCII digits -/
theorem parseNat_three (a b c : Nat) (ha : a < 10) (hb : b < 10) (hc : c < 10) :
    parseNat [digitChar a, digitChar b, digitChar c] = some (a * 100 + b * 10 + c) := by
  simp only [parseNat, List.foldl]
  simp [digitChar_ge, digitChar_le, digitChar_toNat, ha, hb, hc]
  omega

theorem parseNat_pad3 (n : Nat) (h : n < 1000) : parseNat (pad3 n) = some n := by
  rw [pad3_lt n h, parseNat_three _ _ _ (by omega) (by omega) (by omega)]
  congr 1
  omega

end DCtx

namespace Str

theorem pad3_digits (n : Nat) (h : n < 1000) : ∀ ch ∈ pad3 n, '0' ≤ ch ∧ ch ≤ '9' := by
  rw [pad3_lt n h]
  intro ch hch
  simp only [List.mem_cons, List.not_mem_nil, or_false] at hch
  rcases hch with rfl | rfl | rfl
  · exact ⟨digitChar_ge _ (by omega), digitChar_le _ (by omega)⟩
  · exact ⟨digitChar_ge _ (by omega), digitChar_le _ (by omega)⟩
  · exact ⟨digitChar_ge _ (by omega), digitChar_le _ (by omega)⟩

theorem pad3_no_v (n : Nat) (h : n < 1000) : 'v' ∉ pad3 n := by
  rw [pad3_lt n h]
  intro hch
  simp only [List.mem_cons, List.not_mem_nil, or_false] at hch
  rcases hch with e | e | e
  · exact digitChar_ne_v _ (by omega) e.symm
  · exact digitChar_ne_v _ (by omega) e.symm
  · exact digitChar_ne_v _ (by omega) e.symm

theorem pad3_ne_nil (n : Nat) : pad3 n ≠ [] := by
  intro e
  have h1 : (pad3 n).length = 0 := by rw [e]; rfl
  unfold pad3 at h1
  simp only [List.length_append, List.length_replicate] at h1
  omega

/-- `('v' + digits).split('v')[-1]` -/
theorem split_v_pad3 (n : Nat) (h : n < 1000) :
    (splitOn 'v' ('v' :: pad3 n)).getLast? = some (pad3 n) := by
  simp [splitOn, splitOn_of_not_mem 'v' (pad3 n) (pad3_no_v n h)]

/-- string order on three-digit renderings is numeric order -/
theorem lt_pad3 (n m : Nat) (hn : n < 1000) (hm : m < 1000) :
    lt (pad3 n) (pad3 m) = true ↔ n < m := by
  rw [pad3_lt n hn, pad3_lt m hm]
  simp only [lt]
  rw [digitChar_toNat (n / 100) (by omega), digitChar_toNat (n / 10 % 10) (by omega),
    digitChar_toNat (n % 10) (by omega), digitChar_toNat (m / 100) (by omega),
    digitChar_toNat (m / 10 % 10) (by omega), digitChar_toNat (m % 10) (by omega)]
  repeat' split
  all_goals simp
  all_goals omega

end Str

namespace Spec

/-! ### monotonicity of `Glob` in the pattern -/

/-- no string matches a pattern starting with '[' -/
theorem glob_bracket (p s : Str) : ¬ Glob ('[' :: p) s := by
  intro h
  cases h with
  | lit _ _ h3 _ => exact h3 rfl

/-- replacing a pattern suffix by a more permissive one is more permissive -/
theorem glob_prefix_mono (p q : Str) (hpq : ∀ s, Glob p s → Glob q s) :
    ∀ (a s : Str), Glob (a ++ p) s → Glob (a ++ q) s := by
  intro a
  induction a with
  | nil => exact hpq
  | cons c a ih =>
    by_cases hs : c = '*'
    · subst hs
      intro s
      induction s with
      | nil =>
        intro h
        exact (glob_star_nil _).2 (ih [] ((glob_star_nil _).1 h))
      | cons d s ihs =>
        intro h
        rcases (glob_star_cons _ d s).1 h with ⟨hd, h'⟩ | h'
        · exact .starTake hd (ihs h')
        · exact .starSkip (ih _ h')
    · by_cases hq : c = '?'
      · subst hq
        intro s h
        obtain ⟨d, s', rfl, hd, h'⟩ := (glob_q _ s).1 h
        exact .one hd (ih _ h')
      · by_cases hb : c = '['
        · subst hb
          intro s h
          exact absurd h (glob_bracket _ s)
        · intro s h
          obtain ⟨s', rfl, h'⟩ := (glob_lit c _ s hs hq hb).1 h
          exact .lit hs hq hb (ih _ h')

/-- a wildcard-free, '/'-free literal run is matched by '*' -/
theorem glob_lit_star (v b : Str) (hv : ∀ ch ∈ v, ch ≠ '/' ∧ ch ≠ '*' ∧ ch ≠ '?' ∧ ch ≠ '[') :
    ∀ s, Glob (v ++ b) s → Glob ('*' :: b) s := by
  induction v with
  | nil => intro s h; exact .starSkip h
  | cons c v ih =>
    intro s h
    have hc := hv c (by simp)
    obtain ⟨s', rfl, h'⟩ := (glob_lit c _ s hc.2.1 hc.2.2.1 hc.2.2.2).1 h
    exact .starTake hc.1 (ih (fun ch hch => hv ch (by simp [hch])) s' h')

end Spec
