/-
  Spil.Lemmas.Hier — helper lemmas for the hierarchy theorems (C02, C03): what `format_all` /
  `dict_to_type` / `dict_to_sid` compute on a field dictionary given in any key order, the loop of
  `get_as`, and the '/'-segment algebra of `parent` and `/`.
-/
import Spil.Lemmas.Sid

namespace Spec

/-- a string that `Resolver.format_*` accepts to render: non-empty (`resolve_one('')` is empty) and
    not ending in a newline (the reverse check of `format_*` resolves with `$`, which tolerates one
    final newline, so a template that accepts only `m` also "renders" `m ++ "\n"`) -/
def renderable (s : Str) : Prop := s ≠ [] ∧ s.getLast? ≠ some '\n'

end Spec

namespace HierL

open Spec SidL

/-! ### lists -/

theorem take_zip {α β} : ∀ (n : Nat) (a : List α) (b : List β),
    (a.zip b).take n = (a.take n).zip (b.take n)
  | 0, _, _ => by simp
  | _ + 1, [], _ => by simp
  | _ + 1, _ :: _, [] => by simp
  | n + 1, x :: a, y :: b => by simp [take_zip n a b]

theorem filter_nil_find {α} (q : α → Bool) (l : List α) (h : l.filter q = []) : l.find? q = none := by
  rw [List.find?_eq_none]
  intro x hx hq
  have : x ∈ l.filter q := List.mem_filter.mpr ⟨hx, hq⟩
  rw [h] at this
  simp at this

theorem filter_cons_find {α} (q : α → Bool) (l : List α) (a : α) (rest : List α)
    (h : l.filter q = a :: rest) : l.find? q = some a := by
  induction l with
  | nil => simp at h
  | cons x l ih =>
    rw [List.filter_cons] at h
    rw [List.find?_cons]
    cases hq : q x with
    | true =>
      rw [hq] at h
      simp only [if_true, List.cons.injEq] at h
      rw [h.1]
    | false =>
      rw [hq] at h
      simp only [Bool.false_eq_true, if_false] at h
      exact ih h

theorem exists_two_last {α} (l : List α) (h : 2 ≤ l.length) : ∃ front a b, l = front ++ [a, b] := by
  rcases List.eq_nil_or_concat l with rfl | ⟨l', b, rfl⟩
  · simp at h
  · rcases List.eq_nil_or_concat l' with rfl | ⟨l'', a, rfl⟩
    · simp at h
    · exact ⟨l'', a, b, by simp⟩

theorem repeat_succ' {α} (f : α → α) : ∀ (n : Nat) (a : α), Nat.repeat f (n + 1) a = Nat.repeat f n (f a)
  | 0, _ => rfl
  | n + 1, a => by
    show f (Nat.repeat f (n + 1) a) = f (Nat.repeat f n (f a))
    rw [repeat_succ' f n a]

/-! ### '/'-segments -/

theorem joinWith_concat (sep : Char) (a : List Str) (b : Str) (h : a ≠ []) :
    Str.joinWith sep (a ++ [b]) = Str.joinWith sep a ++ sep :: b := by
  induction a with
  | nil => exact absurd rfl h
  | cons p a ih =>
    cases a with
    | nil => simp [Str.joinWith]
    | cons q a =>
      have := ih (by simp)
      simp only [List.cons_append] at this ⊢
      simp only [Str.joinWith, this, List.append_assoc, List.cons_append]

theorem getLast?_ne_of_forall (s : Str) (h : s.getLast? ≠ some '\n') (m : Str) : s ≠ m ++ ['\n'] := by
  intro he
  apply h
  rw [he, List.getLast?_concat]

theorem acceptsSegs_take (e : Env) : ∀ (n : Nat) (ps : List (Str × Re)) (segs : List Str),
    acceptsSegs e ps segs = true → acceptsSegs e (ps.take n) (segs.take n) = true
  | 0, _, _, _ => by simp [acceptsSegs]
  | _ + 1, [], [], _ => by simp [acceptsSegs]
  | _ + 1, [], _ :: _, h => by simp [acceptsSegs] at h
  | _ + 1, _ :: _, [], h => by simp [acceptsSegs] at h
  | n + 1, (k, r) :: ps, g :: gs, h => by
    simp only [acceptsSegs, Bool.and_eq_true] at h
    simp only [List.take_succ_cons, acceptsSegs, Bool.and_eq_true]
    exact ⟨h.1, acceptsSegs_take e n ps gs h.2⟩

/-- the first `n > 0` segments of a string, joined, split back into these segments -/
theorem split_join_take (s : Str) (n : Nat) (hn : 0 < n) :
    Str.splitOn '/' (Str.joinWith '/' ((Str.splitOn '/' s).take n)) = (Str.splitOn '/' s).take n := by
  apply Str.split_join
  · intro h
    have h1 := congrArg List.length h
    have h2 := Str.splitOn_ne_nil '/' s
    rw [List.length_take] at h1
    cases hs : Str.splitOn '/' s with
    | nil => exact h2 hs
    | cons a l => rw [hs] at h1; simp at h1; omega
  · intro p hp
    exact Str.splitOn_not_mem '/' s p (List.mem_of_mem_take hp)

/-! ### dictionaries with distinct keys -/

theorem get_of_mem (d : Dict) (hnd : (d.map (·.1)).Nodup) (k v : Str) (h : (k, v) ∈ d) :
    d.get k = some v := by
  induction d with
  | nil => simp at h
  | cons p d ih =>
    obtain ⟨k', v'⟩ := p
    simp only [List.map_cons, List.nodup_cons] at hnd
    simp only [List.mem_cons, Prod.mk.injEq] at h
    rcases h with ⟨rfl, rfl⟩ | h
    · simp [Dict.get]
    · have hne : (k == k') = false := by
        have : k ≠ k' := by
          intro heq; subst heq
          exact hnd.1 (List.mem_map.mpr ⟨(k, v), h, rfl⟩)
        simpa using this
      simp only [Dict.get] at ih ⊢
      rw [List.lookup_cons, hne]
      exact ih hnd.2 h

theorem keysEq_iff (d : Dict) (ks : List Str) :
    Dict.keysEq d ks = true ↔ ∀ k, k ∈ d.map (·.1) ↔ k ∈ ks := by
  simp only [Dict.keysEq, Dict.hasKey, Bool.and_eq_true, List.all_eq_true, List.contains_iff_mem,
    List.any_eq_true, beq_iff_eq, List.mem_map]
  constructor
  · rintro ⟨h1, h2⟩ k
    constructor
    · rintro ⟨p, hp, rfl⟩; exact h1 p hp
    · intro hk; obtain ⟨p, hp, h⟩ := h2 k hk; exact ⟨p, hp, h⟩
  · intro h
    constructor
    · intro p hp; exact (h p.1).mp ⟨p, hp, rfl⟩
    · intro k hk; obtain ⟨p, hp, h'⟩ := (h k).mpr hk; exact ⟨p, hp, h'⟩

/-- the loop of `get_as` stops right after the key at position `i` -/
theorem prefixUpTo_take : ∀ (d : Dict) (i : Nat) (hi : i < d.length), (d.map (·.1)).Nodup →
    Ctx.prefixUpTo (d[i]).1 d = d.take (i + 1)
  | [], _, hi, _ => by simp at hi
  | (k, v) :: d, 0, _, _ => by simp [Ctx.prefixUpTo]
  | (k, v) :: d, i + 1, hi, hnd => by
    simp only [List.map_cons, List.nodup_cons] at hnd
    have hi' : i < d.length := by simpa using hi
    have hne : k ≠ (d[i]).1 := by
      intro h; apply hnd.1; rw [h]; exact List.mem_map.mpr ⟨d[i], List.getElem_mem _, rfl⟩
    have hne' : (k == (d[i]).1) = false := by simpa using hne
    simp only [List.getElem_cons_succ, Ctx.prefixUpTo, hne', Bool.false_eq_true, if_false,
      List.take_succ_cons, List.cons.injEq, true_and]
    exact prefixUpTo_take d i hi' hnd.2

/-! ### the conventions -/

theorem tableOk_label_ne (e : Env) (ts : List (Str × Template)) (h : sidTableOk e ts = true) :
    ∀ p ∈ ts, p.1 ≠ [] := by
  simp only [sidTableOk, Bool.and_eq_true, List.all_eq_true] at h
  intro p hp
  have := (h.1 p hp).1
  intro h0
  simp [h0] at this

/-- what `sidHierOk` gives -/
theorem hier_unpack (e : Env) (ts : List (Str × Template)) (h : sidHierOk e ts = true) :
    sidTableOk e ts = true ∧
    (∀ a ∈ ts, ∀ b ∈ ts, (∀ k, k ∈ keysOf a.2 ↔ k ∈ keysOf b.2) → keysOf a.2 = keysOf b.2) ∧
    (∀ a ∈ ts, ∀ n, 0 < n → n < (phs a.2).length → ∃ b ∈ ts, phs b.2 = (phs a.2).take n) ∧
    (∀ a ∈ ts, ':' ∉ a.1 ∧ '?' ∉ a.1) := by
  simp only [sidHierOk, Bool.and_eq_true] at h
  obtain ⟨⟨⟨h1, h2⟩, h3⟩, h4⟩ := h
  refine ⟨h1, ?_, ?_, ?_⟩
  · intro a ha b hb hk
    simp only [sameKeysSameOrder, List.all_eq_true, Bool.or_eq_true, Bool.not_eq_true',
      Bool.and_eq_false_iff, beq_iff_eq] at h2
    rcases h2 a ha b hb with h | h
    · rcases h with h | h
      · exfalso
        have : (keysOf a.2).all (fun k => (keysOf b.2).contains k) = true := by
          simp only [List.all_eq_true, List.contains_iff_mem]
          intro k hk'; exact (hk k).mp hk'
        rw [this] at h; exact absurd h (by simp)
      · exfalso
        have : (keysOf b.2).all (fun k => (keysOf a.2).contains k) = true := by
          simp only [List.all_eq_true, List.contains_iff_mem]
          intro k hk'; exact (hk k).mpr hk'
        rw [this] at h; exact absurd h (by simp)
    · exact h
  · intro a ha n hn0 hn
    simp only [prefixClosed, List.all_eq_true, List.mem_range, Bool.or_eq_true, beq_iff_eq,
      List.any_eq_true] at h3
    rcases h3 a ha n hn with h | ⟨b, hb, h⟩
    · omega
    · exact ⟨b, hb, h⟩
  · intro a ha
    simp only [labelsPlain, List.all_eq_true, Bool.and_eq_true, Bool.not_eq_true', Str.hasChar] at h4
    have := h4 a ha
    constructor
    · intro hm
      have h' := this.1
      rw [List.any_eq_false] at h'
      exact h' ':' hm (by simp)
    · intro hm
      have h' := this.2
      rw [List.any_eq_false] at h'
      exact h' '?' hm (by simp)

/-! ### `format_*` on a field dictionary in any key order -/

/-- the body of `format_*` for one template whose key set is not the dictionary's -/
theorem formatTpl_none (e : Env) (R : Resolver) (label : Str) (t : Template)
    (hwf : sidTplOk e t = true) (p : Dict) (hk : Dict.keysEq p (keysOf t) = false) :
    Resolver.formatTpl e R label t p = .ok none := by
  obtain ⟨hs, hnd, _, _, _⟩ := tplOk_unpack e t hwf
  unfold Resolver.formatTpl
  rw [keys_sid hs hnd]
  change Dict.keysEq p (keysOf t) = false at hk
  have : Dict.keysEq p ((phs t).map (·.1)) = false := hk
  simp [this]

/-- the body of `format_*` for one template whose key set is the dictionary's: the values in
    template order, '/'-joined, provided the template accepts that string -/
theorem formatTpl_eq (e : Env) (R : Resolver) (hcd : R.checkDup = false) (label : Str) (t : Template)
    (hl : R.lookup label = some t) (hwf : sidTplOk e t = true) (p : Dict) (vals : List Str)
    (hlen : vals.length = (keysOf t).length)
    (hget : ∀ q ∈ (keysOf t).zip vals, p.get q.1 = some q.2)
    (hk : Dict.keysEq p (keysOf t) = true)
    (hr : renderable (Str.joinWith '/' vals)) :
    Resolver.formatTpl e R label t p =
      .ok (if accepts e t (Str.joinWith '/' vals) then some (Str.joinWith '/' vals) else none) := by
  obtain ⟨hs, hnd, hne, hsf, hlast⟩ := tplOk_unpack e t hwf
  unfold Resolver.formatTpl
  rw [keys_sid hs hnd]
  have hk' : Dict.keysEq p ((phs t).map (·.1)) = true := hk
  have hfmt : Template.format t p = some (Str.joinWith '/' vals) :=
    format_sid hs p vals (by simpa [keysOf] using hlen) hget
  rw [hk', hfmt]
  simp only [Bool.not_true, Bool.false_eq_true, if_false]
  unfold Resolver.resolveOne
  have hs' : (Str.joinWith '/' vals).isEmpty = false := by simp [hr.1]
  simp only [hs', Bool.false_eq_true, if_false, hl, hcd]
  cases hacc : accepts e t (Str.joinWith '/' vals) with
  | true => simp [resolveTpl_of_accepts e t hwf _ hacc]
  | false =>
    obtain ⟨od, hod⟩ := resolveTpl_total e t (Str.joinWith '/' vals)
    cases od with
    | none => simp [hod]
    | some d =>
      exfalso
      obtain ⟨m, hm, hacc', _⟩ := resolveTpl_some e t hwf _ d hod
      rcases hm with hm | hm
      · rw [← hm, hacc] at hacc'; exact absurd hacc' (by simp)
      · exact getLast?_ne_of_forall _ hr.2 m hm

/-- `format_all(data)` for `data` a reordering of `zip K vals`: one entry per template, in table
    order, whose key list is `K` and that accepts the '/'-joined values; the rendered string is the
    same for all of them -/
theorem formatAllGo_eq (e : Env) (R : Resolver) (hcd : R.checkDup = false) (K vals : List Str)
    (p : Dict) (hlen : vals.length = K.length)
    (hget : ∀ q ∈ K.zip vals, p.get q.1 = some q.2)
    (hkeys : ∀ k, k ∈ p.map (·.1) ↔ k ∈ K)
    (hr : renderable (Str.joinWith '/' vals)) (ts : List (Str × Template))
    (H : ∀ a ∈ ts, sidTplOk e a.2 = true ∧ R.lookup a.1 = some a.2 ∧
      ((∀ k, k ∈ keysOf a.2 ↔ k ∈ K) → keysOf a.2 = K)) :
    Resolver.formatAllGo e R p ts =
      .ok ((ts.filter (fun a => keysOf a.2 == K && accepts e a.2 (Str.joinWith '/' vals))).map
        (fun a => (a.1, Str.joinWith '/' vals))) := by
  induction ts with
  | nil => simp [Resolver.formatAllGo]
  | cons a ts ih =>
    obtain ⟨l, t⟩ := a
    obtain ⟨hwf, hl, hsame⟩ := H (l, t) (by simp)
    simp only at hwf hl hsame
    have ih' := ih (fun a ha => H a (by simp [ha]))
    simp only [Resolver.formatAllGo, ih']
    by_cases hK : keysOf t = K
    · have hk : Dict.keysEq p (keysOf t) = true := by rw [keysEq_iff, hK]; exact hkeys
      rw [formatTpl_eq e R hcd l t hl hwf p vals (by rw [hK]; exact hlen) (by rw [hK]; exact hget) hk hr]
      cases hacc : accepts e t (Str.joinWith '/' vals) with
      | true => simp [hK, hacc]
      | false => simp [hacc]
    · have hk : Dict.keysEq p (keysOf t) = false := by
        cases hb : Dict.keysEq p (keysOf t) with
        | false => rfl
        | true =>
          exfalso
          rw [keysEq_iff] at hb
          exact hK (hsame (fun k => ((hb k).symm.trans (hkeys k))))
      rw [formatTpl_none e R l t hwf p hk]
      simp [hK]

/-! ### `dict_to_type`, `dict_to_sid` -/

/-- the facts about `K`, `vals`, `p` that the characterisations below need: `p` is a reordering of
    `zip K vals`, `K` is the key list of some configured template -/
structure DictOf (ts : List (Str × Template)) (K vals : List Str) (p : Dict) : Prop where
  nodup : K.Nodup
  len : vals.length = K.length
  perm : p.Perm (K.zip vals)
  ref : ∃ a ∈ ts, keysOf a.2 = K

theorem DictOf.get {ts K vals p} (h : DictOf ts K vals p) :
    ∀ q ∈ K.zip vals, p.get q.1 = some q.2 := by
  intro q hq
  have hnd : (p.map (·.1)).Nodup := by
    rw [(h.perm.map (·.1)).nodup_iff]
    have : (K.zip vals).map (·.1) = K := List.map_fst_zip (by rw [h.len]; exact Nat.le_refl _)
    rw [this]; exact h.nodup
  exact get_of_mem p hnd q.1 q.2 (h.perm.mem_iff.mpr hq)

theorem DictOf.keys {ts K vals p} (h : DictOf ts K vals p) : ∀ k, k ∈ p.map (·.1) ↔ k ∈ K := by
  intro k
  rw [(h.perm.map (·.1)).mem_iff]
  have : (K.zip vals).map (·.1) = K := List.map_fst_zip (by rw [h.len]; exact Nat.le_refl _)
  rw [this]

theorem DictOf.ne_nil {ts K vals p} (h : DictOf ts K vals p) (hK : K ≠ []) : p ≠ [] := by
  intro h0
  have := h.perm.length_eq
  rw [h0, List.length_zip, h.len] at this
  cases K with
  | nil => exact hK rfl
  | cons _ _ => simp at this

/-- the per-template side conditions of `formatAllGo_eq`, for the whole table -/
theorem table_side (c : Ctx) (hwf : sidHierOk c.env c.cfg.sid.templates = true) (K : List Str)
    (href : ∃ a ∈ c.cfg.sid.templates, keysOf a.2 = K) :
    ∀ a ∈ c.cfg.sid.templates, sidTplOk c.env a.2 = true ∧ c.sidR.lookup a.1 = some a.2 ∧
      ((∀ k, k ∈ keysOf a.2 ↔ k ∈ K) → keysOf a.2 = K) := by
  obtain ⟨h1, h2, _, _⟩ := hier_unpack _ _ hwf
  have H := tableOk_unpack _ _ h1
  obtain ⟨b, hb, hbK⟩ := href
  intro a ha
  refine ⟨(H a ha).1, (H a ha).2, ?_⟩
  intro hk
  rw [← hbK] at hk ⊢
  exact h2 a ha b hb hk

/-- `dict_to_type(data, all=True)` on a reordering of `zip K vals`: the labels, in table order,
    of the templates whose key list is `K` and that accept the '/'-joined values -/
theorem dictToTypes_eq (c : Ctx) (hwf : sidHierOk c.env c.cfg.sid.templates = true)
    (K vals : List Str) (p : Dict) (hd : DictOf c.cfg.sid.templates K vals p) (hK : K ≠ [])
    (hr : renderable (Str.joinWith '/' vals)) :
    c.dictToTypes p = .ok ((c.cfg.sid.templates.filter
      (fun a => keysOf a.2 == K && accepts c.env a.2 (Str.joinWith '/' vals))).map (·.1)) := by
  have hp : p.isEmpty = false := by simp [hd.ne_nil hK]
  unfold Ctx.dictToTypes Resolver.formatAll
  simp only [hp, Bool.false_eq_true, if_false]
  have := formatAllGo_eq c.env c.sidR rfl K vals p hd.len hd.get hd.keys hr c.cfg.sid.templates
    (table_side c hwf K hd.ref)
  have hts : c.sidR.templates = c.cfg.sid.templates := rfl
  rw [hts, this]
  simp [List.map_map, Function.comp_def]

/-- `Sid(fields=data)` / `sid_factory.dict_to_sid(data)` on a reordering of `zip K vals` with
    '/'-free values: typed by the first template, in table order, whose key list is `K` and that
    accepts the '/'-joined values; fields in template order; `None` when there is none -/
theorem dictToSid_eq (c : Ctx) (hwf : sidHierOk c.env c.cfg.sid.templates = true)
    (K vals : List Str) (p : Dict) (hd : DictOf c.cfg.sid.templates K vals p) (hK : K ≠ [])
    (hsl : ∀ v ∈ vals, '/' ∉ v) (hr : renderable (Str.joinWith '/' vals)) :
    c.dictToSid p = .ok ((c.cfg.sid.templates.find?
      (fun a => keysOf a.2 == K && accepts c.env a.2 (Str.joinWith '/' vals))).map
        (fun a => ⟨Str.joinWith '/' vals, a.1, K.zip vals⟩)) := by
  obtain ⟨h1, _, _, _⟩ := hier_unpack _ _ hwf
  have H := tableOk_unpack _ _ h1
  have hp : p.isEmpty = false := by simp [hd.ne_nil hK]
  unfold Ctx.dictToSid
  rw [dictToTypes_eq c hwf K vals p hd hK hr]
  cases hf : c.cfg.sid.templates.filter
      (fun a => keysOf a.2 == K && accepts c.env a.2 (Str.joinWith '/' vals)) with
  | nil => simp [filter_nil_find _ _ hf]
  | cons a rest =>
    have hfind := filter_cons_find _ _ a rest hf
    have ha : a ∈ c.cfg.sid.templates := List.mem_of_find?_eq_some hfind
    have hq := List.find?_some hfind
    simp only [Bool.and_eq_true, beq_iff_eq] at hq
    obtain ⟨hKa, hacc⟩ := hq
    obtain ⟨l, t⟩ := a
    simp only at hKa hacc
    have hlne : l ≠ [] := tableOk_label_ne _ _ h1 (l, t) ha
    have hl : c.sidR.lookup l = some t := (H (l, t) ha).2
    have hwt : sidTplOk c.env t = true := (H (l, t) ha).1
    have hk : Dict.keysEq p (keysOf t) = true := by rw [keysEq_iff, hKa]; exact hd.keys
    have hfmt := formatTpl_eq c.env c.sidR rfl l t hl hwt p vals (by rw [hKa]; exact hd.len)
      (by rw [hKa]; exact hd.get) hk hr
    rw [hacc] at hfmt
    have hstr : c.dictToSidStr p l = .ok (Str.joinWith '/' vals) := by
      unfold Ctx.dictToSidStr Resolver.formatOne
      have hle : l.isEmpty = false := by simp [hlne]
      simp only [hp, hle, Bool.false_eq_true, if_false, hl, hfmt, if_true, Option.getD_some]
    have hvne : vals ≠ [] := by
      intro h0
      have := hd.len
      rw [h0] at this
      cases K with
      | nil => exact hK rfl
      | cons _ _ => simp at this
    have hsplit : Str.splitOn '/' (Str.joinWith '/' vals) = vals := Str.split_join '/' vals hvne hsl
    have hforced : c.sidToDict (Str.joinWith '/' vals) (some l) =
        .ok (some (l, K.zip vals)) := by
      rw [sidToDict_forced c h1 l _ hlne]
      unfold forcedDict
      have hl' : c.cfg.sid.templates.lookup l = some t := hl
      have hne' : (Str.joinWith '/' vals).isEmpty = false := by simp [hr.1]
      simp only [hl', hne', hacc, Bool.not_false, Bool.and_self, if_true]
      unfold fieldsOf
      rw [hsplit]
      change Except.ok (some (l, (keysOf t).zip vals)) = _
      rw [hKa]
    simp only [List.map_cons, hstr, hforced, hfind, Option.map_some]

/-- the first accepting template is also the first accepting template among those that satisfy
    any property it satisfies itself -/
theorem find_of_firstAccepting (e : Env) (q : Str × Template → Bool) (s : Str) :
    ∀ (ts : List (Str × Template)) (a : Str × Template), firstAccepting e ts s = some a → q a = true →
      ts.find? (fun b => q b && accepts e b.2 s) = some a := by
  intro ts
  induction ts with
  | nil => intro a h; simp [firstAccepting] at h
  | cons b ts ih =>
    intro a h hq
    obtain ⟨l, t⟩ := b
    simp only [firstAccepting] at h
    rw [List.find?_cons]
    cases hacc : accepts e t s with
    | true =>
      rw [hacc] at h
      simp only [if_true, Option.some.injEq] at h
      subst h
      simp [hq]
    | false =>
      rw [hacc] at h
      simp only [Bool.false_eq_true, if_false] at h
      simp only [Bool.and_false]
      exact ih a h hq

/-! ### typed Sids -/

theorem sid_eta (x : Sid) (f : Dict) (h : x.fields = f) : (⟨x.string, x.type, f⟩ : Sid) = x := by
  cases x; simp_all

/-- a naturally typed Sid is typed by the first template that accepts its string -/
theorem natural_unpack (e : Env) (ts : List (Str × Template)) (x : Sid) (hx : natural e ts x) :
    ∃ t, firstAccepting e ts x.string = some (x.type, t) ∧ x.fields = fieldsOf t x.string := by
  obtain ⟨hty, heq⟩ := hx
  unfold plainSid at heq
  cases hfa : firstAccepting e ts x.string with
  | none =>
    rw [hfa] at heq
    simp only at heq
    rw [heq] at hty
    simp [Sid.typed, Sid.untyped] at hty
  | some a =>
    obtain ⟨l, t⟩ := a
    rw [hfa] at heq
    simp only at heq
    have h1 : x.type = l := congrArg Sid.type heq
    have h2 : x.fields = fieldsOf t x.string := congrArg Sid.fields heq
    exact ⟨t, by rw [h1], h2⟩

/-- what being typed by `t` means for the fields -/
theorem typed_facts (e : Env) (t : Template) (hwt : sidTplOk e t = true) (s : Str)
    (hacc : accepts e t s = true) :
    (keysOf t).Nodup ∧ keysOf t ≠ [] ∧ (Str.splitOn '/' s).length = (keysOf t).length ∧
    (fieldsOf t s).map (·.1) = keysOf t ∧ (fieldsOf t s).map (·.2) = Str.splitOn '/' s ∧
    (fieldsOf t s).length = (keysOf t).length := by
  obtain ⟨_, hnd, hne, _, _⟩ := tplOk_unpack e t hwt
  have hlen : (Str.splitOn '/' s).length = (keysOf t).length := by
    have := acceptsSegs_length e _ _ hacc
    simpa [keysOf] using this
  refine ⟨hnd, ?_, hlen, ?_, ?_, ?_⟩
  · simpa [keysOf] using hne
  · exact List.map_fst_zip (Nat.le_of_eq hlen.symm)
  · exact List.map_snd_zip (Nat.le_of_eq hlen)
  · show ((keysOf t).zip (Str.splitOn '/' s)).length = _
    rw [List.length_zip, hlen, Nat.min_self]

/-- `get_as` of the key at position `i` of a Sid typed by a configured template that accepts its
    string -/
theorem getAs_core (c : Ctx) (hwf : sidHierOk c.env c.cfg.sid.templates = true) (x : Sid)
    (t : Template) (hl : c.cfg.sid.templates.lookup x.type = some t)
    (hacc : accepts c.env t x.string = true) (hf : x.fields = fieldsOf t x.string)
    (i : Nat) (hi : i < x.fields.length)
    (hr : renderable (Str.joinWith '/' ((Str.splitOn '/' x.string).take (i + 1)))) :
    ∃ y, c.getAs x (x.fields.map (·.1))[i]! = .ok y ∧ wellTyped c.env c.cfg.sid.templates y ∧
      y.fields = x.fields.take (i + 1) ∧
      y.string = Str.joinWith '/' ((Str.splitOn '/' x.string).take (i + 1)) := by
  obtain ⟨h1, _, hpre, _⟩ := hier_unpack _ _ hwf
  have H := tableOk_unpack _ _ h1
  have hmem := mem_of_lookup _ _ _ hl
  have hwt : sidTplOk c.env t = true := (H _ hmem).1
  obtain ⟨hnd, hKne, hlen, hfst, hsnd, hflen⟩ := typed_facts c.env t hwt x.string hacc
  rw [← hf] at hfst hsnd hflen
  have hkey : (x.fields.map (·.1))[i]! = (x.fields[i]).1 := by
    simp [List.getElem!_eq_getElem?_getD, List.getElem?_map, List.getElem?_eq_getElem hi]
  have hfne : x.fields.isEmpty = false := by
    cases hx : x.fields with
    | nil => rw [hx] at hi; simp at hi
    | cons _ _ => rfl
  have hhas : x.fields.hasKey (x.fields[i]).1 = true := by
    simp only [Dict.hasKey, List.any_eq_true, beq_iff_eq]
    exact ⟨x.fields[i], List.getElem_mem _, rfl⟩
  have hnd' : (x.fields.map (·.1)).Nodup := by rw [hfst]; exact hnd
  have hpu := prefixUpTo_take x.fields i hi hnd'
  have htake : x.fields.take (i + 1) =
      ((keysOf t).take (i + 1)).zip ((Str.splitOn '/' x.string).take (i + 1)) := by
    rw [hf]; exact take_zip _ _ _
  have hin : i + 1 ≤ (keysOf t).length := by rw [← hflen]; exact hi
  -- the template of the prefix
  have href : ∃ b ∈ c.cfg.sid.templates, phs b.2 = (phs t).take (i + 1) := by
    have hphs : (phs t).length = (keysOf t).length := by simp [keysOf]
    by_cases hlt : i + 1 < (phs t).length
    · exact hpre _ hmem (i + 1) (Nat.succ_pos _) hlt
    · refine ⟨_, hmem, ?_⟩
      rw [List.take_of_length_le (by omega)]
  obtain ⟨b, hb, hbphs⟩ := href
  have hbK : keysOf b.2 = (keysOf t).take (i + 1) := by
    simp only [keysOf, hbphs, List.map_take]
  have hsj := split_join_take x.string (i + 1) (Nat.succ_pos _)
  have hbacc : accepts c.env b.2 (Str.joinWith '/' ((Str.splitOn '/' x.string).take (i + 1))) = true := by
    unfold accepts
    rw [hsj, hbphs]
    exact acceptsSegs_take c.env (i + 1) _ _ hacc
  have hd : DictOf c.cfg.sid.templates ((keysOf t).take (i + 1))
      ((Str.splitOn '/' x.string).take (i + 1)) (x.fields.take (i + 1)) :=
    { nodup := hnd.sublist (List.take_sublist _ _)
      len := by rw [List.length_take, List.length_take, hlen]
      perm := by rw [htake]
      ref := ⟨b, hb, hbK⟩ }
  have hK' : (keysOf t).take (i + 1) ≠ [] := by
    intro h0
    have := congrArg List.length h0
    rw [List.length_take] at this
    simp only [List.length_nil] at this
    omega
  have hsl : ∀ v ∈ (Str.splitOn '/' x.string).take (i + 1), '/' ∉ v := fun v hv =>
    Str.splitOn_not_mem '/' x.string v (List.mem_of_mem_take hv)
  have hds := dictToSid_eq c hwf _ _ _ hd hK' hsl hr
  cases hfind : c.cfg.sid.templates.find? (fun a => keysOf a.2 == (keysOf t).take (i + 1) &&
      accepts c.env a.2 (Str.joinWith '/' ((Str.splitOn '/' x.string).take (i + 1)))) with
  | none =>
    exfalso
    have := List.find?_eq_none.mp hfind b hb
    simp [hbK, hbacc] at this
  | some a =>
    have ha := List.mem_of_find?_eq_some hfind
    have hq := List.find?_some hfind
    simp only [Bool.and_eq_true, beq_iff_eq] at hq
    rw [hfind] at hds
    simp only [Option.map_some] at hds
    refine ⟨⟨Str.joinWith '/' ((Str.splitOn '/' x.string).take (i + 1)), a.1,
      ((keysOf t).take (i + 1)).zip ((Str.splitOn '/' x.string).take (i + 1))⟩, ?_, ?_, ?_, rfl⟩
    · unfold Ctx.getAs
      rw [hkey]
      simp only [hfne, hhas, Bool.false_eq_true, if_false, Bool.not_true, hpu]
      unfold Ctx.sidOfFields
      have : (x.fields.take (i + 1)).isEmpty = false := by
        cases hx : x.fields with
        | nil => rw [hx] at hi; simp at hi
        | cons _ _ => rfl
      simp only [this, Bool.false_eq_true, if_false, hds, Option.getD_some]
    · refine ⟨a.2, (H a ha).2, hr.1, hq.2, ?_⟩
      show _ = (keysOf a.2).zip _
      simp only
      rw [hsj, hq.1]
    · exact htake.symm

/-- `joinWith '/'` of all but the last segment, `/`, the last segment -/
theorem join_dropLast_last (segs : List Str) (h : 2 ≤ segs.length) :
    Str.joinWith '/' (segs.take (segs.length - 1)) ++ '/' :: (segs.getLast?.getD []) =
      Str.joinWith '/' segs := by
  obtain ⟨front, a, b, rfl⟩ := exists_two_last segs h
  have h1 : (front ++ [a, b]).length - 1 = (front ++ [a]).length := by simp
  have h2 : front ++ [a, b] = (front ++ [a]) ++ [b] := by simp
  rw [h1]
  conv => lhs; rw [h2, List.take_left, List.getLast?_concat]
  rw [h2, joinWith_concat '/' (front ++ [a]) b (by simp)]
  rfl

/-- `parent` of a Sid with at least two fields, typed by a configured template that accepts its
    string -/
theorem parent_core (c : Ctx) (hwf : sidHierOk c.env c.cfg.sid.templates = true) (x : Sid)
    (hx : wellTyped c.env c.cfg.sid.templates x) (hn : 2 ≤ x.fields.length)
    (hr : renderable (Str.joinWith '/' ((Str.splitOn '/' x.string).take (x.fields.length - 1)))) :
    ∃ p, c.parent x = .ok p ∧ c.getAs x (x.fields.map (·.1))[x.fields.length - 2]! = .ok p ∧
      wellTyped c.env c.cfg.sid.templates p ∧ p.fields = x.fields.take (x.fields.length - 1) ∧
      p.string = Str.joinWith '/' ((Str.splitOn '/' x.string).take (x.fields.length - 1)) ∧
      p.string ++ '/' :: ((x.fields.map (·.2)).getLast?.getD []) = x.string := by
  obtain ⟨t, hl, hsne, hacc, hf⟩ := hx
  obtain ⟨h1, _, _, _⟩ := hier_unpack _ _ hwf
  have H := tableOk_unpack _ _ h1
  have hwt : sidTplOk c.env t = true := (H _ (mem_of_lookup _ _ _ hl)).1
  obtain ⟨_, _, hlen, _, hsnd, hflen⟩ := typed_facts c.env t hwt x.string hacc
  rw [← hf] at hsnd hflen
  have hidx : x.fields.length - 2 + 1 = x.fields.length - 1 := by omega
  obtain ⟨y, hy1, hy2, hy3, hy4⟩ := getAs_core c hwf x t hl hacc hf (x.fields.length - 2) (by omega)
    (by rw [hidx]; exact hr)
  rw [hidx] at hy3 hy4
  refine ⟨y, ?_, hy1, hy2, hy3, hy4, ?_⟩
  · rw [← hy1]
    obtain ⟨front, a, b, hfab⟩ := exists_two_last x.fields hn
    have hkey : (x.fields.map (·.1))[x.fields.length - 2]! = a.1 := by
      rw [hfab]
      simp
    rw [hkey]
    unfold Ctx.parent
    have hfne : x.fields.isEmpty = false := by rw [hfab]; simp
    simp only [hfne, Bool.false_eq_true, if_false]
    rw [hfab]
    simp
  · rw [hy4, hsnd]
    have hsl : (Str.splitOn '/' x.string).length = x.fields.length := by rw [hlen, hflen]
    rw [← hsl, join_dropLast_last _ (by omega), Str.join_split]

end HierL
