/-
  Spil.Lemmas.Cache — helper lemmas for C13: the store invariant of the memoising wrappers,
  injectivity of the repaired key, and invariance of Python's binding under reordering of the
  keyword items.
-/
import Spil.Model.Cache

namespace Cache

/-! ### store invariant and transparency -/

theorem lookup_mem {K R} [DecidableEq K] (st : Store K R) (k : K) (r : R)
    (h : st.lookup k = some r) : (k, r) ∈ st := by
  induction st with
  | nil => simp at h
  | cons p st ih =>
    obtain ⟨k', r'⟩ := p
    rw [List.lookup_cons] at h
    by_cases hk : k == k'
    · simp only [hk] at h
      have hk' : k = k' := by simpa using hk
      cases h
      subst hk'
      exact List.mem_cons_self
    · simp only [hk] at h
      exact List.mem_cons_of_mem _ (ih h)

/-- every stored entry holds the answer of the wrapped function for every (admissible) call with
    that key -/
def Inv {V K R} (P : Call V → Prop) (key : Call V → K) (f : Call V → R) (st : Store K R) : Prop :=
  ∀ p ∈ st, ∀ a, P a → key a = p.1 → p.2 = f a

theorem Inv.nil {V K R} (P : Call V → Prop) (key : Call V → K) (f : Call V → R) : Inv P key f [] := by
  intro p hp; cases hp

theorem Inv.mono {V K R} {P : Call V → Prop} {key : Call V → K} {f : Call V → R} {st st' : Store K R}
    (h : Inv P key f st) (hsub : ∀ p ∈ st', p ∈ st) : Inv P key f st' :=
  fun p hp => h p (hsub p hp)

theorem Inv.evictIf {V K R} {P : Call V → Prop} {key : Call V → K} {f : Call V → R} {st : Store K R}
    (h : Inv P key f st) (max : Nat) (evict : Store K R → Store K R)
    (hev : ∀ st, ∀ p ∈ evict st, p ∈ st) :
    Inv P key f (if st.length ≥ max then evict st else st) := by
  split
  · exact h.mono (hev st)
  · exact h

theorem Inv.snoc {V K R} {P : Call V → Prop} {key : Call V → K} {f : Call V → R} {st : Store K R}
    (hcong : ∀ a b, P a → P b → key a = key b → f a = f b)
    (h : Inv P key f st) (c : Call V) (hc : P c) : Inv P key f (st ++ [(key c, f c)]) := by
  intro p hp a ha hk
  rcases List.mem_append.1 hp with hp | hp
  · exact h p hp a ha hk
  · have : p = (key c, f c) := by simpa using hp
    subst this
    exact hcong c a hc ha hk.symm

theorem stepLru_spec {V K R} [DecidableEq K] (P : Call V → Prop) (key : Call V → K) (f : Call V → R)
    (hcong : ∀ a b, P a → P b → key a = key b → f a = f b) (max : Nat)
    (evict : Store K R → Store K R) (hev : ∀ st, ∀ p ∈ evict st, p ∈ st)
    (st : Store K R) (hinv : Inv P key f st) (c : Call V) (hc : P c) :
    Inv P key f (stepLru key f max evict st c).1 ∧ (stepLru key f max evict st c).2 = f c := by
  unfold stepLru
  split
  · rename_i r hr
    exact ⟨hinv, hinv _ (lookup_mem st _ _ hr) c hc rfl⟩
  · exact ⟨(hinv.evictIf max evict hev).snoc hcong c hc, rfl⟩

theorem stepHit_spec {V K R} [DecidableEq K] (P : Call V → Prop) (key : Call V → K) (f : Call V → R)
    (truthy : R → Bool)
    (hcong : ∀ a b, P a → P b → key a = key b → f a = f b) (max : Nat)
    (evict : Store K R → Store K R) (hev : ∀ st, ∀ p ∈ evict st, p ∈ st)
    (st : Store K R) (hinv : Inv P key f st) (c : Call V) (hc : P c) :
    Inv P key f (stepHit key f truthy max evict st c).1 ∧
      (stepHit key f truthy max evict st c).2 = f c := by
  unfold stepHit
  split
  · rename_i r hr
    exact ⟨hinv, hinv _ (lookup_mem st _ _ hr) c hc rfl⟩
  · dsimp only
    split
    · exact ⟨(hinv.evictIf max evict hev).snoc hcong c hc, rfl⟩
    · exact ⟨hinv.evictIf max evict hev, rfl⟩

theorem runHist_cons {S C R} (step : S → C → S × R) (st : S) (c : C) (cs : List C) :
    runHist step st (c :: cs) = (step st c).2 :: runHist step (step st c).1 cs := rfl

/-- a step function that preserves an invariant and answers like `f` on admissible calls answers
    like `f` over every admissible history -/
theorem runHist_transparent {S C R} (step : S → C → S × R) (f : C → R) (I : S → Prop) (P : C → Prop)
    (hstep : ∀ st c, I st → P c → I (step st c).1 ∧ (step st c).2 = f c)
    (st : S) (hst : I st) (hist : List C) (hP : ∀ c ∈ hist, P c) :
    runHist step st hist = hist.map f := by
  induction hist generalizing st with
  | nil => rfl
  | cons c cs ih =>
    obtain ⟨h1, h2⟩ := hstep st c hst (hP c List.mem_cons_self)
    rw [runHist_cons, h2, ih _ h1 (fun c' hc' => hP c' (List.mem_cons_of_mem _ hc'))]
    rfl

/-! ### the repaired key is injective -/

/-- a key part that is not a positional value -/
def KeyPart.notVal {V} : KeyPart V → Prop
  | .val _ => False
  | _ => True

theorem val_prefix_inj {V} (as bs : List V) (X Y : List (KeyPart V))
    (hX : ∀ x, X.head? = some x → KeyPart.notVal x) (hY : ∀ y, Y.head? = some y → KeyPart.notVal y)
    (h : as.map KeyPart.val ++ X = bs.map KeyPart.val ++ Y) : as = bs ∧ X = Y := by
  induction as generalizing bs with
  | nil =>
    cases bs with
    | nil => exact ⟨rfl, by simpa using h⟩
    | cons b bs =>
      exfalso
      simp only [List.map_nil, List.nil_append, List.map_cons, List.cons_append] at h
      exact hX (.val b) (by rw [h]; rfl)
  | cons a as ih =>
    cases bs with
    | nil =>
      exfalso
      simp only [List.map_nil, List.nil_append, List.map_cons, List.cons_append] at h
      exact hY (.val a) (by rw [← h]; rfl)
    | cons b bs =>
      simp only [List.map_cons, List.cons_append, List.cons.injEq, KeyPart.val.injEq] at h
      obtain ⟨hab, h⟩ := h
      obtain ⟨h1, h2⟩ := ih bs h
      exact ⟨by rw [hab, h1], h2⟩

theorem insertKw_ne_nil {V} (p : Str × V) (l : List (Str × V)) : insertKw p l ≠ [] := by
  cases l with
  | nil => simp [insertKw]
  | cons q qs => unfold insertKw; split <;> simp

theorem sortKw_eq_nil {V} (l : List (Str × V)) (h : sortKw l = []) : l = [] := by
  cases l with
  | nil => rfl
  | cons p ps => exact absurd h (insertKw_ne_nil _ _)

/-- the keyword part of the repaired key -/
def kwPart {V} (kw : List (Str × V)) : List (KeyPart V) :=
  if kw.isEmpty then [] else .mark :: (sortKw kw).map (fun p => .item p.1 p.2)

theorem newKey_eq {V} (c : Call V) : newKey c = c.args.map KeyPart.val ++ kwPart c.kwargs := rfl

theorem kwPart_head {V} (kw : List (Str × V)) (x : KeyPart V) (h : (kwPart kw).head? = some x) :
    KeyPart.notVal x := by
  unfold kwPart at h
  split at h
  · simp at h
  · simp only [List.head?_cons, Option.some.injEq] at h
    subst h; trivial

theorem item_map_inj {V} (l₁ l₂ : List (Str × V))
    (h : l₁.map (fun p => KeyPart.item p.1 p.2) = l₂.map (fun p => KeyPart.item p.1 p.2)) :
    l₁ = l₂ := by
  induction l₁ generalizing l₂ with
  | nil =>
    cases l₂ with
    | nil => rfl
    | cons q l₂ => simp at h
  | cons p l₁ ih =>
    cases l₂ with
    | nil => simp at h
    | cons q l₂ =>
      simp only [List.map_cons, List.cons.injEq, KeyPart.item.injEq] at h
      obtain ⟨⟨h1, h2⟩, h3⟩ := h
      rw [ih l₂ h3]
      congr 1
      exact Prod.ext h1 h2

theorem kwPart_inj {V} (k₁ k₂ : List (Str × V)) (h : kwPart k₁ = kwPart k₂) :
    sortKw k₁ = sortKw k₂ := by
  unfold kwPart at h
  cases k₁ with
  | nil =>
    cases k₂ with
    | nil => rfl
    | cons q k₂ => simp at h
  | cons p k₁ =>
    cases k₂ with
    | nil => simp at h
    | cons q k₂ =>
      simp only [List.isEmpty_cons, Bool.false_eq_true, if_false, List.cons.injEq, true_and] at h
      exact item_map_inj _ _ h

theorem newKey_inj {V} (a b : Call V) (h : newKey a = newKey b) :
    a.args = b.args ∧ sortKw a.kwargs = sortKw b.kwargs := by
  rw [newKey_eq, newKey_eq] at h
  obtain ⟨h1, h2⟩ := val_prefix_inj _ _ _ _ (kwPart_head _) (kwPart_head _) h
  exact ⟨h1, kwPart_inj _ _ h2⟩

/-! ### binding is invariant under reordering of the keyword items -/

theorem insertKw_perm {V} (p : Str × V) (l : List (Str × V)) : (insertKw p l).Perm (p :: l) := by
  induction l with
  | nil => exact List.Perm.refl _
  | cons q qs ih =>
    unfold insertKw
    split
    · exact List.Perm.refl _
    · exact (List.Perm.cons q ih).trans (List.Perm.swap p q qs)

theorem sortKw_perm {V} (l : List (Str × V)) : (sortKw l).Perm l := by
  induction l with
  | nil => exact List.Perm.refl _
  | cons p ps ih => exact (insertKw_perm p (sortKw ps)).trans (List.Perm.cons p ih)

theorem lookup_perm {V} (n : Str) (k₁ k₂ : List (Str × V)) (h : k₁.Perm k₂)
    (hnd : (k₁.map (·.1)).Nodup) : k₁.lookup n = k₂.lookup n := by
  induction h with
  | nil => rfl
  | cons x _ ih =>
    obtain ⟨xn, xv⟩ := x
    simp only [List.map_cons, List.nodup_cons] at hnd
    rw [List.lookup_cons, List.lookup_cons, ih hnd.2]
  | swap x y l =>
    obtain ⟨xn, xv⟩ := x
    obtain ⟨yn, yv⟩ := y
    simp only [List.map_cons, List.nodup_cons, List.mem_cons, not_or] at hnd
    simp only [List.lookup_cons]
    by_cases h1 : n == xn <;> by_cases h2 : n == yn <;> simp only [h1, h2]
    exfalso
    have e1 : n = xn := by simpa using h1
    have e2 : n = yn := by simpa using h2
    exact hnd.1.1 (e2 ▸ e1 ▸ rfl)
  | trans h₁ _ ih₁ ih₂ =>
    rw [ih₁ hnd, ih₂ ((h₁.map _).nodup_iff.1 hnd)]

theorem filter_names_nodup {V} (q : Str × V → Bool) (kw : List (Str × V))
    (hnd : (kw.map (·.1)).Nodup) : ((kw.filter q).map (·.1)).Nodup :=
  List.Nodup.sublist (List.Sublist.map _ List.filter_sublist) hnd

theorem bindGo_perm {V} (sig : Sig V) (as : List V) (k₁ k₂ : List (Str × V)) (h : k₁.Perm k₂)
    (hnd : (k₁.map (·.1)).Nodup) : bindGo sig as k₁ = bindGo sig as k₂ := by
  induction sig generalizing as k₁ k₂ with
  | nil =>
    cases as with
    | nil =>
      cases k₁ with
      | nil => rw [h.nil_eq]
      | cons p k₁ =>
        cases k₂ with
        | nil => exact absurd h.eq_nil (by simp)
        | cons q k₂ => simp [bindGo]
    | cons a as => simp [bindGo]
  | cons nd ps ih =>
    obtain ⟨n, d⟩ := nd
    cases as with
    | cons a as => simp only [bindGo]; rw [ih as k₁ k₂ h hnd]
    | nil =>
      simp only [bindGo]
      rw [lookup_perm n k₁ k₂ h hnd]
      split
      · rw [ih [] _ _ (h.filter _) (filter_names_nodup _ _ hnd)]
      · rw [ih [] k₁ k₂ h hnd]
      · rfl

theorem bindGo_sortKw {V} (sig : Sig V) (as : List V) (kw : List (Str × V))
    (hnd : (kw.map (·.1)).Nodup) : bindGo sig as kw = bindGo sig as (sortKw kw) :=
  bindGo_perm sig as kw (sortKw kw) (sortKw_perm kw).symm hnd

end Cache
