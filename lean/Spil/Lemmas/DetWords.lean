/-
  Spil.Lemmas.DetWords — languages of closed placeholder expressions (`seqOf`, `altsOf?`) as words
  over class sequences; prefix-free / suffix-free vocabularies have unique prefixes / suffixes.
-/
import Spil.Spec.PathWF
import Spil.Lemmas.ReRun

namespace Det

open Spec

/-- `u` is a word of the class sequence `w`: same length, pointwise `Cls.test` -/
def matchesSeq (e : Env) : List Cls → Str → Prop
  | [], [] => True
  | k :: ks, c :: cs => k.test e c = true ∧ matchesSeq e ks cs
  | [], _ :: _ => False
  | _ :: _, [] => False

@[simp] theorem matchesSeq_nil (e : Env) (u : Str) : matchesSeq e [] u ↔ u = [] := by
  cases u <;> simp [matchesSeq]

@[simp] theorem matchesSeq_cons_nil (e : Env) (k : Cls) (ks : List Cls) :
    matchesSeq e (k :: ks) [] ↔ False := by simp [matchesSeq]

@[simp] theorem matchesSeq_cons_cons (e : Env) (k : Cls) (ks : List Cls) (c : Char) (cs : Str) :
    matchesSeq e (k :: ks) (c :: cs) ↔ k.test e c = true ∧ matchesSeq e ks cs := by
  simp [matchesSeq]

theorem matchesSeq_length (e : Env) : ∀ (w : List Cls) (u : Str), matchesSeq e w u → u.length = w.length
  | [], u, h => by simp at h; simp [h]
  | k :: ks, [], h => by simp at h
  | k :: ks, c :: cs, h => by
    simp at h
    simp [matchesSeq_length e ks cs h.2]

theorem matchesSeq_append (e : Env) : ∀ (a b : List Cls) (u : Str),
    matchesSeq e (a ++ b) u ↔ ∃ u1 u2, u = u1 ++ u2 ∧ matchesSeq e a u1 ∧ matchesSeq e b u2
  | [], b, u => by
    simp only [List.nil_append, matchesSeq_nil]
    constructor
    · intro h; exact ⟨[], u, rfl, rfl, h⟩
    · rintro ⟨u1, u2, rfl, rfl, h⟩; simpa using h
  | k :: ks, b, [] => by simp
  | k :: ks, b, c :: cs => by
    simp only [List.cons_append, matchesSeq_cons_cons, matchesSeq_append e ks b cs]
    constructor
    · rintro ⟨hk, u1, u2, rfl, h1, h2⟩
      exact ⟨c :: u1, u2, rfl, by simp [hk, h1], h2⟩
    · rintro ⟨u1, u2, hu, h1, h2⟩
      cases u1 with
      | nil => simp at h1
      | cons d ds =>
        simp at hu h1
        obtain ⟨rfl, rfl⟩ := hu
        exact ⟨h1.1, ds, u2, rfl, h1.2, h2⟩

theorem matchesSeq_reverse (e : Env) : ∀ (w : List Cls) (u : Str),
    matchesSeq e w u → matchesSeq e w.reverse u.reverse
  | [], u, h => by simp at h; simp [h]
  | k :: ks, [], h => by simp at h
  | k :: ks, c :: cs, h => by
    simp at h
    simp only [List.reverse_cons]
    rw [matchesSeq_append]
    exact ⟨cs.reverse, [c], rfl, matchesSeq_reverse e ks cs h.2, by simp [h.1]⟩

theorem matchesSeq_all (e : Env) (q : Char → Prop) : ∀ (w : List Cls) (u : Str),
    (∀ k ∈ w, ∀ c, k.test e c = true → q c) → matchesSeq e w u → ∀ c ∈ u, q c
  | [], u, _, h => by simp at h; simp [h]
  | k :: ks, [], _, h => by simp at h
  | k :: ks, c :: cs, hq, h => by
    simp at h
    intro x hx
    simp only [List.mem_cons] at hx
    rcases hx with rfl | hx
    · exact hq k (by simp) _ h.1
    · exact matchesSeq_all e q ks cs (fun k' hk' => hq k' (by simp [hk'])) h.2 x hx

/-! ### the successes of closed expressions -/

theorem run_seqOf (e : Env) (r : Re) : ∀ (w : List Cls), seqOf r = some w → ∀ (s : Str) (p : Succ),
    p ∈ r.run e s ↔ matchesSeq e w p.1 ∧ p.1 ++ p.2.1 = s ∧ p.2.2 = [] := by
  induction r with
  | eps =>
    intro w h s p
    simp [seqOf] at h; subst h
    obtain ⟨m, r, c⟩ := p
    simp only [Re.run, List.mem_singleton, Prod.mk.injEq, matchesSeq_nil]
    constructor
    · rintro ⟨rfl, rfl, rfl⟩; simp
    · rintro ⟨rfl, h2, rfl⟩; simp at h2; simp [h2]
  | cls k =>
    intro w h s p
    have hw : w = [k] := by
      cases k <;> simp [seqOf] at h <;> simp [h]
    subst hw
    rw [mem_run_cls]
    obtain ⟨m, r, c⟩ := p
    constructor
    · rintro ⟨d, hd, rfl, h2, h3⟩
      simp only at h2 h3
      subst h2 h3
      simp [hd]
    · rintro ⟨h1, h2, h3⟩
      simp only at h1 h2 h3
      match m, h1 with
      | [d], h1 =>
        simp at h1
        exact ⟨d, h1, by simp [← h2], rfl, h3⟩
  | star k => intro w h; simp [seqOf] at h
  | alt a b _ _ => intro w h; simp [seqOf] at h
  | grp n a _ => intro w h; simp [seqOf] at h
  | cgrp a _ => intro w h; simp [seqOf] at h
  | seq a b iha ihb =>
    intro w h s p
    simp only [seqOf] at h
    match ha : seqOf a, hb : seqOf b with
    | none, _ => rw [ha] at h; simp at h
    | some x, none => rw [ha, hb] at h; simp at h
    | some x, some y =>
      rw [ha, hb] at h
      simp only [Option.some.injEq] at h
      subst h
      rw [mem_run_seq, matchesSeq_append]
      constructor
      · rintro ⟨m1, r1, c1, m2, c2, h1, h2, hm, hc⟩
        have e1 := (iha x ha s _).mp h1
        have e2 := (ihb y hb r1 _).mp h2
        simp only at e1 e2
        refine ⟨⟨m1, m2, hm, e1.1, e2.1⟩, ?_, ?_⟩
        · rw [hm, List.append_assoc, e2.2.1, e1.2.1]
        · rw [hc, e1.2.2, e2.2.2]; rfl
      · rintro ⟨⟨u1, u2, hu, h1, h2⟩, happ, hc⟩
        refine ⟨u1, u2 ++ p.2.1, [], u2, [], ?_, ?_, hu, by simp [hc]⟩
        · exact (iha x ha s _).mpr ⟨h1, by rw [← happ, hu, List.append_assoc], rfl⟩
        · exact (ihb y hb _ _).mpr ⟨h2, rfl, rfl⟩

theorem altsOf_of_seqOf (r : Re) (h1 : ∀ a, r ≠ .cgrp a) (h2 : ∀ a b, r ≠ .alt a b) :
    altsOf? r = (seqOf r).map (fun w => [w]) := by
  cases r with
  | cgrp a => exact absurd rfl (h1 a)
  | alt a b => exact absurd rfl (h2 a b)
  | _ => simp [altsOf?]

theorem run_altsOf (e : Env) (r : Re) : ∀ (alts : List (List Cls)), altsOf? r = some alts →
    ∀ (s : Str) (p : Succ),
    p ∈ r.run e s ↔ (∃ a ∈ alts, matchesSeq e a p.1) ∧ p.1 ++ p.2.1 = s ∧ p.2.2 = [] := by
  have base : ∀ r : Re, (∀ a, r ≠ .cgrp a) → (∀ a b, r ≠ .alt a b) →
      ∀ (alts : List (List Cls)), altsOf? r = some alts → ∀ (s : Str) (p : Succ),
      p ∈ r.run e s ↔ (∃ a ∈ alts, matchesSeq e a p.1) ∧ p.1 ++ p.2.1 = s ∧ p.2.2 = [] := by
    intro r h1 h2 alts h s p
    rw [altsOf_of_seqOf r h1 h2] at h
    simp only [Option.map_eq_some_iff] at h
    obtain ⟨w, hw, rfl⟩ := h
    rw [run_seqOf e r w hw]
    simp
  induction r with
  | eps => exact base _ (by simp) (by simp)
  | cls k => exact base _ (by simp) (by simp)
  | star k => exact base _ (by simp) (by simp)
  | seq a b _ _ => exact base _ (by simp) (by simp)
  | grp n a _ => exact base _ (by simp) (by simp)
  | cgrp a ih =>
    intro alts h s p
    simp only [altsOf?] at h
    simp only [Re.run]
    exact ih alts h s p
  | alt a b iha ihb =>
    intro alts h s p
    simp only [altsOf?] at h
    match ha : altsOf? a, hb : altsOf? b with
    | none, _ => rw [ha] at h; simp at h
    | some x, none => rw [ha, hb] at h; simp at h
    | some x, some y =>
      rw [ha, hb] at h
      simp only [Option.some.injEq] at h
      subst h
      simp only [Re.run, List.mem_append, iha x ha s p, ihb y hb s p]
      constructor
      · rintro (⟨⟨w, hw, hm⟩, h2⟩ | ⟨⟨w, hw, hm⟩, h2⟩)
        · exact ⟨⟨w, Or.inl hw, hm⟩, h2⟩
        · exact ⟨⟨w, Or.inr hw, hm⟩, h2⟩
      · rintro ⟨⟨w, hw | hw, hm⟩, h2⟩
        · exact Or.inl ⟨⟨w, hw, hm⟩, h2⟩
        · exact Or.inr ⟨⟨w, hw, hm⟩, h2⟩

/-- a closed expression accepts exactly the words of its alternatives -/
theorem accepts_altsOf (e : Env) (r : Re) (alts : List (List Cls)) (h : altsOf? r = some alts)
    (u : Str) : r.accepts e u = true ↔ ∃ a ∈ alts, matchesSeq e a u := by
  rw [accepts_iff]
  constructor
  · rintro ⟨c, hc⟩
    exact ((run_altsOf e r alts h u _).mp hc).1
  · rintro ha
    exact ⟨[], (run_altsOf e r alts h u (u, [], [])).mpr ⟨ha, by simp, rfl⟩⟩

theorem seqOf_noGrp (r : Re) : ∀ w, seqOf r = some w → r.noGrp = true := by
  induction r with
  | seq a b iha ihb =>
    intro w h
    simp only [seqOf] at h
    match ha : seqOf a, hb : seqOf b with
    | none, _ => rw [ha] at h; simp at h
    | some x, none => rw [ha, hb] at h; simp at h
    | some x, some y => simp [Re.noGrp, iha x ha, ihb y hb]
  | grp n a _ => intro w h; simp [seqOf] at h
  | _ => intro w h; simp [Re.noGrp] <;> simp [seqOf] at h

theorem altsOf_noGrp (r : Re) : ∀ alts, altsOf? r = some alts → r.noGrp = true := by
  have base : ∀ r : Re, (∀ a, r ≠ .cgrp a) → (∀ a b, r ≠ .alt a b) →
      ∀ alts, altsOf? r = some alts → r.noGrp = true := by
    intro r h1 h2 alts h
    rw [altsOf_of_seqOf r h1 h2] at h
    simp only [Option.map_eq_some_iff] at h
    obtain ⟨w, hw, _⟩ := h
    exact seqOf_noGrp r w hw
  induction r with
  | eps => exact base _ (by simp) (by simp)
  | cls k => exact base _ (by simp) (by simp)
  | star k => exact base _ (by simp) (by simp)
  | seq a b _ _ => exact base _ (by simp) (by simp)
  | grp n a _ => exact base _ (by simp) (by simp)
  | cgrp a ih =>
    intro alts h
    simp only [altsOf?] at h
    simpa [Re.noGrp] using ih alts h
  | alt a b iha ihb =>
    intro alts h
    simp only [altsOf?] at h
    match ha : altsOf? a, hb : altsOf? b with
    | none, _ => rw [ha] at h; simp at h
    | some x, none => rw [ha, hb] at h; simp at h
    | some x, some y => simp [Re.noGrp, iha x ha, ihb y hb]

/-! ### prefix-free vocabularies -/

theorem clsMeet_sound (e : Env) (k k' : Cls) (c : Char) (h : k.test e c = true)
    (h' : k'.test e c = true) : clsMeet e k k' = true := by
  cases k <;> cases k' <;> simp_all [clsMeet, Cls.test]

theorem prefixCompat_of (e : Env) : ∀ (a b : List Cls) (u u' x : Str),
    matchesSeq e a u → matchesSeq e b u' → u' = u ++ x → prefixCompat e a b = true
  | [], _, _, _, _, _, _, _ => by simp [prefixCompat]
  | k :: ks, b, [], _, _, h, _, _ => by simp at h
  | k :: ks, [], c :: cs, u', x, _, h', hx => by
    simp at h'; subst h'; simp at hx
  | k :: ks, k' :: ks', c :: cs, [], x, _, h', _ => by simp at h'
  | k :: ks, k' :: ks', c :: cs, c' :: cs', x, h, h', hx => by
    simp at h h' hx
    obtain ⟨rfl, hx⟩ := hx
    simp only [prefixCompat, Bool.and_eq_true]
    exact ⟨clsMeet_sound e k k' c' h.1 h'.1, prefixCompat_of e ks ks' cs cs' x h.2 h'.2 hx⟩

theorem prefixFree_unique (e : Env) (alts : List (List Cls)) (hpf : prefixFree e alts = true)
    (a b : List Cls) (ha : a ∈ alts) (hb : b ∈ alts) (u u' x x' : Str)
    (hu : matchesSeq e a u) (hu' : matchesSeq e b u') (heq : u ++ x = u' ++ x') : u = u' := by
  simp only [prefixFree, List.all_eq_true, Bool.not_eq_true', Bool.and_eq_false_iff,
    decide_eq_false_iff_not] at hpf
  have la := matchesSeq_length e a u hu
  have lb := matchesSeq_length e b u' hu'
  rcases List.append_eq_append_iff.mp heq with ⟨y, hy, _⟩ | ⟨y, hy, _⟩
  · -- u' = u ++ y
    cases y with
    | nil => simpa using hy.symm
    | cons d ds =>
      exfalso
      have hc := prefixCompat_of e a b u u' (d :: ds) hu hu' hy
      rcases hpf a ha b hb with h | h
      · apply h; rw [← la, ← lb, hy]; simp
      · rw [hc] at h; simp at h
  · cases y with
    | nil => simpa using hy
    | cons d ds =>
      exfalso
      have hc := prefixCompat_of e b a u' u (d :: ds) hu' hu hy
      rcases hpf b hb a ha with h | h
      · apply h; rw [← la, ← lb, hy]; simp
      · rw [hc] at h; simp at h

theorem suffixFree_unique (e : Env) (alts : List (List Cls)) (hsf : suffixFree e alts = true)
    (a b : List Cls) (ha : a ∈ alts) (hb : b ∈ alts) (u u' x x' : Str)
    (hu : matchesSeq e a u) (hu' : matchesSeq e b u') (heq : x ++ u = x' ++ u') : u = u' := by
  have := prefixFree_unique e (alts.map List.reverse) hsf a.reverse b.reverse
    (List.mem_map.mpr ⟨a, ha, rfl⟩) (List.mem_map.mpr ⟨b, hb, rfl⟩)
    u.reverse u'.reverse x.reverse x'.reverse (matchesSeq_reverse e a u hu)
    (matchesSeq_reverse e b u' hu') (by rw [← List.reverse_append, ← List.reverse_append, heq])
  simpa using this

end Det
