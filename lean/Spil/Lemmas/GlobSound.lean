/-
  Spil.Lemmas.GlobSound — what CAN be said about soundness of the path search: a path returned by
  `glob.glob(pattern)` is globbed by the pattern as a whole string; a pattern without wildcard
  matches only itself; and a key that occupies a whole '/' component of the path template
  ("pinned") has its value globbed by the search value.
-/
import Spil.Lemmas.GlobPath
import Spil.Lemmas.GlobSid

namespace GlobL

open Spec

/-! ### from `glob.glob` back to the glob relation -/

theorem glob2re_none_of_mem (a : Str) (h : '[' ∈ a) : Find.glob2re a = none := by
  induction a with
  | nil => simp at h
  | cons c cs ih =>
    by_cases hc : c = '['
    · subst hc; simp [Find.glob2re]
    · have hcs : '[' ∈ cs := by
        rcases List.mem_cons.1 h with h | h
        · exact absurd h.symm hc
        · exact h
      have : (c == '[') = false := by simpa using hc
      simp [Find.glob2re, this, ih hcs]

theorem compMatch_glob (a b : Str) (h : World.compMatch a b = true) : Glob a b := by
  have hb : '[' ∉ a := by
    intro hm
    unfold World.compMatch at h
    rw [glob2re_none_of_mem a hm] at h
    cases h
  rw [compMatch_eq, Bool.and_eq_true] at h
  exact (Find.globB_iff_glob _ a hb b).1 h.1

theorem Glob.append {a b c d : Str} (h : Glob a b) (h' : Glob c d) : Glob (a ++ c) (b ++ d) := by
  induction h with
  | nil => exact h'
  | starSkip _ ih => exact .starSkip ih
  | starTake hc _ ih => exact .starTake hc ih
  | one hc _ ih => exact .one hc ih
  | lit h1 h2 h3 _ ih => exact .lit h1 h2 h3 ih

theorem Glob.join {as bs : List Str} (h : All2 Glob as bs) :
    Glob (Str.joinWith '/' as) (Str.joinWith '/' bs) := by
  induction h with
  | nil => exact .nil
  | @cons a b as bs h1 h2 ih =>
    cases h2 with
    | nil => simpa [Str.joinWith] using h1
    | cons h3 h4 =>
      simp only [Str.joinWith] at ih ⊢
      exact Glob.append h1 (.lit (by decide) (by decide) (by decide) ih)

theorem all2_of_zip {α β} (f : α → β → Bool) : ∀ (a : List α) (b : List β), a.length = b.length →
    (a.zip b).all (fun p => f p.1 p.2) = true → All2 (fun x y => f x y = true) a b
  | [], [], _, _ => .nil
  | [], _ :: _, h, _ => by simp at h
  | _ :: _, [], h, _ => by simp at h
  | x :: a, y :: b, hl, h => by
    simp only [List.zip_cons_cons, List.all_cons, Bool.and_eq_true] at h
    exact .cons h.1 (all2_of_zip f a b (by simpa using hl) h.2)

/-- every path `glob.glob(pattern)` returns is a node of the tree and is globbed by the pattern
    as a whole string, in the sense of C08 -/
theorem glob_sound (w : World) (pat p : Str) (h : p ∈ w.glob pat) :
    p ∈ w.nodes.map (·.1) ∧ Glob pat p := by
  unfold World.glob at h
  obtain ⟨h1, h2⟩ := List.mem_filter.1 h
  refine ⟨h1, ?_⟩
  simp only [Bool.and_eq_true, beq_iff_eq] at h2
  have h3 := all2_of_zip World.compMatch _ _ h2.1.symm h2.2
  have h4 := Glob.join (All2.mono h3 (fun a _ b hab => compMatch_glob a b hab))
  rwa [Str.join_split, Str.join_split] at h4

/-! ### pinned keys -/

/-- the key `k` occupies a whole '/' component of the template: its placeholder follows literal
    text ending in '/' and is followed by nothing or by literal text starting with '/' -/
def pinned (k : Str) : Template → Bool
  | [] => false
  | tok :: rest =>
    (match tok, rest with
     | .lit l, .ph k' _ :: rest' =>
       l.getLast? == some '/' && k' == k &&
         (match rest' with
          | [] => true
          | .lit ('/' :: _) :: _ => true
          | _ => false)
     | _, _ => false) || pinned k rest

theorem pinned_unpack (k : Str) (t : Template) (h : pinned k t = true) :
    ∃ A l ex B, t = A ++ (.lit (l ++ ['/']) :: .ph k ex :: B) ∧
      (B = [] ∨ ∃ l' B', B = .lit ('/' :: l') :: B') := by
  induction t with
  | nil => simp [pinned] at h
  | cons tok rest ih =>
    simp only [pinned, Bool.or_eq_true] at h
    rcases h with h | h
    · split at h
      · next l k' ex rest' =>
        simp only [Bool.and_eq_true, beq_iff_eq] at h
        obtain ⟨⟨hl, hk⟩, hr⟩ := h
        subst hk
        have hl' : ∃ l0, l = l0 ++ ['/'] := by
          cases hne : l.getLast? with
          | none => rw [hne] at hl; cases hl
          | some c =>
            rw [hne] at hl
            injection hl with hl
            subst hl
            have : l ≠ [] := by intro e; subst e; simp at hne
            refine ⟨l.dropLast, ?_⟩
            have h2 := List.dropLast_concat_getLast this
            have h3 : l.getLast this = '/' := by
              have := List.getLast?_eq_some_getLast this
              rw [hne] at this
              injection this with this
              exact this.symm
            rw [h3] at h2
            exact h2.symm
        obtain ⟨l0, rfl⟩ := hl'
        refine ⟨[], l0, ex, rest', rfl, ?_⟩
        split at hr
        · exact Or.inl rfl
        · next l' B' => exact Or.inr ⟨l', B', rfl⟩
        · cases hr
      · cases h
    · obtain ⟨A, l, ex, B, hA, hB⟩ := ih h
      exact ⟨tok :: A, l, ex, B, by rw [hA]; rfl, hB⟩

theorem format_append (A B : Template) (d : Dict) (r : Str)
    (h : Template.format (A ++ B) d = some r) :
    ∃ ra rb, Template.format A d = some ra ∧ Template.format B d = some rb ∧ r = ra ++ rb := by
  induction A generalizing r with
  | nil => exact ⟨[], r, rfl, h, rfl⟩
  | cons tok A ih =>
    cases tok with
    | lit s =>
      simp only [List.cons_append, Template.format, Option.map_eq_some_iff] at h ⊢
      obtain ⟨r', hr', rfl⟩ := h
      obtain ⟨ra, rb, h1, h2, rfl⟩ := ih r' hr'
      exact ⟨s ++ ra, rb, ⟨ra, h1, rfl⟩, h2, by simp⟩
    | ph k ex =>
      simp only [List.cons_append, Template.format] at h ⊢
      split at h
      · next v r' hv hr' =>
        injection h with h
        subst h
        obtain ⟨ra, rb, h1, h2, rfl⟩ := ih r' hr'
        refine ⟨v ++ ra, rb, ?_, h2, by simp⟩
        rw [hv, h1]
      · cases h

/-- number of '/' in the literal text of a template -/
def litSlashes : Template → Nat
  | [] => 0
  | .lit s :: rest => Str.countChar '/' s + litSlashes rest
  | .ph _ _ :: rest => litSlashes rest

theorem countChar_append (c : Char) (a b : Str) :
    Str.countChar c (a ++ b) = Str.countChar c a + Str.countChar c b := by
  simp [Str.countChar, List.filter_append]

theorem countChar_zero (c : Char) (a : Str) (h : c ∉ a) : Str.countChar c a = 0 := by
  simp only [Str.countChar, List.length_eq_zero_iff, List.filter_eq_nil_iff, beq_iff_eq]
  intro x hx e
  subst e
  exact h hx

/-- with '/'-free values, a formatted text has exactly the '/' of the literal text -/
theorem format_slashes (A : Template) (d : Dict) (hd : ∀ kv ∈ d, '/' ∉ kv.2) (r : Str)
    (h : Template.format A d = some r) : Str.countChar '/' r = litSlashes A := by
  induction A generalizing r with
  | nil =>
    simp only [Template.format, Option.some.injEq] at h
    subst h; rfl
  | cons tok A ih =>
    cases tok with
    | lit s =>
      simp only [Template.format, Option.map_eq_some_iff] at h
      obtain ⟨r', hr', rfl⟩ := h
      rw [countChar_append, ih r' hr']; rfl
    | ph k ex =>
      simp only [Template.format] at h
      split at h
      · next v r' hv hr' =>
        injection h with h
        subst h
        rw [countChar_append, ih r' hr',
          countChar_zero '/' v (hd (k, v) (FSL.lookup_some_mem d k v hv))]
        simp [litSlashes]
      · cases h

theorem splitOn_append_sep_gen (sep : Char) (a rest : Str) :
    Str.splitOn sep (a ++ sep :: rest) = Str.splitOn sep a ++ Str.splitOn sep rest := by
  induction a with
  | nil => simp [Str.splitOn]
  | cons c cs ih =>
    rw [List.cons_append, splitOn_cons_eq, splitOn_cons_eq]
    by_cases hc : c = sep
    · rw [if_pos hc, if_pos hc, ih]; rfl
    · rw [if_neg hc, if_neg hc, ih]
      rw [splitOn_eq_cons sep cs]
      simp

theorem splitOn_length (sep : Char) (a : Str) :
    (Str.splitOn sep a).length = Str.countChar sep a + 1 := by
  induction a with
  | nil => rfl
  | cons c cs ih =>
    rw [Str.splitOn_length_cons]
    by_cases hc : c = sep
    · subst hc
      simp [Str.countChar, ih]
    · have : (c == sep) = false := by simpa using hc
      simp only [hc, if_false, ih, Str.countChar, List.filter_cons, this]
      simp

/-- the component right after a text ending in '/' -/
theorem comp_after (a v b : Str) (hv : '/' ∉ v) (hb : b = [] ∨ ∃ b', b = '/' :: b') :
    (Str.splitOn '/' ((a ++ ['/']) ++ (v ++ b)))[Str.countChar '/' a + 1]? = some v := by
  rw [List.append_assoc, List.singleton_append, splitOn_append_sep_gen]
  rw [List.getElem?_append_right (by rw [splitOn_length]; omega), splitOn_length]
  simp only [Nat.sub_self]
  rw [splitOn_append_nosep '/' v b hv]
  rcases hb with rfl | ⟨b', rfl⟩
  · simp [Str.splitOn]
  · simp [Str.splitOn]

/-- SOUNDNESS FOR A PINNED KEY (raw texts): if the text rendered from the search data globs the
    text rendered from the entity's data by the same template, all values are '/'-free and `k`
    occupies a whole component, then the search value of `k` globs the entity's value of `k` -/
theorem pinned_value (t : Template) (k : Str) (ds dx : Dict) (rs rx : Str)
    (hpin : pinned k t = true)
    (hs : Template.format t ds = some rs) (hx : Template.format t dx = some rx)
    (hfs : ∀ kv ∈ ds, '/' ∉ kv.2) (hfx : ∀ kv ∈ dx, '/' ∉ kv.2) (hg : Glob rs rx) :
    ∃ vs vx, ds.get k = some vs ∧ dx.get k = some vx ∧ Glob vs vx := by
  obtain ⟨A, l, ex, B, rfl, hB⟩ := pinned_unpack k t hpin
  obtain ⟨as, r1, hAs, h1s, rfl⟩ := format_append A _ ds rs hs
  obtain ⟨ax, r1x, hAx, h1x, rfl⟩ := format_append A _ dx rx hx
  simp only [Template.format, Option.map_eq_some_iff] at h1s h1x
  obtain ⟨r2, h2s, rfl⟩ := h1s
  obtain ⟨r2x, h2x, rfl⟩ := h1x
  split at h2s
  · next vs bs hvs hbs =>
    split at h2x
    · next vx bx hvx hbx =>
      injection h2s with h2s; injection h2x with h2x
      subst h2s; subst h2x
      refine ⟨vs, vx, hvs, hvx, ?_⟩
      have hvs' : '/' ∉ vs := hfs (k, vs) (FSL.lookup_some_mem ds k vs hvs)
      have hvx' : '/' ∉ vx := hfx (k, vx) (FSL.lookup_some_mem dx k vx hvx)
      -- what follows the placeholder is empty or starts with '/'
      have hBs : ∀ (d : Dict) (b : Str), Template.format B d = some b → b = [] ∨ ∃ b', b = '/' :: b' := by
        intro d b hb
        rcases hB with rfl | ⟨l', B', rfl⟩
        · simp only [Template.format, Option.some.injEq] at hb
          exact Or.inl hb.symm
        · simp only [Template.format, Option.map_eq_some_iff] at hb
          obtain ⟨b0, _, rfl⟩ := hb
          exact Or.inr ⟨l' ++ b0, rfl⟩
      have hcomps := Glob.comps hg
      have e1 : as ++ ((l ++ ['/']) ++ (vs ++ bs)) = ((as ++ l) ++ ['/']) ++ (vs ++ bs) := by simp
      have e2 : ax ++ ((l ++ ['/']) ++ (vx ++ bx)) = ((ax ++ l) ++ ['/']) ++ (vx ++ bx) := by simp
      rw [e1, e2] at hcomps
      have c1 := comp_after (as ++ l) vs bs hvs' (hBs ds bs hbs)
      have c2 := comp_after (ax ++ l) vx bx hvx' (hBs dx bx hbx)
      have hcnt : Str.countChar '/' (as ++ l) = Str.countChar '/' (ax ++ l) := by
        rw [countChar_append, countChar_append, format_slashes A ds hfs as hAs,
          format_slashes A dx hfx ax hAx]
      rw [hcnt] at c1
      exact All2.get hcomps _ vs vx c1 c2
    · cases h2x
  · cases h2s

end GlobL
