/-
  Spil.Lemmas.GlobSid — the link between the field-wise glob of two well-typed Sids of the same
  type and the glob relation of C08 between their STRINGS (what FindInList decides).
-/
import Spil.Lemmas.Glob
import Spil.Lemmas.Template
import Spil.Spec.Sid
import Spil.Props.C08

namespace GlobL

open Spec

theorem StarRel.append {P : Str → Prop} {a b c d : Str} (h : StarRel P a b) (h' : StarRel P c d) :
    StarRel P (a ++ c) (b ++ d) := by
  induction h with
  | nil => exact h'
  | lit x _ ih => exact .lit x ih
  | star v hv _ ih => rw [List.append_assoc]; exact .star v hv ih

theorem StarRel.join {P : Str → Prop} {as bs : List Str} (h : All2 (StarRel P) as bs) :
    StarRel P (Str.joinWith '/' as) (Str.joinWith '/' bs) := by
  induction h with
  | nil => exact .nil
  | @cons a b as bs h1 h2 ih =>
    cases h2 with
    | nil => simpa [Str.joinWith] using h1
    | cons h3 h4 =>
      simp only [Str.joinWith] at ih ⊢
      exact h1.append (.lit '/' ih)

/-- the glob relation splits along the '/' segments -/
theorem Glob.comps {a b : Str} (h : Glob a b) :
    All2 Glob (Str.splitOn '/' a) (Str.splitOn '/' b) := by
  induction h with
  | nil => exact .cons .nil .nil
  | @starSkip p s _ ih =>
    rw [splitOn_cons_eq, if_neg (by decide)]
    rw [splitOn_eq_cons '/' p, splitOn_eq_cons '/' s] at ih
    rw [splitOn_eq_cons '/' s]
    cases ih with
    | cons h1 h2 => exact .cons (.starSkip h1) h2
  | @starTake p s c hc _ ih =>
    rw [splitOn_cons_eq '/' c s, if_neg hc]
    rw [splitOn_eq_cons '/' s, splitOn_cons_eq '/' '*' p, if_neg (by decide)] at ih
    rw [splitOn_cons_eq '/' '*' p, if_neg (by decide)]
    cases ih with
    | cons h1 h2 => exact .cons (.starTake hc h1) h2
  | @one p s c hc _ ih =>
    rw [splitOn_cons_eq '/' c s, if_neg hc, splitOn_cons_eq '/' '?' p, if_neg (by decide)]
    rw [splitOn_eq_cons '/' p, splitOn_eq_cons '/' s] at ih
    cases ih with
    | cons h1 h2 => exact .cons (.one hc h1) h2
  | @lit p s a h1 h2 h3 _ ih =>
    rw [splitOn_cons_eq '/' a s, splitOn_cons_eq '/' a p]
    by_cases ha : a = '/'
    · rw [if_pos ha, if_pos ha]; exact .cons .nil ih
    · rw [if_neg ha, if_neg ha]
      rw [splitOn_eq_cons '/' p, splitOn_eq_cons '/' s] at ih
      cases ih with
      | cons g1 g2 => exact .cons (.lit h1 h2 h3 g1) g2

/-- segment-wise reading of `fieldsGlob` on the field dictionaries of two strings -/
def segGlob (a b : Str) : Prop := a = ['*'] ∨ a = b

theorem fieldsGlob_zip {A B : List Str} (h : All2 segGlob A B) :
    ∀ K : List Str, fieldsGlob (K.zip A) (K.zip B) := by
  induction h with
  | nil => intro K; cases K <;> trivial
  | cons h1 _ ih =>
    intro K
    cases K with
    | nil => trivial
    | cons k K => exact ⟨rfl, h1, ih K⟩

theorem all2_of_fieldsGlob_zip : ∀ (K A B : List Str), A.length = K.length → B.length = K.length →
    fieldsGlob (K.zip A) (K.zip B) → All2 segGlob A B
  | [], [], [], _, _, _ => .nil
  | [], _ :: _, _, h, _, _ => by simp at h
  | [], [], _ :: _, _, h, _ => by simp at h
  | _ :: _, [], _, h, _, _ => by simp at h
  | _ :: _, _ :: _, [], _, h, _ => by simp at h
  | k :: K, a :: A, b :: B, ha, hb, h => by
    obtain ⟨_, h1, h2⟩ := h
    exact .cons h1 (all2_of_fieldsGlob_zip K A B (by simpa using ha) (by simpa using hb) h2)

/-- what `wellTyped` says about the fields: the keys of the template zipped with the segments -/
theorem wellTyped_fields (e : Env) (ts : List (Str × Template)) (x : Sid) (t : Template)
    (ht : ts.lookup x.type = some t) (h : wellTyped e ts x) :
    x.fields = ((phs t).map (·.1)).zip (Str.splitOn '/' x.string) ∧
      (Str.splitOn '/' x.string).length = ((phs t).map (·.1)).length := by
  obtain ⟨t', ht', _, hacc, hf⟩ := h
  rw [ht] at ht'
  injection ht' with ht'
  subst ht'
  refine ⟨hf, ?_⟩
  rw [List.length_map]
  exact SidL.acceptsSegs_length e _ _ hacc

/-- fields ⇒ strings: a field-wise glob between well-typed Sids is a glob between their strings -/
theorem string_glob_of_sidGlob (env : Env) (ts : List (Str × Template)) (s e : Sid)
    (hs : wellTyped env ts s) (he : wellTyped env ts e) (hg : SidGlob s e) (hb : '[' ∉ s.string) :
    Glob s.string e.string := by
  obtain ⟨t, ht, _, _, _⟩ := id hs
  have ht' : ts.lookup e.type = some t := by rw [← hg.1]; exact ht
  obtain ⟨hfs, hls⟩ := wellTyped_fields env ts s t ht hs
  obtain ⟨hfe, hle⟩ := wellTyped_fields env ts e t ht' he
  have h2 : All2 segGlob (Str.splitOn '/' s.string) (Str.splitOn '/' e.string) := by
    apply all2_of_fieldsGlob_zip _ _ _ hls hle
    rw [← hfs, ← hfe]; exact hg.2
  have h3 : All2 (StarRel (fun v => '/' ∉ v)) (Str.splitOn '/' s.string) (Str.splitOn '/' e.string) := by
    have hfree : ∀ b ∈ Str.splitOn '/' e.string, '/' ∉ b := Str.splitOn_not_mem '/' e.string
    generalize Str.splitOn '/' s.string = A at h2
    generalize Str.splitOn '/' e.string = B at h2 hfree
    induction h2 with
    | nil => exact .nil
    | @cons a b as bs h1 _ ih =>
      refine .cons ?_ (ih (fun x hx => hfree x (List.mem_cons_of_mem _ hx)))
      rcases h1 with rfl | rfl
      · have := StarRel.star (P := fun v => '/' ∉ v) b (a := []) (b := []) (hfree b (by simp)) .nil
        simpa using this
      · exact StarRel.refl _ _
  have h4 := StarRel.join h3
  rw [Str.join_split, Str.join_split] at h4
  exact h4.glob (fun v hv => hv) hb

/-- strings ⇒ fields: for a whole-segment star search, a glob between the strings of two
    well-typed Sids of the same type is a field-wise glob -/
theorem sidGlob_of_string_glob (env : Env) (ts : List (Str × Template)) (s e : Sid)
    (hs : wellTyped env ts s) (he : wellTyped env ts e) (hty : s.type = e.type)
    (hw : wholeStar s.string) (hb : '[' ∉ s.string) (hg : Glob s.string e.string) :
    SidGlob s e := by
  obtain ⟨t, ht, _, _, _⟩ := id hs
  have ht' : ts.lookup e.type = some t := by rw [← hty]; exact ht
  obtain ⟨hfs, _⟩ := wellTyped_fields env ts s t ht hs
  obtain ⟨hfe, _⟩ := wellTyped_fields env ts e t ht' he
  refine ⟨hty, ?_⟩
  rw [hfs, hfe]
  apply fieldsGlob_zip
  have h1 := Glob.comps hg
  apply All2.mono h1
  intro a ha b hab
  rcases hw a ha with rfl | ⟨h1, h2⟩
  · exact Or.inl rfl
  · right
    have hba : '[' ∉ a := fun hm => hb (mem_of_mem_splitOn '/' _ a '[' ha hm)
    exact ((C08.c08_literal a b h1 h2 hba).1 hab).symm

end GlobL
