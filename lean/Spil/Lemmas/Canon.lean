/-
  Spil.Lemmas.Canon — canonicity of the paths `Sid.path` returns: `str(PurePosixPath(p))` of a
  string rooted at exactly one '/' followed by a real component is a canonical absolute path, and
  the formatted text of a template that starts with a literal starts with that literal.
-/
import Spil.Lemmas.FS
import Spil.Lemmas.PathL

namespace CanonL

open Spec

/-- formatting a template whose first token is a literal yields that literal followed by the rest -/
theorem format_lit_prefix (s : Str) (rest : Template) (d : Dict) (path : Str)
    (h : Template.format (.lit s :: rest) d = some path) : ∃ r, path = s ++ r := by
  simp only [Template.format, Option.map_eq_some_iff] at h
  obtain ⟨r, _, hr⟩ := h
  exact ⟨r, hr.symm⟩

/-- a kept component is non-empty -/
theorem keep_ne_nil (comp : Str) (h : PurePath.keep comp = true) : comp ≠ [] := by
  intro e; subst e; simp [PurePath.keep] at h

/-- `str(PurePosixPath(p))` of a string with exactly one leading '/' and a real component -/
theorem normalize_canon (p : Str) (h1 : PurePath.leadingSlashes p = 1)
    (hc : ((Str.splitOn '/' p).filter PurePath.keep) ≠ []) : CanonPath (PurePath.normalize p) := by
  refine ⟨(Str.splitOn '/' p).filter PurePath.keep, hc, ?_, ?_⟩
  · intro c hcm
    rw [List.mem_filter] at hcm
    exact ⟨keep_ne_nil c hcm.2, Str.splitOn_not_mem '/' p c hcm.1⟩
  · simp [PurePath.normalize, h1]

theorem leadingSlashes_rooted (c : Char) (tail : Str) (hc : c ≠ '/') :
    PurePath.leadingSlashes ('/' :: c :: tail) = 1 := by
  have : PurePath.leadingSlashes (c :: tail) = 0 := by
    unfold PurePath.leadingSlashes
    split
    · next h => simp at h; exact absurd h.1 hc
    · rfl
  simp [PurePath.leadingSlashes, this]

/-- the first piece of a string that starts with a non-separator starts with that character -/
theorem splitOn_cons_ne (sep c : Char) (tail : Str) (hc : c ≠ sep) :
    ∃ p ps, Str.splitOn sep (c :: tail) = (c :: p) :: ps := by
  simp only [Str.splitOn, hc, if_false]
  match Str.splitOn sep tail with
  | [] => exact ⟨[], [], rfl⟩
  | p :: ps => exact ⟨p, ps, rfl⟩

theorem filter_keep_rooted (c : Char) (tail : Str) (hc : c ≠ '/') (hd : c ≠ '.') :
    ((Str.splitOn '/' ('/' :: c :: tail)).filter PurePath.keep) ≠ [] := by
  obtain ⟨p, ps, hs⟩ := splitOn_cons_ne '/' c tail hc
  have hk : PurePath.keep (c :: p) = true := by
    simp only [PurePath.keep, List.isEmpty_cons, Bool.not_false, Bool.true_and, bne_iff_ne, ne_eq]
    intro e
    injection e with e1 _
    exact hd e1
  have : Str.splitOn '/' ('/' :: c :: tail) = [] :: (c :: p) :: ps := by
    rw [← hs]; simp [Str.splitOn]
  rw [this]
  intro hnil
  have hm : (c :: p) ∈ List.filter PurePath.keep ([] :: (c :: p) :: ps) :=
    List.mem_filter.2 ⟨by simp, hk⟩
  rw [hnil] at hm
  cases hm

/-- a string "/c…" with `c` neither '/' nor '.' normalises to a canonical absolute path -/
theorem normalize_rooted (c : Char) (tail : Str) (hc : c ≠ '/') (hd : c ≠ '.') :
    CanonPath (PurePath.normalize ('/' :: c :: tail)) :=
  normalize_canon _ (leadingSlashes_rooted c tail hc) (filter_keep_rooted c tail hc hd)

/-- a successful `dict_to_path` is the normalised formatted text of the template of its type -/
theorem dictToPath_ok (c : Ctx) (pc : PathConf) (data : Dict) (ty : Str) (p : Str)
    (h : c.dictToPath pc data ty = .ok p) :
    ∃ t d path, pc.resolver.lookup ty = some t ∧ Template.format t d = some path ∧
      p = PurePath.normalize path := by
  unfold Ctx.dictToPath at h
  split at h
  · cases h
  · split at h
    · cases h
    · next t ht =>
      simp only at h
      split at h
      · cases h
      · split at h
        · cases h
        · split at h
          · cases h
          · next path hf =>
            split at h
            · cases h
            · split at h
              · injection h with h
                exact ⟨t, _, path, ht, hf, h.symm⟩
              · cases h

/-- a successful `sid.path` likewise, with the path configuration a member of the configured ones -/
theorem sidPath_ok (c : Ctx) (cfg : Option Str) (x : Sid) (p : Str)
    (h : c.sidPath cfg x = .ok (some p)) :
    ∃ pc t d path, pc ∈ c.cfg.paths ∧ (x.type, t) ∈ pc.templates ∧ Template.format t d = some path ∧
      p = PurePath.normalize path := by
  unfold Ctx.sidPath at h
  split at h
  · cases h
  · split at h
    · cases h
    · next pc hpc =>
      have hmem : pc ∈ c.cfg.paths := by
        unfold Conf.pathConf? at hpc
        exact List.mem_of_find?_eq_some hpc
      split at h
      · next q hq =>
        injection h with h
        injection h with h
        subst h
        obtain ⟨t, d, path, hl, hf, hp⟩ := dictToPath_ok c pc x.fields x.type q hq
        exact ⟨pc, t, d, path, hmem, FSL.lookup_some_mem _ _ _ hl, hf, hp⟩
      · cases h
      · cases h

end CanonL
