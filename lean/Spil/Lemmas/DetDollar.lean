/-
  Spil.Lemmas.DetDollar — which success `$` selects on a self-rendered path: the full-length one,
  also when the rendered path ends in a newline (then the last atom is a free placeholder, whose
  greedy star comes first).
-/
import Spil.Lemmas.DetParse

namespace Det

open Spec

theorem getLast?_append_ne {α : Type} (l l' : List α) (h : l' ≠ []) :
    (l ++ l').getLast? = l'.getLast? := by
  rw [List.getLast?_append]
  cases hl : l'.getLast? with
  | none => simp at hl; exact absurd hl h
  | some a => simp

theorem dollarOk_mkSeq_snoc (e : Env) (r : Re) (hr : r.dollarOk e) :
    ∀ init : List Re, (Re.mkSeq (init ++ [r])).dollarOk e
  | [] => by simpa [Re.mkSeq] using hr
  | a :: init => by
    have : (a :: init) ++ [r] = a :: (init ++ [r]) := rfl
    rw [this, SidL.mkSeq_cons_of_ne _ _ (by simp)]
    exact dollarOk_seq e a _ (dollarOk_mkSeq_snoc e r hr init)

theorem items_nil_of_flat_nil : ∀ (t : Template) (seen : List Tok),
    flatAtoms t = some [] → Template.items seen t = []
  | [], _, _ => rfl
  | .lit s :: rest, seen, h => by
    obtain ⟨as, has, hfl⟩ := (flatAtoms_lit s rest []).mp h
    have := List.append_eq_nil_iff.mp hfl.symm
    have hs : s = [] := by simpa using this.1
    subst hs
    rw [this.2] at has
    simp [Template.items, items_nil_of_flat_nil rest _ has]
  | .ph k ex :: rest, seen, h => by
    obtain ⟨a, as, _, _, hfl⟩ := (flatAtoms_ph k ex rest []).mp h
    simp at hfl

theorem last_free_items : ∀ (t : Template) (seen : List Tok) (fl : List Atom),
    flatAtoms t = some fl → ∀ k, fl.getLast? = some (Atom.free k) →
    ∃ init n, Template.items seen t = init ++ [Re.grp n (Re.star Cls.notSlash)]
  | [], seen, fl, h, k, hl => by
    simp only [flatAtoms, Option.some.injEq] at h
    subst h
    simp at hl
  | .lit s :: rest, seen, fl, h, k, hl => by
    obtain ⟨as, has, rfl⟩ := (flatAtoms_lit s rest fl).mp h
    by_cases hn : as = []
    · subst hn
      exfalso
      simp only [List.append_nil] at hl
      have := List.mem_of_getLast? hl
      simp at this
    · rw [getLast?_append_ne _ _ hn] at hl
      obtain ⟨init, n, hi⟩ := last_free_items rest (seen ++ [.lit s]) as has k hl
      exact ⟨s.map (fun c => Re.cls (Template.litCls c)) ++ init, n, by
        simp [Template.items, hi]⟩
  | .ph k' ex :: rest, seen, fl, h, k, hl => by
    obtain ⟨a, as, ha, has, rfl⟩ := (flatAtoms_ph k' ex rest fl).mp h
    by_cases hn : as = []
    · subst hn
      simp only [List.getLast?_singleton, Option.some.injEq] at hl
      subst hl
      have hex : ex = Re.star Cls.notSlash := by
        simp only [phAtom] at ha
        split at ha
        · next hex => simpa using hex
        · simp only [Option.map_eq_some_iff] at ha
          obtain ⟨_, _, hh⟩ := ha
          simp at hh
      subst hex
      exact ⟨[], k' ++ Str.pad3 (Template.countKey k' seen + 1), by
        simp [Template.items, items_nil_of_flat_nil rest _ has]⟩
    · have : (a :: as).getLast? = as.getLast? := by
        cases as with
        | nil => exact absurd rfl hn
        | cons b bs => simp [List.getLast?_cons_cons]
      rw [this] at hl
      obtain ⟨init, n, hi⟩ := last_free_items rest (seen ++ [.ph k' ex]) as has k hl
      exact ⟨Re.grp (k' ++ Str.pad3 (Template.countKey k' seen + 1)) ex :: init, n, by
        simp [Template.items, hi]⟩

/-- the word of a non-free atom does not end in a newline -/
theorem aword_last_not_nl (e : Env) (a : Atom) (hok : atomOk e a = true) (hf : a.isFree = false)
    (u x : Str) (hu : aword e a u) : (x ++ u).getLast? ≠ some '\n' := by
  cases a with
  | free k => simp [Atom.isFree] at hf
  | cls k =>
    obtain ⟨c, rfl, hc⟩ := hu
    simp only [atomOk] at hok
    have := Cls.nlFree_test e k hok c hc
    simp [this]
  | closed key alts =>
    obtain ⟨w, hw, hm⟩ := hu
    simp only [atomOk, Bool.and_eq_true, List.all_eq_true, Bool.not_eq_true',
      List.isEmpty_eq_false_iff] at hok
    have hwne : w ≠ [] := (hok.2 w hw).1
    have hune : u ≠ [] := by
      intro h0; subst h0
      cases w with
      | nil => exact hwne rfl
      | cons _ _ => simp at hm
    rw [getLast?_append_ne _ _ hune]
    intro hl
    have hmem := List.mem_of_getLast? hl
    have := matchesSeq_all e (fun c => c ≠ '\n') w u (by
      intro k hk c hc
      exact Cls.nlFree_test e k ((hok.2 w hw).2 k hk).2 c hc) hm '\n' hmem
    exact this rfl

/-- on a self-rendered path `$` selects a full-length success, newline or not -/
theorem rendered_full (e : Env) (t : Template) (data : Dict) (w : Str)
    (hok : pathTplOk e t = true) (hv : valuesOk e t data = true)
    (hw : Template.format t data = some w) :
    ∀ x, ((Template.compile t).run e w).find? (fun p => atDollar p.2.1) = some x → x.2.1 = [] := by
  obtain ⟨fl, hfl, _, hatom, _⟩ := (pathTplOk_iff e t).mp hok
  obtain ⟨hparse, _⟩ := parse_of_format e t fl data w hfl hatom hv hw
  cases hl : fl.getLast? with
  | none =>
    have : fl = [] := by simpa using hl
    subst this
    have := ((parse_nil_iff e w _).mp hparse).1
    subst this
    exact full_of_no_nl e _ [] (by simp)
  | some a =>
    obtain ⟨init, rfl⟩ := List.getLast?_eq_some_iff.mp hl
    obtain ⟨w1, u, v1, v2, rfl, _, _, p2⟩ := (parse_append e init [a] w _).mp hparse
    have hu := ((parse_single_iff e a u v2).mp p2).1
    have hoka : atomOk e a = true := by
      simp only [List.all_append, Bool.and_eq_true, List.all_cons] at hatom
      exact hatom.2.1
    cases hf : a.isFree with
    | false => exact full_of_no_nl e _ _ (aword_last_not_nl e a hoka hf u w1 hu)
    | true =>
      cases a with
      | free k =>
        obtain ⟨ini, n, hi⟩ := last_free_items t [] _ hfl k hl
        have hd : (Template.compile t).dollarOk e := by
          unfold Template.compile
          rw [hi]
          exact dollarOk_mkSeq_snoc e _ (dollarOk_grp e n _ (dollarOk_star_notSlash e)) ini
        exact hd _
      | cls k => simp [Atom.isFree] at hf
      | closed key alts => simp [Atom.isFree] at hf

/-- `c05_own_parse` without the newline hypothesis -/
theorem own_parse_nl (e : Env) (t : Template) (data : Dict) (w : Str)
    (hok : pathTplOk e t = true) (hv : valuesOk e t data = true)
    (hkeys : Dict.keysEq data (Template.keys t) = true) (hne : Template.keys t ≠ [])
    (hw : Template.format t data = some w) :
    ∃ d, Resolver.resolveTpl e true t w = .ok (some d) ∧ (∀ k, d.get k = data.get k) ∧
      d.map (·.1) = Template.keys t :=
  own_parse_of_full e t data w hok hv hkeys hne hw (rendered_full e t data w hok hv hw)

/-- formatting a conform dictionary never hits resolva's duplicate clash -/
theorem no_clash (e : Env) (r : Resolver) (label : Str) (t : Template)
    (hl : r.lookup label = some t) (hok : pathTplOk e t = true)
    (data : Dict) (hv : valuesOk e t data = true) :
    Resolver.formatOne e r data label ≠ .error .resolva := by
  unfold Resolver.formatOne
  split
  · simp
  · next hemp =>
    rw [hl]
    simp only
    unfold Resolver.formatTpl
    split
    · simp
    · next hk =>
      have hkeys : Dict.keysEq data (Template.keys t) = true := by simpa using hk
      have hne : Template.keys t ≠ [] := by
        intro h0
        rw [h0] at hkeys
        apply hemp
        cases data with
        | nil => rfl
        | cons p d => simp [Dict.keysEq] at hkeys
      cases hf : Template.format t data with
      | none => simp
      | some w =>
        simp only
        obtain ⟨d, hd, _, _⟩ := own_parse_nl e t data w hok hv hkeys hne hf
        have hro : ∃ od, Resolver.resolveOne e r w label = .ok od := by
          unfold Resolver.resolveOne
          split
          · exact ⟨_, rfl⟩
          · rw [hl]
            simp only
            cases hcd : r.checkDup with
            | true => exact ⟨_, hd⟩
            | false => exact SidL.resolveTpl_total e t w
        obtain ⟨od, hod⟩ := hro
        rw [hod]
        cases od <;> simp

end Det
