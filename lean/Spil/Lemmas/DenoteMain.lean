/-
  Spil.Lemmas.DenoteMain — helper lemmas for C07c: the `Except` plumbing (`mapE`, `flatMapE`) and the
  composition of the stages of `unfold_search` on a query-free expression.
-/
import Spil.Spec.Denote
import Spil.Lemmas.DenoteStr
import Spil.Lemmas.DenoteExpand
import Spil.Lemmas.DenoteNarrow

namespace DenL

open Spec Ctx

/-! ### `mapE`, `flatMapE` -/

theorem mapE_ok_mem {α β} (f : α → Except Err β) : ∀ (l : List α) (ys : List β),
    mapE f l = .ok ys → ∀ y, y ∈ ys ↔ ∃ x ∈ l, f x = .ok y
  | [], ys, h, y => by
    simp only [mapE, Except.ok.injEq] at h
    subst h; simp
  | x :: xs, ys, h, y => by
    simp only [mapE] at h
    split at h
    · cases h
    · next y0 hy0 =>
      split at h
      · cases h
      · next ys0 hys0 =>
        simp only [Except.ok.injEq] at h
        subst h
        have ih := mapE_ok_mem f xs ys0 hys0 y
        simp only [List.mem_cons, ih]
        constructor
        · rintro (rfl | ⟨x', hx', hf⟩)
          · exact ⟨x, Or.inl rfl, hy0⟩
          · exact ⟨x', Or.inr hx', hf⟩
        · rintro ⟨x', rfl | hx', hf⟩
          · rw [hy0] at hf
            simp only [Except.ok.injEq] at hf
            exact Or.inl hf.symm
          · exact Or.inr ⟨x', hx', hf⟩

theorem mapE_ok_all {α β} (f : α → Except Err β) : ∀ (l : List α) (ys : List β),
    mapE f l = .ok ys → ∀ x ∈ l, ∃ y, f x = .ok y
  | [], _, _, _, hx => by simp at hx
  | x :: xs, ys, h, x', hx' => by
    simp only [mapE] at h
    split at h
    · cases h
    · next y0 hy0 =>
      split at h
      · cases h
      · next ys0 hys0 =>
        simp only [List.mem_cons] at hx'
        rcases hx' with rfl | hx'
        · exact ⟨y0, hy0⟩
        · exact mapE_ok_all f xs ys0 hys0 x' hx'

theorem mapE_error {α β} (f : α → Except Err β) : ∀ (l : List α) (e : Err),
    mapE f l = .error e → ∃ x ∈ l, f x = .error e
  | [], e, h => by simp [mapE] at h
  | x :: xs, e, h => by
    simp only [mapE] at h
    split at h
    · next e0 he0 =>
      simp only [Except.error.injEq] at h
      subst h
      exact ⟨x, by simp, he0⟩
    · split at h
      · next e0 he0 =>
        simp only [Except.error.injEq] at h
        subst h
        obtain ⟨x', hx', hf⟩ := mapE_error f xs _ he0
        exact ⟨x', by simp [hx'], hf⟩
      · cases h

theorem mapE_total {α β} (f : α → Except Err β) : ∀ (l : List α),
    (∀ x ∈ l, ∃ y, f x = .ok y) → ∃ ys, mapE f l = .ok ys
  | [], _ => ⟨[], rfl⟩
  | x :: xs, h => by
    obtain ⟨y, hy⟩ := h x (by simp)
    obtain ⟨ys, hys⟩ := mapE_total f xs (fun x' hx' => h x' (by simp [hx']))
    exact ⟨y :: ys, by simp [mapE, hy, hys]⟩

/-- when every failure is the same error, one failing element makes the whole map fail with it -/
theorem mapE_error_of {α β} (f : α → Except Err β) (e : Err) : ∀ (l : List α),
    (∃ x ∈ l, f x = .error e) → (∀ x ∈ l, ∀ e', f x = .error e' → e' = e) → mapE f l = .error e
  | [], h, _ => by simp at h
  | x :: xs, h, hall => by
    simp only [mapE]
    cases hx : f x with
    | error e0 => rw [hall x (by simp) e0 hx]
    | ok y =>
      obtain ⟨x', hx', hf⟩ := h
      simp only [List.mem_cons] at hx'
      rcases hx' with rfl | hx'
      · rw [hx] at hf; cases hf
      · rw [mapE_error_of f e xs ⟨x', hx', hf⟩ (fun z hz => hall z (by simp [hz]))]

theorem flatMapE_ok_mem {α β} (f : α → Except Err (List β)) (l : List α) (ys : List β)
    (h : flatMapE f l = .ok ys) : ∀ y, y ∈ ys ↔ ∃ x ∈ l, ∃ r, f x = .ok r ∧ y ∈ r := by
  unfold flatMapE at h
  split at h
  · cases h
  · next yss hyss =>
    simp only [Except.ok.injEq] at h
    subst h
    intro y
    simp only [List.mem_flatten]
    constructor
    · rintro ⟨r, hr, hy⟩
      obtain ⟨x, hx, hf⟩ := (mapE_ok_mem f l yss hyss r).1 hr
      exact ⟨x, hx, r, hf, hy⟩
    · rintro ⟨x, hx, r, hf, hy⟩
      exact ⟨r, (mapE_ok_mem f l yss hyss r).2 ⟨x, hx, hf⟩, hy⟩

theorem flatMapE_total {α β} (f : α → Except Err (List β)) (l : List α)
    (h : ∀ x ∈ l, ∃ r, f x = .ok r) : ∃ ys, flatMapE f l = .ok ys := by
  obtain ⟨yss, hyss⟩ := mapE_total f l h
  exact ⟨yss.flatten, by simp [flatMapE, hyss]⟩

theorem flatMapE_error_of {α β} (f : α → Except Err (List β)) (e : Err) (l : List α)
    (h : ∃ x ∈ l, f x = .error e) (hall : ∀ x ∈ l, ∀ e', f x = .error e' → e' = e) :
    flatMapE f l = .error e := by
  simp [flatMapE, mapE_error_of f e l h hall]

/-! ### the characters of the plain strings -/

theorem choice_mem : ∀ {ps picks : List Str}, Choice ps picks → ∀ a ∈ picks, ∃ p ∈ ps, a ∈ altsOf p
  | _, _, .nil, a, h => by simp at h
  | _, _, .cons (p := p) hp hc, a, h => by
    simp only [List.mem_cons] at h
    rcases h with rfl | h
    · exact ⟨p, by simp, hp⟩
    · obtain ⟨q, hq, ha⟩ := choice_mem hc a h
      exact ⟨q, by simp [hq], ha⟩

/-- a character of a plain string the expression stands for is '/', or a character of the
    expression, or a character of an extension of the alias table -/
theorem picks_char (c : Ctx) (s a : Str) (h : Picks c s a) (ch : Char) (hch : ch ∈ a) :
    ch = '/' ∨ ch ∈ s ∨ ∃ k vs v, c.cfg.sid.extensionAlias.lookup k = some vs ∧ v ∈ vs ∧ ch ∈ v := by
  obtain ⟨picks, l, hpi, hl, rfl⟩ := h
  rcases UpdL.mem_joinWith _ _ _ hch with h | ⟨p, hp, hcp⟩
  · exact Or.inl h
  · right
    simp only [List.mem_append, List.mem_singleton] at hp
    rcases hp with hp | rfl
    · obtain ⟨seg, hseg, hps⟩ := choice_mem hpi p hp
      left
      exact (Str.splitOn_infix '/' s seg (List.dropLast_subset _ hseg)).subset
        ((altsOf_infix seg p hps).subset hcp)
    · rcases mem_lastAlts c _ _ hl with ⟨ha, _⟩ | ⟨k, vs, _, hlk, hv⟩
      · left
        exact (Str.splitOn_infix '/' s _ (last_mem s)).subset ((altsOf_infix _ _ ha).subset hcp)
      · exact Or.inr ⟨k, vs, _, hlk, hv, hcp⟩

theorem picks_no_query (c : Ctx) (hal : aliasOk c.cfg.sid = true) (s a : Str) (h : Picks c s a)
    (hq : '?' ∉ s) : '?' ∉ a := by
  intro hm
  rcases picks_char c s a h '?' hm with h | h | ⟨k, vs, v, hl, hv, hc⟩
  · cases h
  · exact hq h
  · exact ((aliasOk_unpack _ hal _ _ hl).2.2 v hv).2.2.1 hc

theorem picks_no_colon (c : Ctx) (hal : aliasOk c.cfg.sid = true) (s a : Str) (h : Picks c s a)
    (hq : ':' ∉ s) : ':' ∉ a := by
  intro hm
  rcases picks_char c s a h ':' hm with h | h | ⟨k, vs, v, hl, hv, hc⟩
  · cases h
  · exact hq h
  · exact ((aliasOk_unpack _ hal _ _ hl).2.2 v hv).2.2.2.1 hc

/-! ### composition -/

/-- what `unfold_search` keeps of the narrowed Sids -/
def keep (x : Sid) : Bool := x.typed && !Str.hasChar '?' x.string

/-- the stages of `unfold_search`, composed, on a query-free expression -/
theorem unfold_core (c : Ctx) (hwf : sidHierOk c.env c.cfg.sid.templates = true)
    (hal : aliasOk c.cfg.sid = true) (s : Str) (hq : '?' ∉ s) (hc : ':' ∉ s)
    (hm : Str.isInfix startMark s = false) (hr : Rooted c s) :
    (Malformed c s → c.unfoldSearch s false false = .error .spil) ∧
    (¬ Malformed c s → ∃ s3 : List Sid,
      (∀ y ∈ s3, (y.typed = true ∧ Denotes c s y) ∨ Leftover y) ∧
      (∀ y, Denotes c s y → y ∈ s3) ∧
      (∀ e, mapE c.typeNarrow s3 = .error e → c.unfoldSearch s false false = .error e) ∧
      (∀ s4, mapE c.typeNarrow s3 = .ok s4 →
        c.unfoldSearch s false false = .ok ((sortSids s4).filter keep))) := by
  obtain ⟨A, hext, hor, hA⟩ := stageA c hal s hq hm
  have hB : ∀ a ∈ A, _ := fun a ha =>
    expand_plain c hwf a (picks_no_query c hal s a ((hA a).1 ha) hq)
      (picks_no_colon c hal s a ((hA a).1 ha) hc) (hr a ((hA a).1 ha))
  refine ⟨?_, ?_⟩
  · rintro ⟨a, hpa, hma⟩
    have ha := (hA a).2 hpa
    have hflat : flatMapE (fun s => c.expand s false) A = .error .spil := by
      apply flatMapE_error_of
      · exact ⟨a, ha, (hB a ha).1 hma⟩
      · intro a' ha' e' he'
        by_cases hm' : MalformedPlain c a'
        · rw [(hB a' ha').1 hm'] at he'
          simp only [Except.error.injEq] at he'
          exact he'.symm
        · obtain ⟨r, hr', _⟩ := (hB a' ha').2 hm'
          rw [hr'] at he'; cases he'
    simp [Ctx.unfoldSearch, Ctx.applyUnfolders, hext, hor, hflat]
  · intro hnm
    have hnm' : ∀ a ∈ A, ¬ MalformedPlain c a := fun a ha hma => hnm ⟨a, (hA a).1 ha, hma⟩
    obtain ⟨s3, hs3⟩ := flatMapE_total (fun s => c.expand s false) A (fun a ha => by
      obtain ⟨r, hr', _⟩ := (hB a ha).2 (hnm' a ha)
      exact ⟨r, hr'⟩)
    have hmem := flatMapE_ok_mem _ A s3 hs3
    refine ⟨s3, ?_, ?_, ?_, ?_⟩
    · intro y hy
      obtain ⟨a, ha, r, hr', hyr⟩ := (hmem y).1 hy
      obtain ⟨r', hr'', hiff, hleft⟩ := (hB a ha).2 (hnm' a ha)
      rw [hr''] at hr'
      simp only [Except.ok.injEq] at hr'
      subst hr'
      rcases hleft y hyr with ht | hl
      · exact Or.inl ⟨ht, a, (hA a).1 ha, (hiff y).1 ⟨hyr, ht⟩⟩
      · exact Or.inr hl
    · rintro y ⟨a, hpa, hd⟩
      have ha := (hA a).2 hpa
      obtain ⟨r', hr'', hiff, _⟩ := (hB a ha).2 (hnm' a ha)
      exact (hmem y).2 ⟨a, ha, r', hr'', ((hiff y).2 hd).1⟩
    · intro e he
      simp [Ctx.unfoldSearch, Ctx.applyUnfolders, hext, hor, hs3, he]
    · intro s4 h4
      simp [Ctx.unfoldSearch, Ctx.applyUnfolders, hext, hor, hs3, h4]
      rfl

/-! ### `Rooted` from its decidable sufficient condition -/

theorem rooted_of_dec (c : Ctx) (hal : aliasOk c.cfg.sid = true) (s : Str) (h : rootedB s = true) :
    Rooted c s := by
  intro a hpa hpre
  have hhead : a.head? = some '/' := by
    obtain ⟨t, rfl⟩ := hpre
    rfl
  obtain ⟨picks, l, hpi, hl, rfl⟩ := hpa
  unfold rootedB at h
  have hsl : ∀ p ∈ Str.splitOn '/' s, '/' ∉ p := Str.splitOn_not_mem '/' s
  split at h
  · next p q rest hsp =>
    rw [hsp] at hpi hsl
    simp only [List.dropLast_cons_cons] at hpi
    cases hpi with
    | cons ha hc' =>
      rename_i a0 as
      have hne : a0 ≠ [] := by
        rintro rfl
        simp only [Bool.not_eq_true', List.contains_eq_mem, decide_eq_false_iff_not] at h
        exact h ha
      have hns : '/' ∉ a0 := altsOf_not_mem '/' p (hsl p (by simp)) a0 ha
      cases a0 with
      | nil => exact hne rfl
      | cons ch a0' =>
        obtain ⟨b, hb⟩ := UpdL.joinWith_head '/' (ch :: a0') (as ++ [l])
        simp only [List.cons_append] at hhead
        rw [hb] at hhead
        simp only [List.cons_append, List.head?_cons, Option.some.injEq] at hhead
        subst hhead
        exact hns (by simp)
  · next hnot =>
    -- a single segment: the plain string is an alternative of it, hence '/'-free
    have hone : ∃ p, Str.splitOn '/' s = [p] := by
      cases hsp : Str.splitOn '/' s with
      | nil => exact absurd hsp (Str.splitOn_ne_nil '/' s)
      | cons p ps =>
        cases ps with
        | nil => exact ⟨p, rfl⟩
        | cons q rest => exact absurd hsp (hnot p q rest)
    obtain ⟨p, hsp⟩ := hone
    rw [hsp] at hpi hl hsl
    simp only [List.dropLast_singleton] at hpi
    cases hpi
    simp only [List.nil_append, Str.joinWith] at hhead
    simp only [List.getLast?_singleton, Option.getD_some] at hl
    have hns : '/' ∉ l := by
      rcases mem_lastAlts c p l hl with ⟨ha, _⟩ | ⟨k, vs, _, hlk, hv⟩
      · exact altsOf_not_mem '/' p (hsl p (by simp)) l ha
      · exact ((aliasOk_unpack _ hal _ _ hlk).2.2 l hv).1
    cases l with
    | nil => simp at hhead
    | cons ch l' =>
      simp only [List.head?_cons, Option.some.injEq] at hhead
      subst hhead
      exact hns (by simp)

end DenL
