/-
  Spil.Lemmas.GtPath — `FindByGlob.do_find` over a star search on Sids (`DCtx.doFindWith`), the
  '>' search of the path Finder, and the set equality behind Finder independence (C09b).
-/
import Spil.Lemmas.GtList
import Spil.Props.C11b

namespace GtL

open Spec Find GlobL

/-! ### `do_find` over any star search on Sids -/

theorem doFindWith_gt_eq (d : DCtx) (star : List Sid → Except Err (List Str)) (s0 : Sid)
    (rest : List Sid) (idx : Nat) (hidx : GtAt idx s0.string) :
    d.doFindWith star (s0 :: rest) =
      match Ctx.flatMapE (fun x => match d.resolveSearch (gtStar x.uri) with
          | .error e => .error e
          | .ok s => star [s]) (s0 :: rest) with
      | .error e => .error e
      | .ok founds => .ok (sortedPick idx founds) := by
  have hany : (s0 :: rest).any (fun x => Str.hasChar '>' x.string) = true := by
    simp [hasChar_of_gtAt idx s0.string hidx]
  unfold GtAt at hidx
  simp only [DCtx.doFindWith, List.isEmpty_cons, Bool.false_eq_true, if_false, hany, if_true, hidx]
  rfl

theorem doFindWith_gt (d : DCtx) (star : List Sid → Except Err (List Str)) (s0 : Sid)
    (rest : List Sid) (idx : Nat) (hidx : GtAt idx s0.string) (stars : List Sid)
    (hres : Ctx.mapE (fun x => d.resolveSearch (gtStar x.uri)) (s0 :: rest) = .ok stars)
    (outs : List (List Str)) (hstar : Ctx.mapE (fun s => star [s]) stars = .ok outs) :
    d.doFindWith star (s0 :: rest) = .ok (sortedPick idx outs.flatten) := by
  rw [doFindWith_gt_eq d star s0 rest idx hidx,
    flatMapE_of_mapE _ _ outs (mapE_comp (fun x => d.resolveSearch (gtStar x.uri))
      (fun s => star [s]) _ (fun x y hxy => by simp only [hxy]) _ stars outs hres hstar)]

theorem doFindWith_star (d : DCtx) (star : List Sid → Except Err (List Str)) (searches : List Sid)
    (hne : searches ≠ []) (h : searches.any (fun x => Str.hasChar '>' x.string) = false) :
    d.doFindWith star searches = star searches := by
  have : searches.isEmpty = false := by cases searches <;> simp_all
  simp only [DCtx.doFindWith, this, h, Bool.false_eq_true, if_false]

theorem mapE_map {α β γ} (f : α → Except Err β) (g : β → γ) (l : List α) (rs : List β)
    (h : Ctx.mapE f l = .ok rs) : Ctx.mapE (fun x => (f x).map g) l = .ok (rs.map g) := by
  induction l generalizing rs with
  | nil => simp only [Ctx.mapE] at h ⊢; cases h; rfl
  | cons a l ih =>
    simp only [Ctx.mapE] at h
    split at h
    · cases h
    · next y hy =>
      split at h
      · cases h
      · next ys hys =>
        cases h
        simp only [Ctx.mapE, hy, ih ys hys]
        rfl

/-- the patterns the list Finder sees are the strings of the Sids the path Finder sees -/
theorem strOfUri_of_resolve (d : DCtx) (searches stars : List Sid)
    (hres : Ctx.mapE (fun x => d.resolveSearch (gtStar x.uri)) searches = .ok stars) :
    Ctx.mapE (fun x => d.ctx.strOfUri (gtStar x.uri)) searches = .ok (stars.map (·.string)) :=
  mapE_map _ _ _ _ hres

/-! ### the '>' search of the path Finder -/

/-- the answer is the pick over the strings of the Sids the star searches for the re-resolved
    searches return, each star search run on its own -/
theorem pathsDoFind_gt (d : DCtx) (w : World) (config : Option Str) (s0 : Sid) (rest : List Sid)
    (idx : Nat) (hidx : GtAt idx s0.string) (stars : List Sid)
    (hres : Ctx.mapE (fun x => d.resolveSearch (gtStar x.uri)) (s0 :: rest) = .ok stars)
    (rs : List (List Sid))
    (hstar : Ctx.mapE (fun s' => d.pathsStarSids w config [s']) stars = .ok rs) :
    d.pathsDoFind w config (s0 :: rest) = .ok (sortedPick idx (rs.flatten.map (·.string))) := by
  have h := mapE_map (fun s' => d.pathsStarSids w config [s']) (fun l => l.map (·.string)) _ _ hstar
  have := doFindWith_gt d (d.pathsStar w config) s0 rest idx hidx stars hres _ h
  rw [DCtx.pathsDoFind, this, List.map_flatten]

/-- a star search whose type has no path template globs the text "None" -/
theorem star_none (d : DCtx) (w : World) (config : Option Str) (s' : Sid)
    (h : d.ctx.sidPath config s' = .ok none) (hg : w.glob ['N','o','n','e'] = []) :
    d.pathsStarSids w config [s'] = .ok [] := by
  simp [DCtx.pathsStarSids, DCtx.pathsStarGo, h, hg]

/-- one path star search, with or without a path template (`c11_star_one` / `star_none`) -/
theorem star_one_gen (d : DCtx) (w : World) (config : Option Str) (s' : Sid)
    (hsp : HasPattern d w config s') (hgm : '[' ∉ s'.string)
    (htot : ∀ p ∈ w.nodes.map (·.1), ∃ x, d.ctx.sidOfPath p config = .ok x) :
    ∃ r, d.pathsStarSids w config [s'] = .ok r ∧ r.Nodup ∧
      ∀ x, x ∈ r ↔ ∃ pat, d.ctx.sidPath config s' = .ok (some pat) ∧ ∃ p ∈ w.glob pat,
        d.ctx.sidOfPath p config = .ok x ∧ x.typed = true ∧ x.type = s'.type ∧
        Glob s'.string x.string := by
  rcases hsp with ⟨pat, hp⟩ | ⟨hn, hg⟩
  · obtain ⟨r, hr, hnd, hm⟩ := C11.c11_star_one d w config s' pat hp hgm htot
    refine ⟨r, hr, hnd, fun x => ?_⟩
    rw [hm]
    constructor
    · rintro ⟨p, hpg, h1, h2, h3, h4⟩
      exact ⟨pat, hp, p, hpg, h1, h2, h3, (C11.c11_globMatch_iff _ _ _ hgm).1 h4⟩
    · rintro ⟨pat', hp', p, hpg, h1, h2, h3, h4⟩
      rw [hp] at hp'; injection hp' with hp'; injection hp' with hp'; subst hp'
      exact ⟨p, hpg, h1, h2, h3, (C11.c11_globMatch_iff _ _ _ hgm).2 h4⟩
  · refine ⟨[], star_none d w config s' hn hg, List.nodup_nil, fun x => ?_⟩
    constructor
    · intro h; cases h
    · rintro ⟨pat, hp, _⟩; rw [hn] at hp; injection hp with hp; cases hp

/-- with the exact characterisation of one path star search -/
theorem paths_gt (d : DCtx) (w : World) (config : Option Str) (s0 : Sid) (rest : List Sid)
    (idx : Nat) (hidx : GtAt idx s0.string) (stars : List Sid)
    (hres : Ctx.mapE (fun x => d.resolveSearch (gtStar x.uri)) (s0 :: rest) = .ok stars)
    (hsp : ∀ s' ∈ stars, HasPattern d w config s')
    (hgm : ∀ s' ∈ stars, '[' ∉ s'.string)
    (htot : ∀ p ∈ w.nodes.map (·.1), ∃ x, d.ctx.sidOfPath p config = .ok x) :
    ∃ rs, Ctx.mapE (fun s' => d.pathsStarSids w config [s']) stars = .ok rs ∧
      d.pathsDoFind w config (s0 :: rest) = .ok (sortedPick idx (rs.flatten.map (·.string))) ∧
      ∀ y, y ∈ rs.flatten.map (·.string) ↔ PathMatch d w config stars y := by
  obtain ⟨rs, hrs⟩ := mapE_total (fun s' => d.pathsStarSids w config [s']) stars (fun s' hs' => by
    obtain ⟨r, hr, _⟩ := star_one_gen d w config s' (hsp s' hs') (hgm s' hs') htot
    exact ⟨r, hr⟩)
  refine ⟨rs, hrs, pathsDoFind_gt d w config s0 rest idx hidx stars hres rs hrs, fun y => ?_⟩
  have hmem := mapE_mem _ _ _ hrs
  simp only [List.mem_map, List.mem_flatten]
  constructor
  · rintro ⟨x, ⟨r, hr, hx⟩, rfl⟩
    obtain ⟨s', hs', hr'⟩ := (hmem r).1 hr
    obtain ⟨r₁, hr₁, _, hm⟩ := star_one_gen d w config s' (hsp s' hs') (hgm s' hs') htot
    rw [hr'] at hr₁; injection hr₁ with hr₁; subst hr₁
    obtain ⟨pat, hp, p, hpg, h1, h2, h3, h4⟩ := (hm x).1 hx
    exact ⟨s', hs', pat, hp, p, hpg, x, h1, h2, h3, h4, rfl⟩
  · rintro ⟨s', hs', pat, hp, p, hpg, x, h1, h2, h3, h4, rfl⟩
    obtain ⟨r₁, hr₁, _, hm⟩ := star_one_gen d w config s' (hsp s' hs') (hgm s' hs') htot
    exact ⟨x, ⟨r₁, (hmem r₁).2 ⟨s', hs', hr₁⟩, (hm x).2 ⟨pat, hp, p, hpg, h1, h2, h3, h4⟩⟩, rfl⟩

/-- one star search per re-resolved search (what `sorted_search` does) finds the same Sids as ONE
    star search over all of them (what a '*' search with the same unfolding does), under the
    hypotheses of `C11.c11_star_list_mem` -/
theorem paths_joint (d : DCtx) (w : World) (config : Option Str) (stars : List Sid)
    (rs : List (List Sid)) (R : List Sid)
    (hsp : ∀ s ∈ stars, ∃ po, d.ctx.sidPath config s = .ok po)
    (hgm : ∀ s ∈ stars, '[' ∉ s.string)
    (htot : ∀ p ∈ w.nodes.map (·.1), ∃ x, d.ctx.sidOfPath p config = .ok x)
    (hrs : Ctx.mapE (fun s' => d.pathsStarSids w config [s']) stars = .ok rs)
    (hR : d.pathsStarSids w config stars = .ok R) : ∀ x, x ∈ rs.flatten ↔ x ∈ R := by
  intro x
  obtain ⟨R', hR', _, hRm⟩ := C11.c11_star_list_mem d w config stars hsp hgm htot
  rw [hR] at hR'; injection hR' with hR'; subst hR'
  have hmem := mapE_mem _ _ _ hrs
  have one : ∀ s' ∈ stars, ∃ r, d.pathsStarSids w config [s'] = .ok r ∧
      ∀ x, x ∈ r ↔ ∃ p ∈ w.glob (patOf d config s'),
        d.ctx.sidOfPath p config = .ok x ∧ x.typed = true ∧ x.type = s'.type ∧
        Find.globMatch d.ctx.env s'.string x.string = .ok true := by
    intro s' hs'
    obtain ⟨r, hr, _, hm⟩ := C11.c11_star_list_mem d w config [s']
      (fun a ha => by simp only [List.mem_singleton] at ha; subst ha; exact hsp _ hs')
      (fun a ha => by simp only [List.mem_singleton] at ha; subst ha; exact hgm _ hs') htot
    refine ⟨r, hr, fun x => ?_⟩
    rw [hm]
    constructor
    · rintro ⟨s, hs, h⟩; simp only [List.mem_singleton] at hs; subst hs; exact h
    · intro h; exact ⟨s', by simp, h⟩
  rw [hRm, List.mem_flatten]
  constructor
  · rintro ⟨r, hr, hx⟩
    obtain ⟨s', hs', hr'⟩ := (hmem r).1 hr
    obtain ⟨r₁, hr₁, hm⟩ := one s' hs'
    rw [hr'] at hr₁; injection hr₁ with hr₁; subst hr₁
    exact ⟨s', hs', (hm x).1 hx⟩
  · rintro ⟨s', hs', h⟩
    obtain ⟨r, hr, hm⟩ := one s' hs'
    exact ⟨r, (hmem r).2 ⟨s', hs', hr⟩, (hm x).2 h⟩

/-! ### Finder independence: the two Finders select from the same set -/

/-- the entities of the searched types, as the list a list Finder is given (known finding K6:
    a list Finder ignores the type of a typed search) -/
def entStrings (stars ents : List Sid) : List Str :=
  (ents.filter (fun e => stars.any (fun s' => e.type == s'.type))).map (·.string)

theorem mem_entStrings (stars ents : List Sid) (y : Str) :
    y ∈ entStrings stars ents ↔ ∃ e ∈ ents, (∃ t ∈ stars, e.type = t.type) ∧ e.string = y := by
  simp only [entStrings, List.mem_map, List.mem_filter, List.any_eq_true, beq_iff_eq]
  constructor
  · rintro ⟨e, ⟨he, t, ht, hty⟩, rfl⟩; exact ⟨e, he, ⟨t, ht, hty⟩, rfl⟩
  · rintro ⟨e, he, ⟨t, ht, hty⟩, rfl⟩; exact ⟨e, ⟨he, t, ht, hty⟩, rfl⟩

end GtL

namespace C09

open Spec

/-- the hypotheses of `C11.c11_paths_eq_list_whole` for one star search `s'` on a tree that holds
    exactly the entities `ents` (of the type of `s'`) plus junk -/
structure StarOk (d : DCtx) (w : World) (config : Option Str) (ents : List Sid) (s' : Sid) :
    Prop where
  path : ∃ pat, d.ctx.sidPath config s' = .ok (some pat) ∧ '[' ∉ pat
  typed : wellTyped d.ctx.env d.ctx.cfg.sid.templates s'
  whole : wholeStar s'.string
  nobracket : '[' ∉ s'.string
  holds : C11.HoldsExactly d w config s'.type ents

/-- a star search of a type WITHOUT path template (`shot__cache_node` in the shipped
    configuration): the path Finder globs the text "None" for it, nothing in the tree is called
    so, and no entity has that type -/
structure NoPath (d : DCtx) (w : World) (config : Option Str) (ents : List Sid) (s' : Sid) :
    Prop where
  none : d.ctx.sidPath config s' = .ok none
  noglob : w.glob ['N','o','n','e'] = []
  nobracket : '[' ∉ s'.string
  noents : ∀ e ∈ ents, e.type ≠ s'.type

end C09

namespace GtL

open Spec Find GlobL

/-- on a tree that holds exactly the entities `ents` (for every searched type) the strings of the
    Sids the path star searches return are the entity strings of a searched type that the string
    of a star search OF THAT TYPE matches -/
theorem paths_set (d : DCtx) (w : World) (config : Option Str) (stars ents : List Sid)
    (rs : List (List Sid))
    (hstar : Ctx.mapE (fun s' => d.pathsStarSids w config [s']) stars = .ok rs)
    (hok : ∀ s' ∈ stars, C09.StarOk d w config ents s' ∨ C09.NoPath d w config ents s')
    (hfix : ∀ pc, d.ctx.cfg.pathConf? config = some pc → starFixed pc = true) :
    ∀ y, y ∈ rs.flatten.map (·.string) ↔
      ∃ s' ∈ stars, ∃ x ∈ ents, x.type = s'.type ∧ Glob s'.string x.string ∧ x.string = y := by
  intro y
  have hmem := mapE_mem _ _ _ hstar
  have key : ∀ s' ∈ stars, ∃ r, d.pathsStarSids w config [s'] = .ok r ∧
      ∀ x, x ∈ r ↔ (x ∈ ents ∧ x.type = s'.type ∧ Glob s'.string x.string) := by
    intro s' hs'
    rcases hok s' hs' with h | h
    · obtain ⟨pat, hp, hbp⟩ := h.path
      have hbs := h.nobracket
      obtain ⟨found, r, hf, hr, _, _, hm⟩ :=
        C11.c11_paths_eq_list_whole d w config s' pat ents hp h.typed h.whole hbs hbp hfix h.holds
      obtain ⟨_, hfm⟩ := C08.c08_star_search_mem d.ctx.env _ [s'.string]
        (fun q hq => by simp only [List.mem_singleton] at hq; subst hq; exact hbs) found hf
      refine ⟨r, hr, fun x => ?_⟩
      rw [hm, hfm]
      constructor
      · rintro ⟨h1, h2, _, q, hq, hg⟩
        simp only [List.mem_singleton] at hq; subst hq
        exact ⟨h1, h2, hg⟩
      · rintro ⟨h1, h2, hg⟩
        exact ⟨h1, h2, List.mem_map.2 ⟨x, h1, rfl⟩, s'.string, by simp, hg⟩
    · refine ⟨[], star_none d w config s' h.none h.noglob, fun x => ?_⟩
      constructor
      · intro hx; cases hx
      · rintro ⟨h1, h2, _⟩; exact absurd h2 (h.noents x h1)
  simp only [List.mem_map, List.mem_flatten]
  constructor
  · rintro ⟨x, ⟨r, hr, hx⟩, rfl⟩
    obtain ⟨s', hs', hr'⟩ := (hmem r).1 hr
    obtain ⟨r₁, hr₁, hm⟩ := key s' hs'
    rw [hr'] at hr₁; injection hr₁ with hr₁; subst hr₁
    obtain ⟨h1, h2, h3⟩ := (hm x).1 hx
    exact ⟨s', hs', x, h1, h2, h3, rfl⟩
  · rintro ⟨s', hs', x, h1, h2, h3, rfl⟩
    obtain ⟨r, hr, hm⟩ := key s' hs'
    exact ⟨x, ⟨r, (hmem r).2 ⟨s', hs', hr⟩, (hm x).2 ⟨h1, h2, h3⟩⟩, rfl⟩

end GtL
