/-
  Spil.Lemmas.DetParse — a conform path template reads the string it rendered back to exactly the
  rendered values (assembly of DetWords / DetSeg / DetTpl / DetDict).
-/
import Spil.Spec.PathWF
import Spil.Lemmas.PathL
import Spil.Lemmas.ReRun
import Spil.Lemmas.Template
import Spil.Lemmas.DetDict

namespace Det

open Spec

theorem countOk_iff (T : Template) : ∀ t : Template,
    t.all (keyCountOk T) = true ↔ ∀ k ∈ phKeys t, Template.countKey k T < 1000
  | [] => by simp [phKeys]
  | .lit s :: rest => by
    simp only [List.all_cons, keyCountOk, Bool.true_and, phKeys]
    exact countOk_iff T rest
  | .ph k ex :: rest => by
    simp only [List.all_cons, keyCountOk, Bool.and_eq_true, decide_eq_true_eq, phKeys,
      List.mem_cons, forall_eq_or_imp, countOk_iff T rest]

/-- `pathTplOk`, unfolded -/
theorem pathTplOk_iff (e : Env) (t : Template) :
    pathTplOk e t = true ↔ ∃ fl, flatAtoms t = some fl ∧ (segsOf fl).all (segDet e) = true ∧
      fl.all (atomOk e) = true ∧ ∀ k ∈ phKeys t, Template.countKey k t < 1000 := by
  unfold pathTplOk
  cases h : flatAtoms t with
  | none => simp
  | some fl =>
    simp only [Bool.and_eq_true, countOk_iff t t, Option.some.injEq, exists_eq_left', and_assoc]

/-- the value rendered for a key -/
def valOf (data : Dict) (k : Str) : Str := (data.get k).getD []

/-- the captures of the full-length successes of a conform template on its own rendering -/
theorem full_success_caps (e : Env) (t : Template) (data : Dict) (w : Str)
    (hok : pathTplOk e t = true) (hv : valuesOk e t data = true)
    (hw : Template.format t data = some w) :
    (∃ caps, (w, [], caps) ∈ (Template.compile t).run e w) ∧
    ∀ x ∈ (Template.compile t).run e w, x.2.1 = [] →
      x.2.2 = (capNames [] t).zip ((phKeys t).map (valOf data)) := by
  obtain ⟨fl, hfl, hseg, hatom, _⟩ := (pathTplOk_iff e t).mp hok
  obtain ⟨hparse, hcount⟩ := parse_of_format e t fl data w hfl hatom hv hw
  refine ⟨?_, ?_⟩
  · have := bwd_items e t [] fl hfl w _ hparse []
    simpa [Template.compile] using this
  · intro x hx hrest
    have happ := run_app e _ w x hx
    rw [hrest, List.append_nil] at happ
    obtain ⟨vs, pv, hcap, _⟩ := fwd_items e t [] fl hfl w x hx
    rw [happ] at pv
    have := parse_unique e fl hseg w hcount vs _ pv hparse
    rw [hcap, this]
    rfl

/-- `match_to_dict` on the captures `names ↦ rendered values` -/
theorem matchToDict_rendered (t : Template) (data : Dict)
    (hcnt : ∀ k ∈ phKeys t, Template.countKey k t < 1000) :
    Template.matchToDict true ((capNames [] t).zip ((phKeys t).map (valOf data))) [] =
      .ok (accum (valOf data) (phKeys t) []) := by
  have hstrip : (capNames [] t).map strip = phKeys t := capNames_strip t [] (by simpa using hcnt)
  have hvals : (phKeys t).map (valOf data) = (capNames [] t).map (fun n => valOf data (strip n)) := by
    rw [← hstrip, List.map_map]; rfl
  rw [matchToDict_consistent (valOf data)]
  · congr 1
    have : ∀ l : List (Str × Str), l.map (fun p => strip p.1) = (l.map (·.1)).map strip := by
      intro l; rw [List.map_map]; rfl
    rw [this, List.map_fst_zip, hstrip]
    simp [capNames_length]
  · intro p hp
    rw [hvals] at hp
    exact mem_zip_map _ _ p hp
  · intro k v h; simp [Dict.get] at h

theorem hasKey_iff_mem (d : Dict) (k : Str) : d.hasKey k = true ↔ k ∈ d.map (·.1) := by
  simp [Dict.hasKey]

/-- the dictionary `match_to_dict` builds from the rendered values is the rendered dictionary -/
theorem accum_spec (t : Template) (data : Dict)
    (hkeys : Dict.keysEq data (Template.keys t) = true) :
    (∀ k, (accum (valOf data) (phKeys t) []).get k = data.get k) ∧
      (accum (valOf data) (phKeys t) []).map (·.1) = Template.keys t := by
  refine ⟨?_, by rw [accum_nil_keys, keys_eq_dedup]⟩
  intro k
  simp only [Dict.keysEq, Bool.and_eq_true, List.all_eq_true, List.contains_iff_mem] at hkeys
  rw [accum_get]
  by_cases hk : k ∈ phKeys t
  · rw [if_pos hk]
    have hk' : k ∈ Template.keys t := by rw [keys_eq_dedup, mem_dedup]; exact hk
    obtain ⟨v, hv⟩ := PathL.hasKey_get data k (hkeys.2 k hk')
    simp [valOf, hv]
  · rw [if_neg hk]
    have hk' : k ∉ Template.keys t := by rw [keys_eq_dedup, mem_dedup]; exact hk
    have : k ∉ data.map (·.1) := by
      intro hm
      obtain ⟨p, hp, rfl⟩ := List.mem_map.mp hm
      exact hk' (hkeys.1 p hp)
    rw [(get_eq_none_iff data k).mpr this]
    simp [Dict.get]

/-- if `search` selects a full-length success, the template reads its own rendering back -/
theorem own_parse_of_full (e : Env) (t : Template) (data : Dict) (w : Str)
    (hok : pathTplOk e t = true) (hv : valuesOk e t data = true)
    (hkeys : Dict.keysEq data (Template.keys t) = true) (hne : Template.keys t ≠ [])
    (hw : Template.format t data = some w)
    (hfull : ∀ x, ((Template.compile t).run e w).find? (fun p => atDollar p.2.1) = some x →
      x.2.1 = []) :
    ∃ d, Resolver.resolveTpl e true t w = .ok (some d) ∧ (∀ k, d.get k = data.get k) ∧
      d.map (·.1) = Template.keys t := by
  obtain ⟨⟨caps0, h0⟩, hall⟩ := full_success_caps e t data w hok hv hw
  obtain ⟨_, _, _, _, hcnt⟩ := (pathTplOk_iff e t).mp hok
  have hsome : ((Template.compile t).run e w).find? (fun p => atDollar p.2.1) ≠ none := by
    intro hnone
    have := List.find?_eq_none.mp hnone _ h0
    simp [atDollar] at this
  match hf : ((Template.compile t).run e w).find? (fun p => atDollar p.2.1) with
  | none => exact absurd hf hsome
  | some x =>
    have hmem := List.mem_of_find?_eq_some hf
    have hcaps := hall x hmem (hfull x hf)
    obtain ⟨hget, hk⟩ := accum_spec t data hkeys
    refine ⟨accum (valOf data) (phKeys t) [], ?_, hget, hk⟩
    unfold Resolver.resolveTpl
    simp only [Re.search, hf, Option.map_some, hcaps, matchToDict_rendered t data hcnt]
    have : (accum (valOf data) (phKeys t) []).isEmpty = false := by
      cases hd : accum (valOf data) (phKeys t) [] with
      | nil => rw [hd] at hk; exact absurd hk.symm hne
      | cons _ _ => rfl
    simp [this]

/-- a string that does not end in a newline has no success with rest `"\n"` -/
theorem full_of_no_nl (e : Env) (r : Re) (w : Str) (hnl : w.getLast? ≠ some '\n') :
    ∀ x, (r.run e w).find? (fun p => atDollar p.2.1) = some x → x.2.1 = [] := by
  intro x hf
  have hmem := List.mem_of_find?_eq_some hf
  have hd := List.find?_some hf
  have happ := run_app e r w x hmem
  simp only [atDollar, Bool.or_eq_true, beq_iff_eq] at hd
  rcases hd with hd | hd
  · exact hd
  · exfalso
    apply hnl
    rw [← happ, hd]
    simp

theorem own_parse (e : Env) (t : Template) (data : Dict) (w : Str)
    (hok : pathTplOk e t = true) (hv : valuesOk e t data = true)
    (hkeys : Dict.keysEq data (Template.keys t) = true) (hne : Template.keys t ≠ [])
    (hw : Template.format t data = some w) (hnl : w.getLast? ≠ some '\n') :
    ∃ d, Resolver.resolveTpl e true t w = .ok (some d) ∧ (∀ k, d.get k = data.get k) ∧
      d.map (·.1) = Template.keys t :=
  own_parse_of_full e t data w hok hv hkeys hne hw (full_of_no_nl e _ w hnl)

/-! ### captured values are words of the vocabularies -/

theorem parse_lits_vals (e : Env) : ∀ (cs : Str) (w : Str) (vs : List Str),
    Parse e (cs.map (fun c => Atom.cls (Template.litCls c))) w vs → vs = []
  | [], w, vs, h => ((parse_nil_iff e w vs).mp h).2
  | c :: cs, w, vs, h => by
    obtain ⟨u, w', vs', _, rfl, _, p1⟩ := (parse_cons_iff e _ _ w vs).mp h
    simpa [aval] using parse_lits_vals e cs w' _ p1

theorem valuesOk_of_parse (e : Env) (d : Dict) : ∀ (t : Template) (fl : List Atom) (w : Str)
    (vs : List Str), flatAtoms t = some fl → Parse e fl w vs →
    (∀ q ∈ (phKeys t).zip vs, d.get q.1 = some q.2) → valuesOk e t d = true
  | [], _, _, _, _, _, _ => by simp [valuesOk]
  | .lit s :: rest, fl, w, vs, h, hp, hd => by
    obtain ⟨as, has, rfl⟩ := (flatAtoms_lit s rest fl).mp h
    obtain ⟨w1, w2, v1, v2, rfl, rfl, p1, p2⟩ := (parse_append e _ _ w vs).mp hp
    have := parse_lits_vals e s w1 v1 p1
    subst this
    have ih := valuesOk_of_parse e d rest as w2 v2 has p2 (by simpa [phKeys] using hd)
    simp only [valuesOk, List.all_cons, Bool.true_and] at ih ⊢
    exact ih
  | .ph k ex :: rest, fl, w, vs, h, hp, hd => by
    obtain ⟨a, as, ha, has, rfl⟩ := (flatAtoms_ph k ex rest fl).mp h
    obtain ⟨u, w', vs', rfl, rfl, hw, p1⟩ := (parse_cons_iff e _ _ w vs).mp hp
    rw [ph_aval k ex a ha] at hd
    simp only [phKeys, List.singleton_append, List.zip_cons_cons, List.mem_cons,
      forall_eq_or_imp] at hd
    have ih := valuesOk_of_parse e d rest as w' vs' has p1 hd.2
    simp only [valuesOk, List.all_cons, Bool.and_eq_true] at ih ⊢
    refine ⟨?_, ih⟩
    rw [hd.1]
    exact (valuesOk_clause e k ex a ha u).mpr hw

theorem captures_ok (e : Env) (t : Template) (s : Str) (d : Dict)
    (hok : pathTplOk e t = true) (h : Resolver.resolveTpl e true t s = .ok (some d)) :
    valuesOk e t d = true := by
  obtain ⟨fl, hfl, _, _, hcnt⟩ := (pathTplOk_iff e t).mp hok
  unfold Resolver.resolveTpl at h
  split at h
  · simp at h
  · next caps hs =>
    split at h
    · simp at h
    · next d' hm =>
      have hd : d' = d := by
        simp only [Except.ok.injEq] at h
        split at h
        · simp at h
        · simpa using h
      subst hd
      simp only [Re.search, Option.map_eq_some_iff] at hs
      obtain ⟨x, hx, rfl⟩ := hs
      have hmem := List.mem_of_find?_eq_some hx
      obtain ⟨vs, pv, hcap, hlen⟩ := fwd_items e t [] fl hfl s x hmem
      have hget := (matchToDict_ok_get _ _ _ hm).1
      have hstrip : (capNames [] t).map strip = phKeys t :=
        capNames_strip t [] (by simpa using hcnt)
      apply valuesOk_of_parse e d' t fl x.1 vs hfl pv
      intro q hq
      rw [← hstrip, List.zip_map_left] at hq
      obtain ⟨p, hp, rfl⟩ := List.mem_map.mp hq
      rw [← hcap] at hp
      simpa using hget p hp

end Det
