/-
  Spil.Spec.Glob — declarative reading of the second half of C11: the field-wise glob relation
  between a search Sid and an entity Sid (whole-segment stars), and the decidable side conditions
  on values and on the path configuration under which the glob pattern rendered from the search
  Sid matches the path rendered from the entity.
-/
import Spil.Model.FS
import Spil.Spec.Find

namespace Spec

/-- field-wise glob between two field dictionaries: same keys in the same order, and every search
    value is the literal `*` or equals the entity's value (whole-segment stars only) -/
def fieldsGlob : Dict → Dict → Prop
  | [], [] => True
  | (k, v) :: s, (k', v') :: e => k = k' ∧ (v = ['*'] ∨ v = v') ∧ fieldsGlob s e
  | [], _ :: _ => False
  | _ :: _, [] => False

instance fieldsGlob.dec : (a b : Dict) → Decidable (fieldsGlob a b)
  | [], [] => isTrue trivial
  | [], _ :: _ => isFalse (fun h => h)
  | _ :: _, [] => isFalse (fun h => h)
  | (k, v) :: s, (k', v') :: e =>
    have := fieldsGlob.dec s e
    inferInstanceAs (Decidable (k = k' ∧ (v = ['*'] ∨ v = v') ∧ fieldsGlob s e))

/-- the search Sid `s` globs the entity Sid `e` field by field: same type, `fieldsGlob` -/
def SidGlob (s e : Sid) : Prop := s.type = e.type ∧ fieldsGlob s.fields e.fields

instance (s e : Sid) : Decidable (SidGlob s e) := inferInstanceAs (Decidable (_ ∧ _))

/-- a PATH value a `*` of the pattern may stand for: non-empty (an empty component is dropped by
    `PurePosixPath`), without '/' (a `*` never crosses a directory), not starting with '.' (the
    hidden-name rule of `glob`, and "." is dropped by `PurePosixPath`) -/
def valOk (v : Str) : Bool := !v.isEmpty && !Str.hasChar '/' v && !Str.startsWith v ['.']

/-- `*` is a fixed point of the reverse value mapping (sid value → path value) of every key:
    no mapping has `*` as a sid-side value, except for a path-side `*` -/
def starFixed (pc : PathConf) : Bool :=
  pc.mapping.all (fun km => km.2.all (fun pv => pv.2 != ['*'] || pv.1 == ['*']))

/-- path-side values of the configuration (mapping keys and defaults) are `valOk` -/
def pathSideOk (pc : PathConf) : Bool :=
  pc.mapping.all (fun km => km.2.all (fun pv => valOk pv.1)) &&
  pc.defaults.all (fun kd => kd.2.isEmpty || valOk kd.2)

/-- every segment of a search string is the whole-segment star or has no wildcard at all -/
def wholeStar (s : Str) : Prop :=
  ∀ seg ∈ Str.splitOn '/' s, seg = ['*'] ∨ ('*' ∉ seg ∧ '?' ∉ seg)

instance (s : Str) : Decidable (wholeStar s) := by unfold wholeStar; exact inferInstance

/-- two lists related element by element (same length) -/
inductive All2 {α β} (R : α → β → Prop) : List α → List β → Prop
  | nil : All2 R [] []
  | cons {a b as bs} : R a b → All2 R as bs → All2 R (a :: as) (b :: bs)

end Spec
