/-
  Spil.Spec.PathWF — decidable conventions on PATH templates ("file-name separators",
  "mutually exclusive value patterns", "one-to-one value mappings") under which a rendered path is
  parsed back deterministically by its own template.
-/
import Spil.Model.Path

namespace Spec

/-- a closed expression as a fixed sequence of single-character classes (literal / digit only) -/
def seqOf : Re → Option (List Cls)
  | .eps => some []
  | .cls (.lit c) => some [.lit c]
  | .cls .digit => some [.digit]
  | .seq a b => match seqOf a, seqOf b with
    | some x, some y => some (x ++ y)
    | _, _ => none
  | _ => none

/-- a closed expression as alternatives of fixed class sequences: `(w1|w2|…)` -/
def altsOf? : Re → Option (List (List Cls))
  | .cgrp r => altsOf? r
  | .alt a b => match altsOf? a, altsOf? b with
    | some x, some y => some (x ++ y)
    | _, _ => none
  | r => (seqOf r).map (fun w => [w])

/-- may the two classes accept a common character? (exact for literal / digit) -/
def clsMeet (e : Env) : Cls → Cls → Bool
  | .lit a, .lit b => a == b
  | .lit a, .digit => e.isDigit a
  | .digit, .lit b => e.isDigit b
  | .digit, .digit => true
  | _, _ => true

/-- could a word of `a` be a prefix of (or equal to) a word of `b`? -/
def prefixCompat (e : Env) : List Cls → List Cls → Bool
  | [], _ => true
  | _ :: _, [] => false
  | x :: xs, y :: ys => clsMeet e x y && prefixCompat e xs ys

/-- no word of one alternative is a PROPER prefix of a word of another alternative -/
def prefixFree (e : Env) (alts : List (List Cls)) : Bool :=
  alts.all (fun a => alts.all (fun b => !(a.length < b.length && prefixCompat e a b)))

def suffixFree (e : Env) (alts : List (List Cls)) : Bool := prefixFree e (alts.map List.reverse)

/-- the atoms of one '/'-free stretch of a path template -/
inductive Atom
  | cls (k : Cls)                                   -- one character of literal template text
  | closed (key : Str) (alts : List (List Cls))     -- a placeholder with a closed vocabulary
  | free (key : Str)                                -- a placeholder with the default `[^/]*`
  deriving Repr, DecidableEq

/-- CHANGED (restructured, same meaning): all atoms of a template in order; a literal '/' is the
    atom `cls (lit '/')`.  `none` when a placeholder expression is neither `[^/]*` nor an
    alternation of literal / digit words.  (The original `atomsGo` walked the template with two
    accumulators and a `foldl`; this is the same list, produced by structural recursion, and
    `segsOf` below cuts it at the '/' atoms.) -/
def flatAtoms : Template → Option (List Atom)
  | [] => some []
  | .lit s :: rest =>
    match flatAtoms rest with
    | some as => some (s.map (fun ch => Atom.cls (Template.litCls ch)) ++ as)
    | none => none
  | .ph k e :: rest =>
    if e == Re.star Cls.notSlash then
      match flatAtoms rest with
      | some as => some (Atom.free k :: as)
      | none => none
    else match altsOf? e, flatAtoms rest with
      | some alts, some as => some (Atom.closed k alts :: as)
      | _, _ => none

/-- the atom of a literal '/' -/
def Atom.isSlash : Atom → Bool
  | .cls (.lit c) => c == '/'
  | _ => false

/-- cut a list of atoms at every '/' atom: the first segment and the remaining ones -/
def splitSegs : List Atom → List Atom × List (List Atom)
  | [] => ([], [])
  | a :: as =>
    if a.isSlash then ([], (splitSegs as).1 :: (splitSegs as).2)
    else (a :: (splitSegs as).1, (splitSegs as).2)

/-- the '/'-free stretches of a list of atoms (always at least one) -/
def segsOf (fl : List Atom) : List (List Atom) := (splitSegs fl).1 :: (splitSegs fl).2

/-- atoms of a template, split into segments at every literal '/' -/
def atomsOf (t : Template) : Option (List (List Atom)) := (flatAtoms t).map segsOf

def Atom.isFree : Atom → Bool
  | .free _ => true
  | _ => false

def leftOk (e : Env) : Atom → Bool
  | .cls _ => true
  | .closed _ alts => prefixFree e alts
  | .free _ => false

def rightOk (e : Env) : Atom → Bool
  | .cls _ => true
  | .closed _ alts => suffixFree e alts
  | .free _ => false

/-- a segment parses deterministically: at most one free placeholder; everything to its left has
    a prefix-free language, everything to its right a suffix-free one (without a free placeholder:
    some split point works).
    CHANGED (restructured, same meaning): structural recursion instead of `findIdx?` / `range`:
    the segment is `L ++ [free] ++ R` or `L ++ R` with `L` left-ok and `R` right-ok. -/
def segDet (e : Env) : List Atom → Bool
  | [] => true
  | a :: as =>
    (leftOk e a && segDet e as) || (a.isFree && as.all (rightOk e)) || (a :: as).all (rightOk e)

/-- per-atom conventions.
    CHANGED (added): the classes of a closed vocabulary accept neither '/' nor a newline, literal
    template text contains no newline.  Without '/'-freeness `c05_own_parse` is false
    (`{x:(a|a/b)}/{z:(b/c|c)}` renders x=a/b, z=c as `a/b/c` and reads back x=a, z=b/c); without
    newline-freeness `c06_no_clash` is false (`{x:(a\n|a)}/{x:(a|a\n)}` renders x=a\n as
    `a\n/a\n`, and `$` lets the second group capture `a`: duplicate clash). -/
def atomOk (e : Env) : Atom → Bool
  | .cls k => k.nlFree e
  | .closed _ alts => !alts.isEmpty &&
      alts.all (fun w => !w.isEmpty && w.all (fun k => k.slashFree e && k.nlFree e))
  | .free _ => true

/-- CHANGED (added): the key of a placeholder occurs fewer than 1000 times in the template `T`
    (resolva numbers repeated groups with `%03d` and strips exactly three characters) -/
def keyCountOk (T : Template) : Tok → Bool
  | .ph k _ => decide (Template.countKey k T < 1000)
  | .lit _ => true

/-- a path template follows the conventions.
    CHANGED (added): `atomOk` and `keyCountOk` (above). -/
def pathTplOk (e : Env) (t : Template) : Bool :=
  match flatAtoms t with
  | none => false
  | some fl => (segsOf fl).all (segDet e) && fl.all (atomOk e) &&
      t.all (keyCountOk t)

/-- the values handed to a template are ones it can render and read back: closed placeholders get
    a word of their vocabulary, free ones a '/'-free string -/
def valuesOk (e : Env) (t : Template) (data : Dict) : Bool :=
  t.all (fun tok => match tok with
    | .lit _ => true
    | .ph k ex =>
      match data.get k with
      | none => false
      | some v => if ex == Re.star Cls.notSlash then !Str.hasChar '/' v else ex.accepts e v)

def distinctStr : List Str → Bool
  | [] => true
  | k :: ks => !ks.contains k && distinctStr ks

/-- the value mapping of a key is one-to-one in both directions and no sid-side value is itself a
    word the path expression of that key accepts ("idempotent").
    CHANGED (added): sid-side values are non-empty (an empty sid value is not mapped back by
    `dict_to_path`, so the path would be re-rendered with an empty field: `c06_total` is false
    then, see the counterexample in `Spil/Props/C05b.lean`). -/
def mappingOk (e : Env) (pc : PathConf) : Bool :=
  pc.mapping.all (fun km =>
    distinctStr (km.2.map (·.1)) && distinctStr (km.2.map (·.2)) &&
    km.2.all (fun pv => !pv.2.isEmpty) &&
    pc.templates.all (fun lt => lt.2.all (fun tok => match tok with
      | .ph k ex => k != km.1 || km.2.all (fun pv => !(ex.accepts e pv.2))
      | _ => true)))

/-- a path configuration follows the conventions.
    CHANGED (added): template labels are unique (they are the keys of a Python dict). -/
def pathConfOk (e : Env) (pc : PathConf) : Bool :=
  distinctStr (pc.templates.map (·.1)) &&
  pc.templates.all (fun lt => pathTplOk e lt.2) && mappingOk e pc &&
  -- defaults only concern closed keys (an empty value never comes out of a closed placeholder)
  -- and are words of the vocabulary of that key
  pc.defaults.all (fun kd => pc.templates.all (fun lt => lt.2.all (fun tok => match tok with
    | .ph k ex => k != kd.1 || (!(ex == Re.star Cls.notSlash) && ex.accepts e kd.2)
    | _ => true)))

end Spec
