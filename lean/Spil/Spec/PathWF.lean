/-
  Spil.Spec.PathWF — decidable conventions on PATH templates ("file-name separators",
  "mutually exclusive value patterns", "one-to-one value mappings") under which a rendered path is
  parsed back deterministically by its own template.
-/
import Spil.Model.Path

namespace Spec

/-- a closed expression as a fixed sequence of single-character classes (literal / digit only) -/
def seqOf : Re → Option (List Cls)
  | .eps => some []
  | .cls (.lit c) => some [.lit c]
  | .cls .digit => some [.digit]
  | .seq a b => match seqOf a, seqOf b with
    | some x, some y => some (x ++ y)
    | _, _ => none
  | _ => none

/-- a closed expression as alternatives of fixed class sequences: `(w1|w2|…)` -/
def altsOf? : Re → Option (List (List Cls))
  | .cgrp r => altsOf? r
  | .alt a b => match altsOf? a, altsOf? b with
    | some x, some y => some (x ++ y)
    | _, _ => none
  | r => (seqOf r).map (fun w => [w])

/-- may the two classes accept a common character? (exact for literal / digit) -/
def clsMeet (e : Env) : Cls → Cls → Bool
  | .lit a, .lit b => a == b
  | .lit a, .digit => e.isDigit a
  | .digit, .lit b => e.isDigit b
  | .digit, .digit => true
  | _, _ => true

/-- could a word of `a` be a prefix of (or equal to) a word of `b`? -/
def prefixCompat (e : Env) : List Cls → List Cls → Bool
  | [], _ => true
  | _ :: _, [] => false
  | x :: xs, y :: ys => clsMeet e x y && prefixCompat e xs ys

/-- no word of one alternative is a PROPER prefix of a word of another alternative -/
def prefixFree (e : Env) (alts : List (List Cls)) : Bool :=
  alts.all (fun a => alts.all (fun b => !(a.length < b.length && prefixCompat e a b)))

def suffixFree (e : Env) (alts : List (List Cls)) : Bool := prefixFree e (alts.map List.reverse)

/-- the atoms of one '/'-free stretch of a path template -/
inductive Atom
  | cls (k : Cls)                                   -- one character of literal template text
  | closed (key : Str) (alts : List (List Cls))     -- a placeholder with a closed vocabulary
  | free (key : Str)                                -- a placeholder with the default `[^/]*`
  deriving Repr, DecidableEq

/-- CHANGED (restructured, same meaning): all atoms of a template in order; a literal '/' is the
    atom `cls (lit '/')`.  `none` when a placeholder expression is neither `[^/]*` nor an
    alternation of literal / digit words.  (The original `atomsGo` walked the template with two
    accumulators and a `foldl`; this is the same list, produced by structural recursion, and
    `segsOf` below cuts it at the '/' atoms.) -/
def flatAtoms : Template → Option (List Atom)
  | [] => some []
  | .lit s :: rest =>
    match flatAtoms rest with
    | some as => some (s.map (fun ch => Atom.cls (Template.litCls ch)) ++ as)
    | none => none
  | .ph k e :: rest =>
    if e == Re.star Cls.notSlash then
      match flatAtoms rest with
      | some as => some (Atom.free k :: as)
      | none => none
    else match altsOf? e, flatAtoms rest with
      | some alts, some as => some (Atom.closed k alts :: as)
      | _, _ => none

/-- the atom of a literal '/' -/
def Atom.isSlash : Atom → Bool
  | .cls (.lit c) => c == '/'
  | _ => false

/-- cut a list of atoms at every '/' atom: the first segment and the remaining ones -/
def splitSegs : List Atom → List Atom × List (List Atom)
  | [] => ([], [])
  | a :: as =>
    if a.isSlash then ([], (splitSegs as).1 :: (splitSegs as).2)
    else (a :: (splitSegs as).1, (splitSegs as).2)

/-- the '/'-free stretches of a list of atoms (always at least one) -/
def segsOf (fl : List Atom) : List (List Atom) := (splitSegs fl).1 :: (splitSegs fl).2

/-- atoms of a template, split into segments at every literal '/' -/
def atomsOf (t : Template) : Option (List (List Atom)) := (flatAtoms t).map segsOf

def Atom.isFree : Atom → Bool
  | .free _ => true
  | _ => false

def leftOk (e : Env) : Atom → Bool
  | .cls _ => true
  | .closed _ alts => prefixFree e alts
  | .free _ => false

def rightOk (e : Env) : Atom → Bool
  | .cls _ => true
  | .closed _ alts => suffixFree e alts
  | .free _ => false

/-- a segment parses deterministically: at most one free placeholder; everything to its left has
    a prefix-free language, everything to its right a suffix-free one (without a free placeholder:
    some split point works).
    CHANGED (restructured, same meaning): structural recursion instead of `findIdx?` / `range`:
    the segment is `L ++ [free] ++ R` or `L ++ R` with `L` left-ok and `R` right-ok. -/
def segDet (e : Env) : List Atom → Bool
  | [] => true
  | a :: as =>
    (leftOk e a && segDet e as) || (a.isFree && as.all (rightOk e)) || (a :: as).all (rightOk e)

/-- per-atom conventions.
    CHANGED (added): the classes of a closed vocabulary accept neither '/' nor a newline, literal
    template text contains no newline.  Without '/'-freeness `c05_own_parse` is false
    (`{x:(a|a/b)}/{z:(b/c|c)}` renders x=a/b, z=c as `a/b/c` and reads back x=a, z=b/c); without
    newline-freeness `c06_no_clash` is false (`{x:(a\n|a)}/{x:(a|a\n)}` renders x=a\n as
    `a\n/a\n`, and `$` lets the second group capture `a`: duplicate clash). -/
def atomOk (e : Env) : Atom → Bool
  | .cls k => k.nlFree e
  | .closed _ alts => !alts.isEmpty &&
      alts.all (fun w => !w.isEmpty && w.all (fun k => k.slashFree e && k.nlFree e))
  | .free _ => true

/-- CHANGED (added): the key of a placeholder occurs fewer than 1000 times in the template `T`
    (resolva numbers repeated groups with `%03d` and strips exactly three characters) -/
def keyCountOk (T : Template) : Tok → Bool
  | .ph k _ => decide (Template.countKey k T < 1000)
  | .lit _ => true

/-- a path template follows the conventions.
    CHANGED (added): `atomOk` and `keyCountOk` (above). -/
def pathTplOk (e : Env) (t : Template) : Bool :=
  match flatAtoms t with
  | none => false
  | some fl => (segsOf fl).all (segDet e) && fl.all (atomOk e) &&
      t.all (keyCountOk t)

/-- the values handed to a template are ones it can render and read back: closed placeholders get
    a word of their vocabulary, free ones a '/'-free string -/
def valuesOk (e : Env) (t : Template) (data : Dict) : Bool :=
  t.all (fun tok => match tok with
    | .lit _ => true
    | .ph k ex =>
      match data.get k with
      | none => false
      | some v => if ex == Re.star Cls.notSlash then !Str.hasChar '/' v else ex.accepts e v)

def distinctStr : List Str → Bool
  | [] => true
  | k :: ks => !ks.contains k && distinctStr ks

/-- `utils.get_key(mapping, value, default=value)` (as `Ctx.getKey`, restated here for the conventions) -/
def firstKey (m : List (Str × Str)) (value : Str) : Str :=
  match m.find? (·.2 == value) with
  | some (k, _) => k
  | none => value

/-- the value mapping of a key: path-side words are distinct (they are the keys of a Python dict),
    no sid-side value is itself a word the path expression of that key accepts ("idempotent"), and
    the word a sid value is RENDERED with — the first path word listed for it — is acceptable
    wherever a path word of that value is (trivially so for a one-to-one mapping).
    CHANGED (weakened): sid-side values need not be distinct any more — two disk words may denote one
    sid value ("if the value exists multiple times, the first one is returned", `spil_fs_conf.py`).
    CHANGED (added): sid-side values are non-empty (an empty sid value is not mapped back by
    `dict_to_path`, so the path would be re-rendered with an empty field: `c06_total` is false
    then, see the counterexample in `Spil/Props/C05b.lean`). -/
def mappingOk (e : Env) (pc : PathConf) : Bool :=
  pc.mapping.all (fun km =>
    distinctStr (km.2.map (·.1)) &&
    km.2.all (fun pv => !pv.2.isEmpty) &&
    pc.templates.all (fun lt => lt.2.all (fun tok => match tok with
      | .ph k ex => k != km.1 ||
          (km.2.all (fun pv => !(ex.accepts e pv.2)) &&
           km.2.all (fun pv => !(ex.accepts e pv.1) || ex.accepts e (firstKey km.2 pv.2)))
      | _ => true)))

/-- the key has no (non-empty) value mapping -/
def unmapped (pc : PathConf) (k : Str) : Bool :=
  match pc.mapping.lookup k with
  | some m => m.isEmpty
  | none => true

/-- a path configuration follows the conventions.
    CHANGED (added): template labels are unique (they are the keys of a Python dict).
    CHANGED (weakened): a default may concern a FREE key (a folder level that is no Sid key, filled
    by `path_defaults`) provided that key has no value mapping and the default is '/'-free. -/
def pathConfOk (e : Env) (pc : PathConf) : Bool :=
  distinctStr (pc.templates.map (·.1)) &&
  pc.templates.all (fun lt => pathTplOk e lt.2) && mappingOk e pc &&
  -- defaults are words the expression of their key accepts; a closed placeholder never yields an
  -- empty value, a free one may (the default then replaces it): such a key is not mapped
  pc.defaults.all (fun kd => pc.templates.all (fun lt => lt.2.all (fun tok => match tok with
    | .ph k ex => k != kd.1 ||
        (ex.accepts e kd.2 && (!(ex == Re.star Cls.notSlash) || unmapped pc k))
    | _ => true)))

/-- the TEMPLATE half of `pathConfOk`: every path template follows `pathTplOk`.  This is all that
    C05 (`c05_roundtrip`, `c05_injective`) asks of a configuration besides `pathsExclusive`: value
    mappings and defaults enter C05 through the Sid (`C05.Admissible.back` / `.values`), so a
    configuration with two disk words for one sid value, or a default for a free template key, is
    covered although it does not follow `pathConfOk` (which `c06_total` needs). -/
def pathTplsOk (e : Env) (pc : PathConf) : Bool :=
  pc.templates.all (fun lt => pathTplOk e lt.2)

theorem pathTplsOk_of_confOk (e : Env) (pc : PathConf) (h : pathConfOk e pc = true) :
    pathTplsOk e pc = true := by
  simp only [pathConfOk, Bool.and_eq_true] at h
  exact h.1.1.2

theorem pathTplsOk_tpl (e : Env) (pc : PathConf) (h : pathTplsOk e pc = true) (l : Str) (t : Template)
    (hm : (l, t) ∈ pc.templates) : pathTplOk e t = true := by
  simp only [pathTplsOk, List.all_eq_true] at h
  exact h (l, t) hm

/-! ### ADDED (C05c): mutually exclusive templates

  `tplExcl e syms A B` decides a sufficient condition for "no path that `B` renders from
  admissible CONCRETE values is matched by the regular expression of `A`"; `pathsExclusive` asks it
  of every template against every EARLIER template of the configuration (the order in which
  `Resolver.resolve_first` tries them).  Soundness: `Spil/Lemmas/ExclTpl.lean` (`Excl.no_match`). -/

/-- an alternative of a vocabulary that spells a search symbol literally (`\*`, `\>`) -/
def isSymWord (syms : List Str) (w : List Cls) : Bool := syms.any (fun s => w == s.map Cls.lit)

/-- the CONCRETE words of a vocabulary: the alternatives that are not a search symbol -/
def concAlts (syms : List Str) (alts : List (List Cls)) : List (List Cls) :=
  alts.filter (fun w => !isSymWord syms w)

/-- the atom restricted to its concrete words -/
def Atom.conc (syms : List Str) : Atom → Atom
  | .closed k alts => .closed k (concAlts syms alts)
  | a => a

/-- the atom read from right to left -/
def Atom.rev : Atom → Atom
  | .closed k alts => .closed k (alts.map List.reverse)
  | a => a

/-- a list of atoms read from right to left -/
def revAtoms (fl : List Atom) : List Atom := (fl.map Atom.rev).reverse

/-- the words of a non-free atom, as class sequences -/
def Atom.words : Atom → Option (List (List Cls))
  | .cls k => some [[k]]
  | .closed _ alts => some alts
  | .free _ => none

/-- the atom can never consume a '/' -/
def Atom.noSlash (e : Env) : Atom → Bool
  | .cls k => k.slashFree e
  | .closed _ alts => alts.all (fun w => w.all (fun k => k.slashFree e))
  | .free _ => true

/-- two non-free atoms at the same position of a string necessarily read the same prefix of it -/
def skipOk (e : Env) (a b : Atom) : Bool :=
  match a.words, b.words with
  | some X, some Y => prefixFree e (X ++ Y)
  | _, _ => false

/-- two non-free atoms can never read the same position of a string: no word of one is a prefix of
    a word of the other -/
def disjOk (e : Env) (a b : Atom) : Bool :=
  match a.words, b.words with
  | some X, some Y => X.all (fun x => Y.all (fun y => !prefixCompat e x y && !prefixCompat e y x))
  | _, _ => false

/-- the atoms before the first '/' atom and the atoms after it -/
def cutSlash : List Atom → Option (List Atom × List Atom)
  | [] => none
  | a :: as =>
    if a.isSlash then some ([], as)
    else match cutSlash as with
      | some (s, r) => some (a :: s, r)
      | none => none

/-- counting '/': `B` renders exactly one '/' per '/' atom; `A` reads at least one '/' per '/' atom
    and at most one per atom that can consume a '/' (a literal `.` of a template is the wildcard) -/
def slashRule (e : Env) (A B : List Atom) : Bool :=
  Nat.blt (B.countP Atom.isSlash) (A.countP Atom.isSlash) ||
  Nat.blt (A.countP (fun a => !a.noSlash e)) (B.countP Atom.isSlash)

/-- walk the atoms of `A` (the template that tries to match) and of `B` (the template that rendered,
    restricted to concrete words) from the LEFT, both standing at the same position of the string;
    `true` = "they cannot both parse it".  The first argument is fuel (`A.length + 1` suffices:
    every recursive call drops an atom of `A`).
    * one list is exhausted and the other goes on with a non-free atom (a non-empty word without
      newline: neither the end of the string nor the final newline `$` tolerates);
    * the heads are `disjOk`;
    * the heads are `skipOk`: both read the same prefix, go on;
    * otherwise the heads tell nothing (a free placeholder, overlapping vocabularies): count the
      '/' that are left (`slashRule`), or jump in both lists behind the next '/' atom — allowed
      when no atom of `A` before it can consume a '/' (`B` renders exactly one '/' per '/' atom). -/
def lwalk (e : Env) : Nat → List Atom → List Atom → Bool
  | 0, _, _ => false
  | n + 1, A, B =>
    match A, B with
    | [], [] => false
    | [], b :: _ => !b.isFree || slashRule e A B
    | a :: _, [] => !a.isFree || slashRule e A B
    | a :: A', b :: B' =>
      disjOk e a b ||
      (if skipOk e a b then lwalk e n A' B'
       else slashRule e A B ||
        (match cutSlash A, cutSlash B with
         | some (sa, A''), some (_, B'') => sa.all (Atom.noSlash e) && lwalk e n A'' B''
         | _, _ => false))

/-- `A` cannot match what `B` renders: by counting '/', by the walk from the left, or by the same
    walk from the RIGHT on the reversed atoms (only when `B` ends with a non-free atom: then the
    rendered string has no final newline for `$` to skip, so both end at the same position). -/
def atomsExcl (e : Env) (A B : List Atom) : Bool :=
  slashRule e A B || lwalk e (A.length + 1) A B ||
  (match revAtoms B with
   | b :: _ => !b.isFree && lwalk e (A.length + 1) (revAtoms A) (revAtoms B)
   | [] => false)

/-- no path rendered by `B` from admissible concrete values is matched by the regular expression of
    `A` (sufficient condition; `syms` are the search symbols, whose literal alternatives `\*`, `\>`
    of `B`'s vocabularies are never rendered from concrete values) -/
def tplExcl (e : Env) (syms : List Str) (A B : Template) : Bool :=
  match flatAtoms A, flatAtoms B with
  | some fa, some fb => atomsExcl e fa (fb.map (Atom.conc syms))
  | _, _ => false

/-- every template excludes every LATER template of the list -/
def exclEarlier (e : Env) (syms : List Str) : List (Str × Template) → Bool
  | [] => true
  | lt :: rest => rest.all (fun lt' => tplExcl e syms lt.2 lt'.2) && exclEarlier e syms rest

/-- "mutually exclusive value patterns", as `Resolver.resolve_first` needs it: no template matches
    a path rendered (from admissible concrete values) by a template that comes AFTER it -/
def pathsExclusive (e : Env) (syms : List Str) (pc : PathConf) : Bool :=
  exclEarlier e syms pc.templates

/-- the values handed to a template are CONCRETE: no closed placeholder gets a search symbol
    (`*`, `>`, …) as its value.  Nothing is asked of free placeholders. -/
def concreteOk (syms : List Str) (t : Template) (data : Dict) : Bool :=
  t.all (fun tok => match tok with
    | .lit _ => true
    | .ph k ex => ex == Re.star Cls.notSlash || !(syms.contains ((data.get k).getD [])))

/-! ### ADDED: the hypotheses of C05 on one Sid, as one Boolean

  `C05.Admissible` (Props/C05c.lean) lists what C05 asks of a Sid `x` with path `p`, each field
  decidable.  `admissibleB` is their conjunction as a Boolean (with the template and the `key_types`
  entry looked up), so that a driver can EVALUATE it and the kernel can decide it in one go:
  `C05.admissible_of_B` turns `admissibleB … = true` into `Admissible`. -/

def nodupStr : List Str → Bool
  | [] => true
  | k :: ks => !ks.contains k && nodupStr ks

def admissibleB (c : Ctx) (pc : PathConf) (x : Sid) (p : Str) : Bool :=
  match pc.resolver.lookup x.type,
        c.cfg.sid.keyTypes.lookup (((Str.splitStr x.type c.cfg.sid.sep).head?).getD []) with
  | some t, some kts =>
    (kts.filter (fun k => (Template.keys t).contains k) == x.fields.map (·.1)) &&
    nodupStr (x.fields.map (·.1)) &&
    (Ctx.mapToSid pc (Ctx.pathData pc x.fields []) == x.fields) &&
    valuesOk c.env t (Ctx.pathData pc x.fields (Template.keys t)) &&
    concreteOk c.cfg.sid.searchSymbols t (Ctx.pathData pc x.fields (Template.keys t)) &&
    (Template.format t (Ctx.pathData pc x.fields (Template.keys t)) == some p) &&
    (match c.dictToSidStr x.fields x.type with
      | .ok s => s == x.string
      | .error _ => false) &&
    !x.string.isEmpty
  | _, _ => false

end Spec
