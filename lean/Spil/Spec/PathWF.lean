/-
  Spil.Spec.PathWF — decidable conventions on PATH templates ("file-name separators",
  "mutually exclusive value patterns", "one-to-one value mappings") under which a rendered path is
  parsed back deterministically by its own template.
-/
import Spil.Model.Path

namespace Spec

/-- a closed expression as a fixed sequence of single-character classes (literal / digit only) -/
def seqOf : Re → Option (List Cls)
  | .eps => some []
  | .cls (.lit c) => some [.lit c]
  | .cls .digit => some [.digit]
  | .seq a b => match seqOf a, seqOf b with
    | some x, some y => some (x ++ y)
    | _, _ => none
  | _ => none

/-- a closed expression as alternatives of fixed class sequences: `(w1|w2|…)` -/
def altsOf? : Re → Option (List (List Cls))
  | .cgrp r => altsOf? r
  | .alt a b => match altsOf? a, altsOf? b with
    | some x, some y => some (x ++ y)
    | _, _ => none
  | r => (seqOf r).map (fun w => [w])

/-- may the two classes accept a common character? (exact for literal / digit) -/
def clsMeet (e : Env) : Cls → Cls → Bool
  | .lit a, .lit b => a == b
  | .lit a, .digit => e.isDigit a
  | .digit, .lit b => e.isDigit b
  | .digit, .digit => true
  | _, _ => true

/-- could a word of `a` be a prefix of (or equal to) a word of `b`? -/
def prefixCompat (e : Env) : List Cls → List Cls → Bool
  | [], _ => true
  | _ :: _, [] => false
  | x :: xs, y :: ys => clsMeet e x y && prefixCompat e xs ys

/-- no word of one alternative is a PROPER prefix of a word of another alternative -/
def prefixFree (e : Env) (alts : List (List Cls)) : Bool :=
  alts.all (fun a => alts.all (fun b => !(a.length < b.length && prefixCompat e a b)))

def suffixFree (e : Env) (alts : List (List Cls)) : Bool := prefixFree e (alts.map List.reverse)

/-- the atoms of one '/'-free stretch of a path template -/
inductive Atom
  | cls (k : Cls)                                   -- one character of literal template text
  | closed (key : Str) (alts : List (List Cls))     -- a placeholder with a closed vocabulary
  | free (key : Str)                                -- a placeholder with the default `[^/]*`
  deriving Repr, DecidableEq

/-- atoms of a template, split into segments at every literal '/'; `none` when a placeholder
    expression is neither `[^/]*` nor an alternation of literal / digit words -/
def atomsGo : Template → List Atom → List (List Atom) → Option (List (List Atom))
  | [], cur, acc => some (acc ++ [cur])
  | .lit s :: rest, cur, acc =>
    -- walk the literal: '/' closes the current segment
    let (cur', acc') := s.foldl (fun (st : List Atom × List (List Atom)) ch =>
      if ch == '/' then ([], st.2 ++ [st.1]) else (st.1 ++ [Atom.cls (Template.litCls ch)], st.2)) (cur, acc)
    atomsGo rest cur' acc'
  | .ph k e :: rest, cur, acc =>
    if e == Re.star Cls.notSlash then atomsGo rest (cur ++ [Atom.free k]) acc
    else match altsOf? e with
      | some alts => atomsGo rest (cur ++ [Atom.closed k alts]) acc
      | none => none

def atomsOf (t : Template) : Option (List (List Atom)) := atomsGo t [] []

def Atom.isFree : Atom → Bool
  | .free _ => true
  | _ => false

def leftOk (e : Env) : Atom → Bool
  | .cls _ => true
  | .closed _ alts => prefixFree e alts
  | .free _ => false

def rightOk (e : Env) : Atom → Bool
  | .cls _ => true
  | .closed _ alts => suffixFree e alts
  | .free _ => false

/-- a segment parses deterministically: at most one free placeholder; everything to its left has
    a prefix-free language, everything to its right a suffix-free one (without a free placeholder:
    some split point works) -/
def segDet (e : Env) (seg : List Atom) : Bool :=
  match seg.findIdx? Atom.isFree with
  | some i => (seg.take i).all (leftOk e) && (seg.drop (i + 1)).all (rightOk e)
  | none => (List.range (seg.length + 1)).any (fun i => (seg.take i).all (leftOk e) && (seg.drop i).all (rightOk e))

/-- a path template follows the conventions -/
def pathTplOk (e : Env) (t : Template) : Bool :=
  match atomsOf t with
  | none => false
  | some segs => segs.all (segDet e) &&
      segs.all (fun seg => seg.all (fun a => match a with
        | .closed _ alts => !alts.isEmpty && alts.all (fun w => !w.isEmpty)
        | _ => true))

/-- the values handed to a template are ones it can render and read back: closed placeholders get
    a word of their vocabulary, free ones a '/'-free string -/
def valuesOk (e : Env) (t : Template) (data : Dict) : Bool :=
  t.all (fun tok => match tok with
    | .lit _ => true
    | .ph k ex =>
      match data.get k with
      | none => false
      | some v => if ex == Re.star Cls.notSlash then !Str.hasChar '/' v else ex.accepts e v)

def distinctStr : List Str → Bool
  | [] => true
  | k :: ks => !ks.contains k && distinctStr ks

/-- the value mapping of a key is one-to-one in both directions and no sid-side value is itself a
    word the path expression of that key accepts ("idempotent") -/
def mappingOk (e : Env) (pc : PathConf) : Bool :=
  pc.mapping.all (fun km =>
    distinctStr (km.2.map (·.1)) && distinctStr (km.2.map (·.2)) &&
    pc.templates.all (fun lt => lt.2.all (fun tok => match tok with
      | .ph k ex => k != km.1 || km.2.all (fun pv => !(ex.accepts e pv.2))
      | _ => true)))

/-- a path configuration follows the conventions -/
def pathConfOk (e : Env) (pc : PathConf) : Bool :=
  pc.templates.all (fun lt => pathTplOk e lt.2) && mappingOk e pc &&
  -- defaults only concern closed keys (an empty value never comes out of a closed placeholder)
  -- and are words of the vocabulary of that key
  pc.defaults.all (fun kd => pc.templates.all (fun lt => lt.2.all (fun tok => match tok with
    | .ph k ex => k != kd.1 || (!(ex == Re.star Cls.notSlash) && ex.accepts e kd.2)
    | _ => true)))

end Spec
