/-
  Spil.Spec.Unfold — declarative reading of the search-expression syntax (C07, C10).
-/
import Spil.Model.Unfold
import Spil.Spec.Sid

namespace Spec

/-- the alternatives a segment (or query value) denotes: a ',' list is distributed, each
    alternative stripped; anything else denotes itself -/
def altsOf (part : Str) : List Str :=
  if Str.hasChar ',' part then (Str.splitOn ',' part).map Str.strip else [part]

/-- all ways of choosing one alternative per segment, joined by '/'.
    (Order: the alternatives of later segments vary slowest — irrelevant for the statement,
    which is about the set, but it is what `or_on_path` produces.) -/
def orProduct : List Str → List Str
  | [] => []
  | p :: rest => rest.foldl (fun acc part => (altsOf part).flatMap (fun a => acc.map (fun x => x ++ '/' :: a))) (altsOf p)

/-- one choice per segment, as a relation: `Choice parts picks` -/
inductive Choice : List Str → List Str → Prop
  | nil : Choice [] []
  | cons {p ps a as} : a ∈ altsOf p → Choice ps as → Choice (p :: ps) (a :: as)

end Spec

namespace Spec

/-- "/*" repeated `k` times -/
def stars (k : Nat) : Str := (List.replicate k ['/', '*']).flatten

/-- the search string with its "/**" replaced by `k` levels of "/*" -/
def fill (s : Str) (k : Nat) : Str := Str.replace s ['/', '*', '*'] (stars k)

/-- the part of the search before "/**" -/
def rootOf (s : Str) : Str := ((Str.splitStr s ['/', '*', '*']).head?).getD []

/-- the typed search Sid a template denotes for a string it accepts -/
def typedAs (label : Str) (t : Template) (s : Str) : Sid := ⟨s, label, fieldsOf t s⟩

end Spec
