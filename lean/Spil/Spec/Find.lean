/-
  Spil.Spec.Find — declarative reading of list search (C08) and of the '>' operator (C09).
-/
import Spil.Model.Find

namespace Spec

/-- the glob relation of the statement of C08 on whole strings: `*` matches any run of
    characters other than '/', `?` one character other than '/', every other character
    (including '/') matches itself.  (`[` is excluded from patterns: known finding K2.) -/
inductive Glob : Str → Str → Prop
  | nil : Glob [] []
  | starSkip {p s} : Glob p s → Glob ('*' :: p) s
  | starTake {p s c} : c ≠ '/' → Glob ('*' :: p) s → Glob ('*' :: p) (c :: s)
  | one {p s c} : c ≠ '/' → Glob p s → Glob ('?' :: p) (c :: s)
  | lit {p s a} : a ≠ '*' → a ≠ '?' → a ≠ '[' → Glob p s → Glob (a :: p) (a :: s)

/-- boolean version of the model's matcher for a `[`-free pattern -/
def globB (e : Env) (pat item : Str) : Bool :=
  match Find.glob2re pat with
  | none => false
  | some items => (Re.mkSeq items).matchZ e item

/-- the key `sorted_search` groups by: the segments before position `index` -/
def groupKey (index : Nat) (x : Str) : List Str := (Str.splitOn '/' x).take index

/-- `x` is at least `y` when compared segment by segment as strings -/
def segGe (x y : Str) : Prop := Str.ltList (Str.splitOn '/' x) (Str.splitOn '/' y) = false

end Spec
