/-
  Spil.Spec.Sid — declarative reading of the statements about Sid typing (C01–C03), written
  independently of the operational model (no regex compilation, no anchors, no reverse checks):
  a template accepts a string when the string has as many '/'-separated segments as the template
  has placeholders and every placeholder expression accepts its whole segment.
-/
import Spil.Model.Sid

namespace Spec

/-- the placeholders of a template, in order -/
def phs : Template → List (Str × Re)
  | [] => []
  | .lit _ :: r => phs r
  | .ph k e :: r => (k, e) :: phs r

/-- `{k1:e1}/{k2:e2}/…/{kn:en}` : placeholders separated by exactly the sid separator -/
def alternates : Template → Bool
  | [.ph _ _] => true
  | .ph _ _ :: .lit ['/'] :: rest => alternates rest
  | _ => false

def distinct : List Str → Bool
  | [] => true
  | k :: ks => !ks.contains k && distinct ks

/-- `[^/]*`, the default placeholder expression -/
def isFree (r : Re) : Bool := r == Re.star Cls.notSlash

/-- well-formed sid template (documented conventions `sidShape`, `freeOrClosed`) -/
def sidTplOk (e : Env) (t : Template) : Bool :=
  alternates t && distinct ((phs t).map (·.1)) &&
  (phs t).all (fun p => p.2.slashFree e && p.2.noGrp && (isFree p.2 || p.2.nlFree e))

/-- well-formed sid template table: every template well-formed, labels non-empty and distinct -/
def sidTableOk (e : Env) (ts : List (Str × Template)) : Bool :=
  ts.all (fun p => !p.1.isEmpty && sidTplOk e p.2) && distinct (ts.map (·.1))

/-- every placeholder expression accepts its whole segment, and the counts agree -/
def acceptsSegs (e : Env) : List (Str × Re) → List Str → Bool
  | [], [] => true
  | (_, r) :: ps, seg :: segs => r.accepts e seg && acceptsSegs e ps segs
  | _, _ => false

def accepts (e : Env) (t : Template) (s : Str) : Bool := acceptsSegs e (phs t) (Str.splitOn '/' s)

/-- the field dictionary of `s` under template `t` -/
def fieldsOf (t : Template) (s : Str) : Dict := ((phs t).map (·.1)).zip (Str.splitOn '/' s)

/-- the first configured template, in configuration order, that accepts `s` -/
def firstAccepting (e : Env) : List (Str × Template) → Str → Option (Str × Template)
  | [], _ => none
  | (label, t) :: rest, s => if accepts e t s then some (label, t) else firstAccepting e rest s

/-- the Sid the statement of C01 prescribes for a plain string -/
def plainSid (e : Env) (ts : List (Str × Template)) (s : Str) : Sid :=
  match firstAccepting e ts s with
  | some (label, t) => ⟨s, label, fieldsOf t s⟩
  | none => Sid.untyped s

/-- the Sid the statement of C01 prescribes for `ty:rest` -/
def forcedSid (e : Env) (ts : List (Str × Template)) (ty rest : Str) : Sid :=
  match ts.lookup ty with
  | some t => if !rest.isEmpty && accepts e t rest then ⟨rest, ty, fieldsOf t rest⟩ else Sid.untyped rest
  | none => Sid.untyped rest

end Spec
