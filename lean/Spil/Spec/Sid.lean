/-
  Spil.Spec.Sid — declarative reading of the statements about Sid typing (C01–C03), written
  independently of the operational model (no regex compilation, no anchors, no reverse checks):
  a template accepts a string when the string has as many '/'-separated segments as the template
  has placeholders and every placeholder expression accepts its whole segment.
-/
import Spil.Model.Sid

namespace Spec

/-- the placeholders of a template, in order -/
def phs : Template → List (Str × Re)
  | [] => []
  | .lit _ :: r => phs r
  | .ph k e :: r => (k, e) :: phs r

/-- `{k1:e1}/{k2:e2}/…/{kn:en}` : placeholders separated by exactly the sid separator -/
def alternates : Template → Bool
  | [.ph _ _] => true
  | .ph _ _ :: .lit ['/'] :: rest => alternates rest
  | _ => false

def distinct : List Str → Bool
  | [] => true
  | k :: ks => !ks.contains k && distinct ks

/-- `[^/]*`, the default placeholder expression -/
def isFree (r : Re) : Bool := r == Re.star Cls.notSlash

/-- well-formed sid template (documented conventions `sidShape`, `freeOrClosed`) -/
def sidTplOk (e : Env) (t : Template) : Bool :=
  alternates t && distinct ((phs t).map (·.1)) &&
  (phs t).all (fun p => p.2.slashFree e && p.2.noGrp && (isFree p.2 || p.2.nlFree e))

/-- well-formed sid template table: every template well-formed, labels non-empty and distinct -/
def sidTableOk (e : Env) (ts : List (Str × Template)) : Bool :=
  ts.all (fun p => !p.1.isEmpty && sidTplOk e p.2) && distinct (ts.map (·.1))

/-- every placeholder expression accepts its whole segment, and the counts agree -/
def acceptsSegs (e : Env) : List (Str × Re) → List Str → Bool
  | [], [] => true
  | (_, r) :: ps, seg :: segs => r.accepts e seg && acceptsSegs e ps segs
  | _, _ => false

def accepts (e : Env) (t : Template) (s : Str) : Bool := acceptsSegs e (phs t) (Str.splitOn '/' s)

/-- the field dictionary of `s` under template `t` -/
def fieldsOf (t : Template) (s : Str) : Dict := ((phs t).map (·.1)).zip (Str.splitOn '/' s)

/-- the first configured template, in configuration order, that accepts `s` -/
def firstAccepting (e : Env) : List (Str × Template) → Str → Option (Str × Template)
  | [], _ => none
  | (label, t) :: rest, s => if accepts e t s then some (label, t) else firstAccepting e rest s

/-- the Sid the statement of C01 prescribes for a plain string -/
def plainSid (e : Env) (ts : List (Str × Template)) (s : Str) : Sid :=
  match firstAccepting e ts s with
  | some (label, t) => ⟨s, label, fieldsOf t s⟩
  | none => Sid.untyped s

/-- the Sid the statement of C01 prescribes for `ty:rest` -/
def forcedSid (e : Env) (ts : List (Str × Template)) (ty rest : Str) : Sid :=
  match ts.lookup ty with
  | some t => if !rest.isEmpty && accepts e t rest then ⟨rest, ty, fieldsOf t rest⟩ else Sid.untyped rest
  | none => Sid.untyped rest

end Spec

namespace Spec

/-- keys of a template as a list -/
def keysOf (t : Template) : List Str := (phs t).map (·.1)

/-- `sameKeysSameOrder`: two templates with the same key SET list their keys in the same order
    ("ordered templates per basetype") -/
def sameKeysSameOrder (ts : List (Str × Template)) : Bool :=
  ts.all (fun a => ts.all (fun b =>
    !((keysOf a.2).all (fun k => (keysOf b.2).contains k) && (keysOf b.2).all (fun k => (keysOf a.2).contains k))
      || keysOf a.2 == keysOf b.2))

/-- `prefixClosed`: every non-empty proper prefix of a template's placeholder list (keys AND
    expressions) is the placeholder list of some template ("every level has a type") -/
def prefixClosed (ts : List (Str × Template)) : Bool :=
  ts.all (fun a => (List.range (phs a.2).length).all (fun n =>
    n == 0 || ts.any (fun b => phs b.2 == (phs a.2).take n)))

/-- type names contain neither ':' nor '?' (they are spelled in front of ':' in a uri) -/
def labelsPlain (ts : List (Str × Template)) : Bool :=
  ts.all (fun a => !Str.hasChar ':' a.1 && !Str.hasChar '?' a.1)

/-- the conventions the hierarchy theorems need, on top of `sidTableOk` -/
def sidHierOk (e : Env) (ts : List (Str × Template)) : Bool :=
  sidTableOk e ts && sameKeysSameOrder ts && prefixClosed ts && labelsPlain ts

/-- `x` is the Sid that natural (first-match) typing gives to its own string -/
def natural (e : Env) (ts : List (Str × Template)) (x : Sid) : Prop :=
  x.typed = true ∧ x = plainSid e ts x.string

end Spec

namespace Spec

/-- `x` is typed by SOME template of the table that accepts its string (not necessarily the
    first one: covers Sids whose type was forced by a uri or chosen by a query / a field set) -/
def wellTyped (e : Env) (ts : List (Str × Template)) (x : Sid) : Prop :=
  ∃ t, ts.lookup x.type = some t ∧ x.string ≠ [] ∧ accepts e t x.string = true ∧ x.fields = fieldsOf t x.string

end Spec
