/-
  Spil.Spec.Gt — declarative vocabulary of the end-to-end statement of C09 (the SORT symbol '>'):
  the search read with '>' as '*', the position of '>', "the greatest of its group among the
  entries satisfying P", and the sets of entries the two Finders select from.
-/
import Spil.Spec.Find
import Spil.Spec.Glob

namespace Spec

/-- the search with the sort symbol read as a star: `str.replace('>', '*')` -/
def gtStar (s : Str) : Str := s.map (fun ch => if ch == '>' then '*' else ch)

/-- the search string carries '>' as a WHOLE '/'-segment at position `idx` and at no earlier
    position (`segments.index('>') == idx`) -/
def GtAt (idx : Nat) (s : Str) : Prop := Find.indexOfGt (Str.splitOn '/' s) = some idx

instance (idx : Nat) (s : Str) : Decidable (GtAt idx s) := by unfold GtAt; exact inferInstance

/-- `y` satisfies `P` and is at least every entry satisfying `P` that shares its first `idx`
    segments, segments being compared one by one as strings: "the last one of its group" -/
def IsLastOf (idx : Nat) (P : Str → Prop) (y : Str) : Prop :=
  P y ∧ ∀ z, P z → groupKey idx z = groupKey idx y → segGe y z

/-- the list `r` is the answer of a '>' search over the entries satisfying `P`: it consists of the
    last ones of the groups, lists nothing twice, holds one entry per group, and every group of an
    entry satisfying `P` is represented -/
structure PicksLast (idx : Nat) (P : Str → Prop) (r : List Str) : Prop where
  mem : ∀ y, y ∈ r ↔ IsLastOf idx P y
  nodup : r.Nodup
  one_per_group : ∀ y₁ ∈ r, ∀ y₂ ∈ r, groupKey idx y₁ = groupKey idx y₂ → y₁ = y₂
  every_group : ∀ e, P e → ∃ y ∈ r, groupKey idx y = groupKey idx e ∧ segGe y e

/-- what a list Finder selects from: the entries of the list that some search matches once its
    '>' is read as '*' (relation of C08) -/
def ListMatch (l : List Str) (searches : List Sid) (e : Str) : Prop :=
  e ∈ l ∧ ∃ s ∈ searches, Glob (gtStar s.string) e

/-- what a path Finder selects from: the strings of the typed Sids `x` built from an existing
    path `p` that the glob pattern of one of the star searches `s'` (the '>' searches re-resolved
    with '>' ↦ '*') globs, of the type of `s'`, whose string the string of `s'` matches -/
def PathMatch (d : DCtx) (w : World) (config : Option Str) (stars : List Sid) (y : Str) : Prop :=
  ∃ s' ∈ stars, ∃ pat, d.ctx.sidPath config s' = .ok (some pat) ∧ ∃ p ∈ w.glob pat, ∃ x,
    d.ctx.sidOfPath p config = .ok x ∧ x.typed = true ∧ x.type = s'.type ∧
    Glob s'.string x.string ∧ x.string = y

/-- the star search `s'` has a path pattern — or its type has no path template (`sid.path()` is
    `None`) and nothing in the tree is globbed by "None", the text `str(None)` the code globs then -/
def HasPattern (d : DCtx) (w : World) (config : Option Str) (s' : Sid) : Prop :=
  (∃ pat, d.ctx.sidPath config s' = .ok (some pat)) ∨
  (d.ctx.sidPath config s' = .ok none ∧ w.glob ['N','o','n','e'] = [])

end Spec

namespace Spec

/-- the key `sid.get_last(key)` sorts by: `key or sid.keytype` -/
def lastKey (x : Sid) (key : Option Str) : Str :=
  match key with
  | some k => if k.isEmpty then (Ctx.keytype x).getD [] else k
  | none => (Ctx.keytype x).getD []

/-- what `get_last` makes of `find_one`'s answer: the empty Sid for `None`, else `Sid(found)` —
    or the empty Sid when that Sid has no value for the key -/
def lastAnswer (c : Ctx) (k : Str) : Option Str → Except Err Sid
  | none => .ok Sid.empty
  | some f =>
    match c.sidOfString f with
    | .error e => .error e
    | .ok found =>
      match found.fields.get k with
      | some v => .ok (if v.isEmpty then Sid.empty else found)
      | none => .ok Sid.empty

end Spec
