/-
  Spil.Spec.FS — invariants and abstract readings for the file-system layer (C11, C12, C15, C16).
-/
import Spil.Model.FS

namespace Spec

/-- a canonical absolute path: "/" followed by non-empty components joined by "/" -/
def CanonPath (p : Str) : Prop :=
  ∃ comps : List Str, comps ≠ [] ∧ (∀ c ∈ comps, c ≠ [] ∧ '/' ∉ c) ∧ p = '/' :: Str.joinWith '/' comps

/-- whatever exists has existing directory ancestors, and no path is listed twice -/
def TreeOk (w : World) : Prop :=
  (w.nodes.map (·.1)).Nodup ∧
  ∀ p k, (p, k) ∈ w.nodes → ∀ a ∈ World.ancestors p, w.kind? a = some Node.dir

/-- an operation of the writer -/
inductive WOp
  | create (config : Option Str) (sid : Str) (attrs : Option Dict)
  | update (config : Option Str) (sid : Str) (attrs : Dict)

/-- run a history of writer operations; failed operations leave the world unchanged -/
def runOps (d : DCtx) : World → List WOp → World
  | w, [] => w
  | w, .create c s a :: rest =>
    match d.create w c s a with
    | .ok (w', _) => runOps d w' rest
    | .error _ => runOps d w rest
  | w, .update c s a :: rest =>
    match d.update w c s a with
    | .ok (w', _) => runOps d w' rest
    | .error _ => runOps d w rest

/-- the name without its last suffix (`Path.stem`) -/
def stem (nm : Str) : Str := nm.take (nm.length - (PurePath.suffixOf nm).length)

end Spec
