/-
  Spil.Spec.Denote — declarative END-TO-END reading of a query-free search expression (C07, C10):
  which typed searches the expression DENOTES, before narrowing.  Written without the operational
  functions `orOnPath`, `expand`, `expandGo`, `simpleTyping`, `extensions`, `handleExtension`:
  only `altsOf`, `Choice`, `fill`, `rootOf`, `accepts`, `typedAs`, `firstAccepting` and the tables
  of the configuration (`extensionAlias`, `leafKeys`, `sep`, the templates) are used.
-/
import Spil.Model.Unfold
import Spil.Model.Find
import Spil.Spec.Sid
import Spil.Spec.Unfold

namespace Spec

/-- the "any number of levels" symbol, with its separator -/
def slashStars : Str := ['/', '*', '*']

/-! ### conventions on the alias table -/

/-- an extension an alias may stand for: a plain segment value (no separator of the search syntax,
    no surrounding white space, not containing the private sentinel of `or_on_path`) -/
def extOk (v : Str) : Bool :=
  !Str.hasChar '/' v && !Str.hasChar ',' v && !Str.hasChar '?' v && !Str.hasChar ':' v &&
  Str.strip v == v && !Str.isInfix Ctx.startMark v

/-- conventions on `extension_alias`: alias names are non-empty, every alias stands for at least
    one extension, and the extensions are plain values -/
def aliasOk (sc : SidConf) : Bool :=
  sc.extensionAlias.all (fun p => !p.1.isEmpty && !p.2.isEmpty && p.2.all extOk)

/-- no extension of an alias is itself an alias name (aliases are not expanded recursively, so the
    rule "an alias equals the list of its extensions" needs this) -/
def aliasFlat (sc : SidConf) : Bool :=
  sc.extensionAlias.all (fun p => p.2.all (fun v => (sc.extensionAlias.lookup v).isNone))

/-! ### the plain strings an expression stands for -/

/-- the alternatives the LAST segment denotes: its ',' alternatives, each alias among them standing
    for the list of its extensions -/
def lastAlts (c : Ctx) (part : Str) : List Str :=
  (altsOf part).flatMap (fun a => (c.cfg.sid.extensionAlias.lookup a).getD [a])

/-- `a` is a plain string (no ',' list, no alias) the query-free expression `s` stands for: one
    alternative per segment, the last segment read through the alias table -/
def Picks (c : Ctx) (s a : Str) : Prop :=
  ∃ picks l, Choice (Str.splitOn '/' s).dropLast picks ∧
    l ∈ lastAlts c (((Str.splitOn '/' s).getLast?).getD []) ∧
    a = Str.joinWith '/' (picks ++ [l])

/-! ### the leaf key a "/**" completes to -/

/-- `sid.basetype` of a type name: the text before the first `sidtype_keytype_sep` -/
def basetypeOf (c : Ctx) (label : Str) : Option Str := (Str.splitStr label c.cfg.sid.sep).head?

/-- the leaf key of the basetype of the root (the text before "/**"), the root being typed by the
    first template that accepts it; `none` when the root is empty or untyped, or when its basetype
    has no (or an empty) leaf key -/
def rootLeafKey (c : Ctx) (root : Str) : Option Str :=
  if root.isEmpty then none else
  match firstAccepting c.env c.cfg.sid.templates root with
  | none => none
  | some (label, _) =>
    match basetypeOf c label with
    | none => none
    | some bt =>
      match c.cfg.sid.leafKey (some bt) with
      | none => none
      | some lk => if lk.isEmpty then none else some lk

/-! ### denotation -/

/-- the typed searches a PLAIN string (no ',' list, no alias) denotes, before narrowing:
    * without "/**": one per template of the table accepting the string;
    * with exactly one "/**": one per number `k ≥ 0` of "/*" levels and per LEAF template (its last
      key is the leaf key of the root's basetype) accepting the string so filled. -/
def DenotesPlain (c : Ctx) (a : Str) (y : Sid) : Prop :=
  (Str.count a slashStars = 0 ∧ a ≠ [] ∧
    ∃ p ∈ c.cfg.sid.templates, accepts c.env p.2 a = true ∧ y = typedAs p.1 p.2 a) ∨
  (Str.count a slashStars = 1 ∧
    ∃ lk k, rootLeafKey c (rootOf a) = some lk ∧
      ∃ p ∈ c.cfg.sid.templates, (keysOf p.2).getLast? = some lk ∧
        accepts c.env p.2 (fill a k) = true ∧ y = typedAs p.1 p.2 (fill a k))

/-- `y` is a typed search the query-free expression `s` denotes BEFORE narrowing -/
def Denotes (c : Ctx) (s : Str) (y : Sid) : Prop := ∃ a, Picks c s a ∧ DenotesPlain c a y

/-- a plain string `expand` refuses: two "/**", or one "/**" whose root has no leaf key -/
def MalformedPlain (c : Ctx) (a : Str) : Prop :=
  2 ≤ Str.count a slashStars ∨ (Str.count a slashStars = 1 ∧ rootLeafKey c (rootOf a) = none)

/-- the expression stands for some malformed plain string -/
def Malformed (c : Ctx) (s : Str) : Prop := ∃ a, Picks c s a ∧ MalformedPlain c a

/-- no plain string the expression stands for starts with "/*" (see `C07.c07_simple_typing`:
    `simple_typing` types the text before the first "/*" first and gives up on an empty root) -/
def Rooted (c : Ctx) (s : Str) : Prop := ∀ a, Picks c s a → ¬ ['/', '*'] <+: a

/-- a decidable sufficient condition for `Rooted`: with more than one segment, no alternative of
    the first segment is empty -/
def rootedB (s : Str) : Bool :=
  match Str.splitOn '/' s with
  | p :: _ :: _ => !(altsOf p).contains []
  | _ => true

/-- narrowing returns canonically typed Sids on what the expression denotes: every typed,
    query-free result of `type_narrow` carries the fields its own string has under its own type
    (`Spec.wellTyped`).  This is what C04's all-or-nothing theorem establishes for the overlay. -/
def NarrowCanon (c : Ctx) (s : Str) : Prop :=
  ∀ y x, Denotes c s y → c.typeNarrow y = .ok x → x.typed = true → '?' ∉ x.string →
    wellTyped c.env c.cfg.sid.templates x

/-! ### conventions on the narrowing tables (for `C07.c07_narrow`) -/

/-- a value of a narrowing query: not empty once the option mark '~' is removed, and free of the
    separators '/', '?' and of the line feed -/
def narrowValOk (v : Str) : Bool :=
  !(v.filter (· != '~')).isEmpty && !Str.hasChar '/' v && !Str.hasChar '\n' v && !Str.hasChar '?' v

/-- a narrowing query: it parses (inside the model of `urllib.parse`) into good values -/
def narrowQueryOk (q : Str) : Bool :=
  match Query.toDict q with
  | .ok nd => nd.all (fun p => narrowValOk p.2)
  | .error _ => false

/-- conventions on `basetyped_narrowing` / `typed_narrowing`: every configured query is good (an
    empty query is no narrowing), and so is every combination "basetyped?typed" (when the first
    narrowing is refused, `type_narrow` re-applies it together with the second) -/
def narrowOk (sc : SidConf) : Bool :=
  sc.basetypedNarrowing.all (fun p => p.2.isEmpty || narrowQueryOk p.2) &&
  sc.typedNarrowing.all (fun p => p.2.isEmpty || narrowQueryOk p.2) &&
  sc.basetypedNarrowing.all (fun p => sc.typedNarrowing.all (fun p' =>
    p.2.isEmpty || p'.2.isEmpty || narrowQueryOk (p.2 ++ '?' :: p'.2)))

/-- no plain string the expression stands for contains a line feed (resolva's `$` accepts one at
    the end of a string, which the reverse checks of the query overlay do not) -/
def NoNl (c : Ctx) (s : Str) : Prop := ∀ a, Picks c s a → '\n' ∉ a

/-- decidable sufficient condition for `NoNl` (with `'\n' ∉ s`): no extension contains a line feed -/
def aliasNoNl (sc : SidConf) : Bool :=
  sc.extensionAlias.all (fun p => p.2.all (fun v => !Str.hasChar '\n' v))

/-- the narrowing query configured for the basetype of a type name ("" = none) -/
def narrowQ1 (c : Ctx) (ty : Str) : Str :=
  match basetypeOf c ty with
  | some bt => (c.cfg.sid.basetypedNarrowing.lookup bt).getD []
  | none => []

/-- the narrowing query configured for a type name ("" = none) -/
def narrowQ2 (c : Ctx) (ty : Str) : Str := (c.cfg.sid.typedNarrowing.lookup ty).getD []

/-- one narrowing step: `sid.get_with(query=q)` when a query is configured -/
def narrowStep (c : Ctx) (x : Sid) (q : Str) : Except Err Sid :=
  if q.isEmpty then .ok x else c.getWithQuery x q

/-! ### the hypotheses of the end-to-end theorems, bundled (each one is discussed in `Props/C07c`) -/

/-- conventions on the configuration: the template table (`sidHierOk`), the alias table
    (`aliasOk`), and no narrowing configured for the empty type name -/
structure ConfOk (c : Ctx) : Prop where
  wf : sidHierOk c.env c.cfg.sid.templates = true
  alias : aliasOk c.cfg.sid = true
  noEmptyNarrow : c.cfg.sid.typedNarrowing.lookup [] = none

/-- conditions on a query-free search expression: no '?', no ':' (not a uri), not containing the
    private sentinel of `or_on_path`, and standing for no plain string that starts with "/*" -/
structure ExprOk (c : Ctx) (s : Str) : Prop where
  noQuery : '?' ∉ s
  noColon : ':' ∉ s
  noMark : Str.isInfix Ctx.startMark s = false
  rooted : Rooted c s

/-- `Finder.find` hands its star search the same STRINGS as unfolding the expression would.
    True for every proper search expression (it contains a search symbol or ends in an alias:
    `Finder.find` unfolds it, `C10.c10_agree_proper`); for a CONCRETE typed string `Finder.find`
    takes a shortcut (the Sid itself, not unfolded, not narrowed): see `C10.c10_agree_concrete`. -/
def SearchesAgree (c : Ctx) (s : Str) : Prop :=
  ∀ r, c.unfoldSearch s false false = .ok r →
    ∃ S, c.findSearches s = .ok S ∧ ∀ p, p ∈ S.map (·.string) ↔ p ∈ r.map (·.string)

/-! ### leaf-typed searches (for the "/**" rule) -/

/-- the first `n` levels of the string of `y` -/
def rootOfSid (n : Nat) (y : Sid) : Str := Str.joinWith '/' ((Str.splitOn '/' y.string).take n)

/-- `y` is of a LEAF type with respect to its first `n` levels: its last key is the leaf key of the
    basetype of that root -/
def LeafTyped (c : Ctx) (n : Nat) (y : Sid) : Prop :=
  ∃ lk, rootLeafKey c (rootOfSid n y) = some lk ∧ Ctx.keytype y = some lk

/-! ### replacing a segment -/

/-- the expression `s` with its segment number `i` replaced by `v` -/
def setSeg (s : Str) (i : Nat) (v : Str) : Str := Str.joinWith '/' ((Str.splitOn '/' s).set i v)

/-- segment number `i` of `s` (empty when there is none) -/
def segAt (s : Str) (i : Nat) : Str := ((Str.splitOn '/' s)[i]?).getD []

end Spec
