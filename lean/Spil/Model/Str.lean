/-
  Spil.Model.Str — Python `str` operations used by Spil, over `List Char`.

  Everything is structurally recursive (so that `decide +kernel` can evaluate it) and mirrors the
  CPython semantics of the method named in each doc comment.  No imports outside core Lean.
-/

abbrev Str := List Char

/-- ordered association list with Python `dict` semantics (see `Dict.set`) -/
abbrev Dict := List (Str × Str)

namespace Str

/-- `s.split(sep)` for a one-character `sep`: always at least one piece -/
def splitOn (sep : Char) : Str → List Str
  | [] => [[]]
  | c :: cs =>
    if c = sep then [] :: splitOn sep cs
    else match splitOn sep cs with
      | [] => [[c]]   -- unreachable, see `splitOn_ne_nil`
      | p :: ps => (c :: p) :: ps

/-- `sep.join(ps)` for a one-character `sep` -/
def joinWith (sep : Char) : List Str → Str
  | [] => []
  | [p] => p
  | p :: q :: ps => p ++ sep :: joinWith sep (q :: ps)

/-- `sep.join(ps)` for a string `sep` -/
def joinStr (sep : Str) : List Str → Str
  | [] => []
  | [p] => p
  | p :: q :: ps => p ++ sep ++ joinStr sep (q :: ps)

/-- `s.split(sep, 1)` for a one-character `sep`: `(before, some after)` at the first `sep`,
    `(s, none)` when `sep` does not occur -/
def split1 (sep : Char) : Str → Str × Option Str
  | [] => ([], none)
  | c :: cs =>
    if c = sep then ([], some cs)
    else match split1 sep cs with
      | (a, b) => (c :: a, b)

/-- `sub in s` for a one-character `sub` -/
def hasChar (c : Char) (s : Str) : Bool := s.any (· == c)

/-- `s.count(c)` for a one-character `c` -/
def countChar (c : Char) (s : Str) : Nat := (s.filter (· == c)).length

/-- `s.startswith(p)` -/
def startsWith (s p : Str) : Bool := p.isPrefixOf s

/-- `s.endswith(p)` -/
def endsWith (s p : Str) : Bool := p.reverse.isPrefixOf s.reverse

/-- `s.replace(find, rep)` for non-empty `find` (all non-overlapping occurrences, left to right).
    `skip` counts characters of an already replaced occurrence that remain to be dropped. -/
def replaceGo (find rep : Str) : Nat → Str → Str
  | _, [] => []
  | k + 1, _ :: cs => replaceGo find rep k cs
  | 0, c :: cs =>
    if find.isPrefixOf (c :: cs) then rep ++ replaceGo find rep (find.length - 1) cs
    else c :: replaceGo find rep 0 cs

def replace (s find rep : Str) : Str :=
  if find.isEmpty then s else replaceGo find rep 0 s

/-- `s.count(sub)` for non-empty `sub` (non-overlapping) -/
def countGo (sub : Str) : Nat → Str → Nat
  | _, [] => 0
  | k + 1, _ :: cs => countGo sub k cs
  | 0, c :: cs =>
    if sub.isPrefixOf (c :: cs) then 1 + countGo sub (sub.length - 1) cs
    else countGo sub 0 cs

def count (s sub : Str) : Nat := if sub.isEmpty then s.length + 1 else countGo sub 0 s

/-- `sub in s` -/
def isInfix (sub : Str) : Str → Bool
  | [] => sub.isEmpty
  | c :: cs => sub.isPrefixOf (c :: cs) || isInfix sub cs

/-- `s.split(sep)` for a non-empty multi-character `sep`; pieces are accumulated in reverse in `cur` -/
def splitStrGo (sep : Str) : Nat → Str → Str → List Str
  | _, cur, [] => [cur.reverse]
  | k + 1, cur, _ :: cs => splitStrGo sep k cur cs
  | 0, cur, c :: cs =>
    if sep.isPrefixOf (c :: cs) then cur.reverse :: splitStrGo sep (sep.length - 1) [] cs
    else splitStrGo sep 0 (c :: cur) cs

def splitStr (s sep : Str) : List Str := splitStrGo sep 0 [] s

/-- Python's `str.isspace` for one character, restricted to what `str.strip()` removes:
    the Unicode whitespace table of CPython (`_PyUnicode_IsWhitespace`). -/
def isPySpace (c : Char) : Bool :=
  let n := c.toNat
  (9 ≤ n && n ≤ 13) || (28 ≤ n && n ≤ 32) || n == 0x85 || n == 0xA0 || n == 0x1680 ||
  (0x2000 ≤ n && n ≤ 0x200A) || n == 0x2028 || n == 0x2029 || n == 0x202F || n == 0x205F ||
  n == 0x3000

def lstrip : Str → Str
  | [] => []
  | c :: cs => if isPySpace c then lstrip cs else c :: cs

/-- `s.strip()` -/
def strip (s : Str) : Str := (lstrip (lstrip s).reverse).reverse

/-- lexicographic `<` on code points (Python `str.__lt__`) -/
def lt : Str → Str → Bool
  | [], [] => false
  | [], _ :: _ => true
  | _ :: _, [] => false
  | a :: as, b :: bs => if a.toNat < b.toNat then true else if a.toNat > b.toNat then false else lt as bs

/-- lexicographic `<` on lists of strings (Python `list.__lt__` on lists of `str`) -/
def ltList : List Str → List Str → Bool
  | [], [] => false
  | [], _ :: _ => true
  | _ :: _, [] => false
  | a :: as, b :: bs => if lt a b then true else if lt b a then false else ltList as bs

/-- three ASCII digits, zero padded: `'%03d' % n` (wider when `n ≥ 1000`, as in Python) -/
def natDigits : Nat → Nat → List Char
  | 0, _ => []
  | fuel + 1, n => if n < 10 then [Char.ofNat (48 + n)] else natDigits fuel (n / 10) ++ [Char.ofNat (48 + n % 10)]

def pad3 (n : Nat) : Str :=
  let d := natDigits (n + 1) n
  List.replicate (3 - d.length) '0' ++ d

end Str

namespace Dict

def get (d : Dict) (k : Str) : Option Str := d.lookup k

def keys (d : Dict) : List Str := d.map (·.1)

def values (d : Dict) : List Str := d.map (·.2)

def hasKey (d : Dict) (k : Str) : Bool := d.any (·.1 == k)

/-- `d[k] = v`: an existing key keeps its position, a new key is appended -/
def set : Dict → Str → Str → Dict
  | [], k, v => [(k, v)]
  | (k', v') :: rest, k, v => if k' == k then (k', v) :: rest else (k', v') :: set rest k v

/-- `d.pop(k, None)` -/
def erase (d : Dict) (k : Str) : Dict := d.filter (·.1 != k)

/-- `dict(pairs)` / `d.update(pairs)` -/
def update (d : Dict) (pairs : List (Str × Str)) : Dict := pairs.foldl (fun acc p => set acc p.1 p.2) d

def ofPairs (pairs : List (Str × Str)) : Dict := update [] pairs

/-- `set(d.keys()) == set(ks)` -/
def keysEq (d : Dict) (ks : List Str) : Bool :=
  d.all (fun p => ks.contains p.1) && ks.all (fun k => hasKey d k)

end Dict
