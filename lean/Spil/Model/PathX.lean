/-
  Spil.Model.PathX — `fs_resolver.path_to_dict` / `dict_to_path` WITH the two configuration features
  the shipped configurations leave empty: a value mapping for one type (`path_mapping[(key, type)]`)
  and extra path keys computed from a sid key (`sidkeys_to_extrakeys` / `extrakeys_to_sidkeys`).

  `Spil.Model.Path` is the model all theorems are about; it has no such features.  This file is the
  model of the whole code of the two functions; `pathToDictX_eq` / `dictToPathX_eq` / `sidPathX_eq` /
  `pathToSidX_eq` / `sidOfPathX_eq` prove that it IS `Spil.Model.Path` for every configuration that
  leaves the three tables empty (`PathConf.plain`, decidable; kernel-checked for the shipped
  configurations by `Tie.demo_paths_plain`).  The driver computes paths with THIS model, so the
  correspondence check also covers configurations that use the features (generated ones; no theorem
  about C05 / C06 is claimed for them).
-/
import Spil.Model.Path

/-- the configuration uses neither a typed mapping nor extra keys -/
def PathConf.plain (pc : PathConf) : Bool :=
  pc.typedMapping.isEmpty && pc.sidToExtra.isEmpty && pc.extraToSid.isEmpty

namespace Ctx

/-- the mapping loop of `path_to_dict` with the type-specific mapping: the globally mapped value is
    mapped again by `path_mapping[(key, template)]` when that table is non-empty (only keys that
    have a non-empty GLOBAL table are looked at) -/
def mapToSidX (pc : PathConf) (template : Str) (data : Dict) : Dict :=
  data.map (fun (k, v) =>
    match pc.mapping.lookup k with
    | some m =>
      if m.isEmpty then (k, v) else
      let v1 := (m.lookup v).getD v
      match pc.typedMapping.lookup (k, template) with
      | some tm => if tm.isEmpty then (k, v1) else (k, (tm.lookup v1).getD v1)
      | none => (k, v1)
    | none => (k, v))

/-- "mapping from extra keys": for every extra key present in the data, every sid key it decides
    is SET (overwritten, or added) to the mapped value when that value is non-empty -/
def extraToSidStep (pc : PathConf) (data : Dict) : Dict :=
  pc.extraToSid.foldl (fun d (ne : Str × List (Str × List (Str × Str))) =>
    if d.hasKey ne.1 then
      ne.2.foldl (fun d (kd : Str × List (Str × Str)) =>
        match d.get ne.1 with
        | none => d
        | some ev =>
          match kd.2.lookup ev with
          | some r => if r.isEmpty then d else d.set kd.1 r
          | none => d) d
    else d) data

/-- `fs_resolver.path_to_dict(path, _type, config)`, whole -/
def pathToDictX (c : Ctx) (pc : PathConf) (path : Str) (ty : Option Str) : Except Err (Option (Str × Dict)) :=
  let forced := match ty with | some t => !t.isEmpty | none => false
  let resolved : Except Err (Option (Str × Dict)) :=
    if forced then
      match Resolver.resolveOne c.env pc.resolver path (ty.getD []) with
      | .error x => .error x
      | .ok none => .ok none
      | .ok (some d) => .ok (some (ty.getD [], d))
    else Resolver.resolveFirst c.env pc.resolver path
  match resolved with
  | .error .resolva => .ok none
  | .error x => .error x
  | .ok none => .ok none
  | .ok (some (template, data0)) =>
    let data := extraToSidStep pc (mapToSidX pc template data0)
    let sidType := ((Str.splitStr template c.cfg.sid.sep).head?).getD []
    match c.cfg.sid.keyTypes.lookup sidType with
    | none => .error .type
    | some keys =>
      -- `data.keys() != r.get_keys_for(template)`: an extra-key mapping ADDED a key
      if !(data.keysEq data0.keys) then .error .spil else
      .ok (some (template, (keys.filter (fun k => data.hasKey k)).map (fun k => (k, (data.get k).getD []))))

/-- `str(None)` -/
def noneStr : Str := ['N', 'o', 'n', 'e']

/-- "adding extra keys": `data[new_key] = mapping.get(data.get(key))` for every configured sid key
    present in the data (a value the table does not list gives `None`, which renders as "None") -/
def addExtraKeys (pc : PathConf) (data : Dict) : Dict :=
  pc.sidToExtra.foldl (fun d (kn : Str × List (Str × List (Str × Str))) =>
    if d.hasKey kn.1 then
      kn.2.foldl (fun d (nm : Str × List (Str × Str)) =>
        d.set nm.1 (((d.get kn.1).bind (fun v => nm.2.lookup v)).getD noneStr)) d
    else d) data

/-- the value loops of `dict_to_path`, whole: defaults for empty values, reverse mapping (global,
    then the type-specific table on the ORIGINAL value), defaults for missing template keys, extra keys -/
def pathDataX (pc : PathConf) (ty : Str) (data : Dict) (templateKeys : List Str) : Dict :=
  let data := data.map (fun (k, v) =>
    match pc.defaults.lookup k with
    | some d => if v.isEmpty && !d.isEmpty then (k, d) else (k, v)
    | none => (k, v))
  let data := data.map (fun (k, v) =>
    match pc.mapping.lookup k with
    | some m =>
      if v.isEmpty || m.isEmpty then (k, v) else
      match pc.typedMapping.lookup (k, ty) with
      | some tm => if tm.isEmpty then (k, getKey m v) else (k, getKey tm v)
      | none => (k, getKey m v)
    | none => (k, v))
  let data : Dict := templateKeys.foldl (fun (d : Dict) k =>
    match pc.defaults.lookup k with
    | some dv => if !d.hasKey k && !dv.isEmpty then d ++ [(k, dv)] else d
    | none => d) data
  addExtraKeys pc data

/-- `fs_resolver.dict_to_path(data, _type, config)`, whole -/
def dictToPathX (c : Ctx) (pc : PathConf) (data : Dict) (ty : Str) : Except Err Str :=
  if data.isEmpty then .error .spil else
  match pc.resolver.lookup ty with
  | none => .error .spil
  | some t =>
    let keys := Template.keys t
    if keys.isEmpty then .error .spil else
    let data := pathDataX pc ty data keys
    if !(data.keysEq keys) then .error .spil else
    match Template.format t data with
    | none => .error .key
    | some path =>
      match Resolver.formatOne c.env pc.resolver data ty with
      | .error x => .error x
      | .ok checked =>
        if checked == some path then .ok (PurePath.normalize path) else .error .spil

def sidPathX (c : Ctx) (config : Option Str) (x : Sid) : Except Err (Option Str) :=
  if x.fields.isEmpty then .ok none else
  match c.cfg.pathConf? config with
  | none => .error .other
  | some pc =>
    match c.dictToPathX pc x.fields x.type with
    | .ok p => .ok (some p)
    | .error .spil => .ok none
    | .error e => .error e

def pathToSidX (c : Ctx) (path : Str) (config : Option Str) : Except Err (Option Sid) :=
  match c.cfg.pathConf? config with
  | none => .error .other
  | some pc =>
    match c.pathToDictX pc path none with
    | .error e => .error e
    | .ok none => .ok none
    | .ok (some (ty, fields)) =>
      if fields.isEmpty then .ok none else
      match c.dictToSidStr fields ty with
      | .error e => .error e
      | .ok s =>
        if s.isEmpty then .ok none else
        let x : Sid := ⟨s, ty, fields⟩
        match c.sidPathX config x with
        | .error e => .error e
        | .ok p => if p == some path then .ok (some x) else .ok none

def sidOfPathX (c : Ctx) (path : Str) (config : Option Str) : Except Err Sid :=
  if path.isEmpty then .ok Sid.empty else
  match c.pathToSidX path config with
  | .error e => .error e
  | .ok r => .ok (r.getD Sid.empty)

end Ctx
