/-
  Spil.Model.Find — model of `glob2re`, `FindInList`, `FindByGlob.sorted_search`,
  `Finder.find / find_one / exists` and `TypedSid.match`.
-/
import Spil.Model.Unfold

namespace Find

/-- `glob2re(pat)` as a regex; `none` when the pattern contains `[` (character classes are
    outside the model: known finding K2) -/
def glob2re : Str → Option (List Re)
  | [] => some []
  | c :: cs =>
    if c == '[' then none else
    match glob2re cs with
    | none => none
    | some rest =>
      if c == '*' then some (Re.star .notSlash :: rest)
      else if c == '?' then some (Re.cls .notSlash :: rest)
      else some (Re.cls (.lit c) :: rest)

/-- `re.match(glob2re(pat), item)` -/
def globMatch (e : Env) (pat item : Str) : Except Err Bool :=
  match glob2re pat with
  | none => .error .oom
  | some items => .ok ((Re.mkSeq items).matchZ e item)

/-- constructor arguments of `FindInList` -/
structure ListFinder where
  searchlist : List Str
  doStrip : Bool
  deriving Repr

/-- `FindInList(searchlist, do_extrapolate, do_pre_sort, do_strip)` -/
def mkListFinder (l : List Str) (doExtrapolate doPreSort doStrip : Bool) : ListFinder :=
  let l := if doExtrapolate then Ctx.extrapolateStrs l [] else l
  let l := if doPreSort then Lst.sortBy Str.lt (Lst.dedupBy (· == ·) l) else l
  ⟨l, doStrip⟩

/-- scan of the list for one pattern, `done` = items already yielded -/
def scanList (e : Env) (re : Re) (doStrip : Bool) : List Str → List Str → List Str × List Str
  | [], done => ([], done)
  | item :: rest, done =>
    if re.matchZ e item && !done.contains item then
      let (more, done) := scanList e re doStrip rest (done ++ [item])
      ((if doStrip then Str.strip item else item) :: more, done)
    else scanList e re doStrip rest done

/-- `FindInList.star_search(search_sids, as_sid=False)` on the strings of the search Sids -/
def starSearchGo (e : Env) (f : ListFinder) : List Str → List Str → Except Err (List Str)
  | [], _ => .ok []
  | pat :: rest, done =>
    match glob2re pat with
    | none => .error .oom
    | some items =>
      let (out, done) := scanList e (Re.mkSeq items) f.doStrip f.searchlist done
      match starSearchGo e f rest done with
      | .error x => .error x
      | .ok more => .ok (out ++ more)

def starSearch (e : Env) (f : ListFinder) (pats : List Str) : Except Err (List Str) :=
  starSearchGo e f pats []

/-- `list.index('>')` on the segments -/
def indexOfGt : List Str → Option Nat
  | [] => none
  | s :: rest => if s == ['>'] then some 0 else (indexOfGt rest).map (· + 1)

/-- `itertools.groupby(founds, key)` keeping the first of each run -/
def groupHeads (key : Str → List Str) : List Str → List Str
  | [] => []
  | [x] => [x]
  | x :: y :: rest =>
    if key x == key y then
      -- y belongs to x's run: drop it
      match groupHeads key (y :: rest) with
      | [] => [x]
      | _ :: t => x :: t
    else x :: groupHeads key (y :: rest)

/-- `sorted(set(founds), key=lambda x: x.split("/"), reverse=True)` then first of each group -/
def sortedPick (index : Nat) (founds : List Str) : List Str :=
  let sorted := Lst.sortBy (fun a b => Str.ltList (Str.splitOn '/' b) (Str.splitOn '/' a))
    (Lst.dedupBy (· == ·) founds)
  groupHeads (fun x => (Str.splitOn '/' x).take index) sorted

end Find

namespace Ctx

/-- `str(Sid(uri))`: what a Finder's `star_search` sees of a search given as a uri -/
def strOfUri (c : Ctx) (uri : Str) : Except Err Str := (c.sidOfString uri).map (·.string)

/-- `FindByGlob.sorted_search` over a star-search function on strings -/
def sortedSearch (c : Ctx) (star : List Str → Except Err (List Str)) (searches : List Sid) :
    Except Err (List Str) :=
  match searches with
  | [] => .ok []
  | s0 :: _ =>
    match Find.indexOfGt (Str.splitOn '/' s0.string) with
    | none => .error .value
    | some index =>
      let one (x : Sid) : Except Err (List Str) :=
        match c.strOfUri (x.uri.map (fun ch => if ch == '>' then '*' else ch)) with
        | .error e => .error e
        | .ok s => star [s]
      match flatMapE one searches with
      | .error e => .error e
      | .ok founds => .ok (Find.sortedPick index founds)

/-- `FindByGlob.do_find(search_sids, as_sid=False)` over a star-search function -/
def doFindGlob (c : Ctx) (star : List Str → Except Err (List Str)) (searches : List Sid) :
    Except Err (List Str) :=
  if searches.isEmpty then .ok [] else
  if searches.any (fun x => Str.hasChar '>' x.string) then c.sortedSearch star searches
  else star (searches.map (·.string))

/-- `is_alias_search(sid)` -/
def isAliasSearch (c : Ctx) (x : Sid) : Bool :=
  (c.cfg.sid.extensionAlias.lookup (((Str.splitOn '/' x.string).getLast?).getD [])).isSome

/-- the search Sids `Finder.find(search)` hands to `do_find` (`search` given as a string) -/
def findSearches (c : Ctx) (search : Str) : Except Err (List Sid) :=
  match c.sidOfString search with
  | .error e => .error e
  | .ok sid =>
    if sid.typed && !c.isSearch sid && !c.isAliasSearch sid && !Str.hasChar '?' sid.string then .ok [sid]
    else c.unfoldSearch search false false

/-- `FindInList(...).find(search, as_sid=False)` -/
def findInList (c : Ctx) (f : Find.ListFinder) (search : Str) : Except Err (List Str) :=
  match c.findSearches search with
  | .error e => .error e
  | .ok searches => c.doFindGlob (Find.starSearch c.env f) searches

/-- `sid.match(search)` (`x` built from a string, `search` a string) -/
def sidMatch (c : Ctx) (x : Sid) (search : Str) : Except Err Bool :=
  match c.sidOfString search with
  | .error e => .error e
  | .ok s =>
    if s.eqv x then .ok true else
    if x.fields.isEmpty then .ok false else
    match c.findInList ⟨[x.string], false⟩ search with
    | .error e => .error e
    | .ok found => .ok (found.head? == some x.string)

end Ctx
