/-
  Spil.Model.Query — model of `spil.sid.core.query_helper`.
-/
import Spil.Model.Conf

namespace Query

/-- characters for which `urllib.parse` does more than the model does (`%xx`, `+` → space) -/
def outOfModel (s : Str) : Bool := s.any (fun c => c == '%' || c == '+')

/-- drop everything from the first `#` on (fragment) -/
def cutFragment : Str → Str
  | [] => []
  | c :: cs => if c == '#' then [] else c :: cutFragment cs

/-- `parse_qsl` on the pieces: keep `name=value` with a non-empty value -/
def parsePairs : List Str → List (Str × Str)
  | [] => []
  | nv :: rest =>
    match Str.split1 '=' nv with
    | (_, none) => parsePairs rest
    | (name, some value) => if value.isEmpty then parsePairs rest else (name, value) :: parsePairs rest

/-- `query_helper.to_dict` -/
def toDict (q : Str) : Except Err Dict :=
  if outOfModel q then .error .oom else
  let q := q.map (fun c => if c == '?' then '&' else c)
  let q := match q with | '&' :: r => r | _ => q
  let q := if Str.endsWith q ['&'] then q.dropLast else q
  -- urlsplit('?' + q).query
  let q := q.filter (fun c => c != '\t' && c != '\r' && c != '\n')
  let q := cutFragment q
  .ok (Dict.ofPairs (parsePairs (Str.splitOn '&' q)))

def noSpace (s : Str) : Str := s.filter (· != ' ')

/-- `query_helper.to_string` -/
def toString (d : Dict) : Str :=
  Str.joinWith '&' (d.map (fun (k, v) => noSpace k ++ '=' :: noSpace v))

/-- the loop body of `query_helper.update` (option prefix `~`) -/
def updateGo : Dict → List (Str × Str) → Dict
  | data, [] => data
  | data, (k, v) :: rest =>
    let optional := Str.startsWith v ['~']
    let v := if optional then v.filter (· != '~') else v
    if data.hasKey k || !optional then updateGo (Dict.set data k v) rest else updateGo data rest

/-- `query_helper.update(data, query)` -/
def update (data : Dict) (query : Str) : Except Err Dict :=
  match toDict query with
  | .error x => .error x
  | .ok nd => .ok (updateGo data nd)

end Query
