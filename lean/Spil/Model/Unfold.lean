/-
  Spil.Model.Unfold — model of the search "unfolders" (`spil/sid/read/unfolders/*`,
  `spil/sid/core/utils.py`, `spil/sid/read/tools.py`).
-/
import Spil.Model.Sid

namespace Lst

/-- stable insertion sort (Python `sorted` for a strict order given as `lt`) -/
def insertBy {α} (lt : α → α → Bool) (x : α) : List α → List α
  | [] => [x]
  | y :: ys => if lt x y then x :: y :: ys else y :: insertBy lt x ys

def sortBy {α} (lt : α → α → Bool) : List α → List α
  | [] => []
  | x :: xs => insertBy lt x (sortBy lt xs)

/-- keep the first occurrence of each element (`eq` decides equality) -/
def dedupBy {α} (eq : α → α → Bool) : List α → List α
  | [] => []
  | x :: xs => x :: (dedupBy eq xs).filter (fun y => !eq x y)

/-- `l[l.index(old)] = new` when `old in l` -/
def replaceFirst {α} [BEq α] (old new : α) : List α → List α
  | [] => []
  | y :: ys => if y == old then new :: ys else y :: replaceFirst old new ys

end Lst

namespace Ctx

/-! ### `unfolders/extensions.py` -/

/-- `handle_extension(extension_string)` -/
def handleExtension (c : Ctx) (s : Str) : Str :=
  if s.isEmpty then [] else
  let exts := if Str.hasChar ',' s then (Str.splitOn ',' s).map Str.strip else [s]
  let result := exts.flatMap (fun ext => (c.cfg.sid.extensionAlias.lookup ext).getD [ext])
  Str.joinWith ',' (Lst.sortBy Str.lt (Lst.dedupBy (· == ·) result))

/-- the distinct values of `leaf_keys` -/
def leafKeyNames (c : Ctx) : List Str := Lst.dedupBy (· == ·) (c.cfg.sid.leafKeys.map (·.2))

/-- `extensions(sid)` -/
def extensions (c : Ctx) (sid : Str) : Except Err Str :=
  let (body, query) :=
    match Str.split1 '?' sid with
    | (a, some q) => (a, q)
    | (a, none) => (a, [])
  let parts := Str.splitOn '/' body
  let newsid := parts.dropLast ++ [c.handleExtension ((parts.getLast?).getD [])]
  if query.isEmpty then .ok (Str.joinWith '/' newsid) else
  match Query.toDict query with
  | .error x => .error x
  | .ok qd =>
    let qd := c.leafKeyNames.foldl (fun d k =>
      match d.get k with
      | some v => if v.isEmpty then d else Dict.set d k (c.handleExtension v)
      | none => d) qd
    let q := Query.toString qd
    .ok (Str.joinWith '/' newsid ++ (if q.isEmpty then [] else '?' :: q))

/-! ### `unfolders/or_op.py` -/

def startMark : Str := ['-', '-', 's', 't', 'a', 'r', 't', '-', '-']

/-- one alternative of an or-part: `for sid in current.copy(): …` -/
def orAlt (alt : Str) : List Str → List Str → List Str
  | [], found => found
  | sid :: rest, found =>
    let new := sid ++ '/' :: alt
    let found := if found.contains sid then Lst.replaceFirst sid new found else found ++ [new]
    orAlt alt rest found

/-- the non-or branch: `for sid in found.copy(): found[found.index(sid)] = new` -/
def orPlain (part : Str) : List Str → List Str → List Str
  | [], found => found
  | sid :: rest, found => orPlain part rest (Lst.replaceFirst sid (sid ++ '/' :: part) found)

def orParts : List Str → List Str → List Str
  | [], found => found
  | part :: rest, found =>
    let current := found
    let found :=
      if Str.hasChar ',' part then
        ((Str.splitOn ',' part).map Str.strip).foldl (fun f alt => orAlt alt current f) found
      else orPlain part found found
    orParts rest found

/-- the final loop of `or_on_path` (its duplicate test compares un-replaced with replaced strings) -/
def orFinish : List Str → List Str → List Str
  | [], result => result
  | sid :: rest, result =>
    if result.contains sid then orFinish rest result
    else orFinish rest (result ++ [Str.replace sid (startMark ++ ['/']) []])

/-- `or_on_path(sid)` -/
def orOnPath (sid : Str) : List Str :=
  orFinish (orParts (Str.splitOn '/' sid) [startMark]) []

/-- the loop of `or_on_query` over the items of the query dict -/
def orQueryGo : List (Str × Str) → List Dict → List Dict
  | [], result => result
  | (k, v) :: rest, result =>
    if Str.hasChar ',' v then
      orQueryGo rest ((Str.splitOn ',' v).flatMap (fun i => result.map (fun d => Dict.set d k i)))
    else orQueryGo rest result

/-- `or_on_query(query)` -/
def orOnQuery (query : Str) : Except Err (List Str) :=
  match Query.toDict query with
  | .error x => .error x
  | .ok qd => .ok ((orQueryGo qd [qd]).map Query.toString)

/-- `or_op(sid)` -/
def orOp (sid : Str) : Except Err (List Str) :=
  if !Str.hasChar ',' sid then .ok [sid] else
  let (body, query) :=
    match Str.split1 '?' sid with
    | (a, some q) => (a, q)
    | (a, none) => (a, [])
  let sids := orOnPath body
  if query.isEmpty then .ok sids else
  match orOnQuery query with
  | .error x => .error x
  | .ok uris => .ok (sids.flatMap (fun s => uris.map (fun u => s ++ '?' :: u)))

/-! ### `core/utils.py`: `simple_typing`, `expand`, `extrapolate` -/

/-- `sorted(set(sids), key=lambda s: (s.string, s.type))` -/
def sortSids (sids : List Sid) : List Sid :=
  Lst.sortBy (fun a b => Str.lt a.string b.string || (a.string == b.string && Str.lt a.type b.type))
    (Lst.dedupBy Sid.eqv sids)

/-- sequence an `Except` over a list -/
def mapE {α β} (f : α → Except Err β) : List α → Except Err (List β)
  | [] => .ok []
  | x :: xs =>
    match f x with
    | .error e => .error e
    | .ok y => match mapE f xs with
      | .error e => .error e
      | .ok ys => .ok (y :: ys)

def flatMapE {α β} (f : α → Except Err (List β)) (xs : List α) : Except Err (List β) :=
  match mapE f xs with
  | .error e => .error e
  | .ok yss => .ok yss.flatten

/-- `Sid(type:string?query)` or `Sid(type:string)` -/
def typedSearch (c : Ctx) (ty s query : Str) : Except Err Sid :=
  if query.isEmpty then c.sidOfString (ty ++ ':' :: s) else c.sidOfString (ty ++ ':' :: s ++ '?' :: query)

/-- `simple_typing(sid)`; result compared up to order (it comes out of a `set`) -/
def simpleTyping (c : Ctx) (sid : Str) : Except Err (List Sid) :=
  let (body, query) :=
    match Str.split1 '?' sid with
    | (a, some q) => (a, q)
    | (a, none) => (a, [])
  let root := ((Str.splitStr body ['/', '*']).head?).getD []
  match c.sidOfString root with
  | .error x => .error x
  | .ok rootSid =>
    match c.basetype rootSid with
    | none => (c.sidOfString sid).map (fun x => [x])
    | some _ =>
      match c.sidToDicts body with
      | .error x => .error x
      | .ok matching =>
        match mapE (fun (p : Str × Dict) => c.typedSearch p.1 body query) matching with
        | .error x => .error x
        | .ok result =>
          if result.isEmpty then (c.sidOfString sid).map (fun x => [x])
          else .ok (sortSids result)

/-- number of placeholders -/
def countPh : Template → Nat
  | [] => 0
  | .lit _ :: r => countPh r
  | .ph _ _ :: r => 1 + countPh r

/-- `len(list(string.Formatter().parse(template)))` -/
def tplKeysLen (t : Template) : Nat :=
  countPh t + (match t.getLast? with | some (.lit _) => 1 | _ => 0)

def tplLastKey (t : Template) : Option Str :=
  match t.getLast? with
  | some (.ph k _) => some k
  | _ => none

structure ExpandSt where
  tested : List Str
  found : List Str
  result : List Sid

/-- the inner loop of `expand` over the types matching one filled-in test string -/
def expandMatching (c : Ctx) (test query : Str) (leafKey : Option Str) (doExtrapolate : Bool) :
    List (Str × Dict) → ExpandSt → Except Err ExpandSt
  | [], st => .ok st
  | (ty, data) :: rest, st =>
    let st := { st with found := st.found ++ [ty] }
    if !data.isEmpty && (doExtrapolate || (data.getLast?.map (·.1)) == leafKey) then
      match c.typedSearch ty test query with
      | .error x => .error x
      | .ok ns => expandMatching c test query leafKey doExtrapolate rest { st with result := st.result ++ [ns] }
    else expandMatching c test query leafKey doExtrapolate rest st

/-- the template loop of `expand` -/
def expandGo (c : Ctx) (sid query : Str) (leafKey : Option Str) (doExtrapolate : Bool) :
    List (Str × Template) → ExpandSt → Except Err ExpandSt
  | [], st => .ok st
  | (key, t) :: rest, st =>
    if st.found.contains key then expandGo c sid query leafKey doExtrapolate rest st else
    if doExtrapolate || tplLastKey t == leafKey then
      let count := tplKeysLen t - 1
      let current := Str.countChar '/' sid
      let needed := count + 1 - current
      let test := Str.replace sid ['/', '*', '*'] (List.replicate needed ['/', '*']).flatten
      if st.tested.contains test then expandGo c sid query leafKey doExtrapolate rest st else
      match c.sidToDicts test with
      | .error x => .error x
      | .ok matching =>
        match expandMatching c test query leafKey doExtrapolate matching
            { st with tested := st.tested ++ [test] } with
        | .error x => .error x
        | .ok st => expandGo c sid query leafKey doExtrapolate rest st
    else expandGo c sid query leafKey doExtrapolate rest st

/-- `expand(sid, do_extrapolate)`; result compared up to the order of equal strings -/
def expand (c : Ctx) (sid0 : Str) (doExtrapolate : Bool) : Except Err (List Sid) :=
  let n := Str.count sid0 ['/', '*', '*']
  if n == 0 then c.simpleTyping sid0 else
  if n > 1 then .error .spil else
  let (sid, query) :=
    match Str.split1 '?' sid0 with
    | (a, some q) => (a, q)
    | (a, none) => (a, [])
  let root := ((Str.splitStr sid ['/', '*', '*']).head?).getD []
  match c.sidOfString root with
  | .error x => .error x
  | .ok rootSid =>
    match c.basetype rootSid with
    | none => .error .spil
    | some bt =>
      let leafKey := c.cfg.sid.leafKey (some bt)
      if !doExtrapolate && (leafKey.isNone || leafKey == some []) then .error .spil else
      match expandGo c sid query leafKey doExtrapolate c.cfg.sid.templates ⟨[], [], []⟩ with
      | .error x => .error x
      | .ok st => .ok (sortSids st.result)

/-- prefixes generated by `extrapolate` for one sid: `parts[:-i]` for i = 1.. until one is known -/
def extrapolateParents : Nat → List Str → List Str → List Str × List Str
  | 0, _, generated => ([], generated)
  | n + 1, parts, generated =>
    -- `parts` = parts[:-(i-1)] ; the new sid drops one more
    let p := parts.dropLast
    if p.isEmpty then ([], generated) else
    let ns := Str.joinWith '/' p
    if generated.contains ns then ([], generated) else
    let (more, g) := extrapolateParents n p (generated ++ [ns])
    (ns :: more, g)

/-- `extrapolate(sids)` as strings (shared `generated` set over the whole call) -/
def extrapolateStrs : List Str → List Str → List Str
  | [], _ => []
  | sid :: rest, generated =>
    let generated := generated ++ [sid]
    let parts := Str.splitOn '/' sid
    let (ps, generated) := extrapolateParents parts.length parts generated
    sid :: ps ++ extrapolateStrs rest generated

/-! ### `unfolders/typed_narrow.py` and `tools.py` -/

/-- `type_narrow(sid)` (repaired: a Sid with an un-applied query is left alone) -/
def typeNarrow (c : Ctx) (x : Sid) : Except Err Sid :=
  if Str.hasChar '?' x.string then .ok x else
  let q := match c.basetype x with
    | some bt => (c.cfg.sid.basetypedNarrowing.lookup bt).getD []
    | none => []
  let step1 : Except Err Sid := if q.isEmpty then .ok x else c.getWithQuery x q
  match step1 with
  | .error e => .error e
  | .ok x =>
    let q := (c.cfg.sid.typedNarrowing.lookup x.type).getD []
    if q.isEmpty then .ok x else c.getWithQuery x q

/-- the unfolder pipeline of `apply_unfolders` on one string -/
def applyUnfolders (c : Ctx) (sid : Str) (doExtrapolate : Bool) : Except Err (List Sid) :=
  match c.extensions sid with
  | .error e => .error e
  | .ok s1 =>
    match orOp s1 with
    | .error e => .error e
    | .ok s2 =>
      match flatMapE (fun s => c.expand s false) s2 with
      | .error e => .error e
      | .ok s3 =>
        match mapE c.typeNarrow s3 with
        | .error e => .error e
        | .ok s4 =>
          if !doExtrapolate then .ok (sortSids s4) else
          match mapE (fun s => c.sidOfString s)
              (s4.flatMap (fun (x : Sid) => extrapolateStrs [x.string] [])) with
          | .error e => .error e
          | .ok s5 => .ok (sortSids s5)

/-- `uniquify_searches` -/
def uniquify (xs : List Sid) : List Sid := Lst.dedupBy (fun a b => a.string == b.string) xs

/-- `unfold_search(search_sid, do_uniquify, do_extrapolate)` -/
def unfoldSearch (c : Ctx) (s : Str) (doUniquify doExtrapolate : Bool) : Except Err (List Sid) :=
  match c.applyUnfolders s doExtrapolate with
  | .error e => .error e
  | .ok xs =>
    let xs := xs.filter (fun x => x.typed && !Str.hasChar '?' x.string)
    .ok (if doUniquify then uniquify xs else xs)

end Ctx
