/-
  Spil.Model.Template — model of `resolva.template` and `resolva.Resolver`.

  A template is a list of tokens: literal text (which resolva does *not* regex-escape) and
  placeholders `{key:expr}` whose expression has been parsed into the `Re` subset by the translator.
-/
import Spil.Model.Re

inductive Err
  | spil      -- SpilException
  | value     -- ValueError
  | key       -- KeyError
  | type      -- TypeError
  | resolva   -- resolva.utils.ResolvaException
  | json      -- json.JSONDecodeError
  | os        -- OSError
  | notimpl   -- NotImplementedError
  | other
  | oom       -- not an exception: the input is outside a modelled external's subset (never compared)
  deriving DecidableEq, Repr, Inhabited

inductive Tok
  | lit (s : Str)
  | ph (key : Str) (expr : Re)
  deriving DecidableEq, Repr, Inhabited

abbrev Template := List Tok

namespace Template

/-- one character of unescaped literal template text, read as a regular expression -/
def litCls (c : Char) : Cls := if c == '.' then .dot else .lit c

/-- characters of literal template text that resolva would hand to `re` as operators and that the
    subset does not model (the translator refuses such configurations) -/
def litOk (c : Char) : Bool :=
  !(['\\', '^', '$', '*', '+', '?', '{', '}', '[', ']', '(', ')', '|'].contains c)

/-- number of placeholders named `key` among `toks` -/
def countKey (key : Str) : List Tok → Nat
  | [] => 0
  | .lit _ :: rest => countKey key rest
  | .ph k _ :: rest => (if k == key then 1 else 0) + countKey key rest

/-- items of the compiled regular expression; `seen` = tokens to the left (for the group counter) -/
def items : List Tok → List Tok → List Re
  | _, [] => []
  | seen, .lit s :: rest => s.map (fun c => Re.cls (litCls c)) ++ items (seen ++ [.lit s]) rest
  | seen, .ph k e :: rest =>
    Re.grp (k ++ Str.pad3 (countKey k seen + 1)) e :: items (seen ++ [.ph k e]) rest

/-- `resolva.template.construct_regular_expression` (anchors are applied by `Re.search`) -/
def compile (t : Template) : Re := Re.mkSeq (items [] t)

/-- `construct_format_specification`, as the list of tokens itself: formatting walks them -/
def formatStr : Template → Str
  | [] => []
  | .lit s :: rest => s ++ formatStr rest
  | .ph k _ :: rest => '{' :: k ++ '}' :: formatStr rest

/-- `get_keys`, duplicates removed, order of first appearance -/
def keys : Template → List Str
  | [] => []
  | .lit _ :: rest => keys rest
  | .ph k _ :: rest => k :: (keys rest).filter (· != k)

/-- `fmt.format(**data)`; `none` stands for KeyError (never reached behind the key-set test) -/
def format : Template → Dict → Option Str
  | [], _ => some []
  | .lit s :: rest, d => (format rest d).map (s ++ ·)
  | .ph k _ :: rest, d =>
    match d.get k, format rest d with
    | some v, some r => some (v ++ r)
    | _, _ => none

/-- `match_to_dict`: strip the three counter digits, last value wins, optional duplicate check -/
def matchToDict (checkDup : Bool) : Caps → Dict → Except Err Dict
  | [], acc => .ok acc
  | (name, v) :: rest, acc =>
    let key := name.take (name.length - 3)
    match acc.get key with
    | some old =>
      if checkDup && old != v then .error .resolva
      else matchToDict checkDup rest (Dict.set acc key v)
    | none => matchToDict checkDup rest (Dict.set acc key v)

end Template

/-- a `resolva.Resolver`: ordered labelled templates and its duplicate-placeholder flag -/
structure Resolver where
  templates : List (Str × Template)
  checkDup : Bool
  deriving Repr, Inhabited

namespace Resolver

def lookup (r : Resolver) (label : Str) : Option Template := r.templates.lookup label

/-- regex part of `resolve_*`: `none` = no match or empty data (`if data:`) -/
def resolveTpl (e : Env) (checkDup : Bool) (t : Template) (s : Str) : Except Err (Option Dict) :=
  match (t.compile).search e s with
  | none => .ok none
  | some caps =>
    match Template.matchToDict checkDup caps [] with
    | .error x => .error x
    | .ok d => .ok (if d.isEmpty then none else some d)

/-- `Resolver.resolve_one(string, label)`; `none` stands for the empty dict -/
def resolveOne (e : Env) (r : Resolver) (s : Str) (label : Str) : Except Err (Option Dict) :=
  if s.isEmpty then .ok none else
  match r.lookup label with
  | none => .ok none
  | some t => resolveTpl e r.checkDup t s

def resolveFirstGo (e : Env) (checkDup : Bool) (s : Str) :
    List (Str × Template) → Except Err (Option (Str × Dict))
  | [] => .ok none
  | (label, t) :: rest =>
    match resolveTpl e checkDup t s with
    | .error x => .error x
    | .ok (some d) => .ok (some (label, d))
    | .ok none => resolveFirstGo e checkDup s rest

/-- `Resolver.resolve_first(string)` -/
def resolveFirst (e : Env) (r : Resolver) (s : Str) : Except Err (Option (Str × Dict)) :=
  if s.isEmpty then .ok none else resolveFirstGo e r.checkDup s r.templates

def resolveAllGo (e : Env) (checkDup : Bool) (s : Str) :
    List (Str × Template) → Except Err (List (Str × Dict))
  | [] => .ok []
  | (label, t) :: rest =>
    match resolveTpl e checkDup t s with
    | .error x => .error x
    | .ok od =>
      match resolveAllGo e checkDup s rest with
      | .error x => .error x
      | .ok more => .ok (match od with | some d => (label, d) :: more | none => more)

/-- `Resolver.resolve_all(string)` (labels are unique, so the ordered list is the dict) -/
def resolveAll (e : Env) (r : Resolver) (s : Str) : Except Err (List (Str × Dict)) :=
  if s.isEmpty then .ok [] else resolveAllGo e r.checkDup s r.templates

/-- the common body of `format_*` for one label: key-set test, format, reverse check -/
def formatTpl (e : Env) (r : Resolver) (label : Str) (t : Template) (data : Dict) :
    Except Err (Option Str) :=
  if !(data.keysEq t.keys) then .ok none else
  match t.format data with
  | none => .error .key
  | some formatted =>
    match resolveOne e r formatted label with
    | .error x => .error x
    | .ok none => .ok none
    | .ok (some _) => .ok (some formatted)

/-- `Resolver.format_one(data, label)` -/
def formatOne (e : Env) (r : Resolver) (data : Dict) (label : Str) : Except Err (Option Str) :=
  if data.isEmpty then .ok none else
  match r.lookup label with
  | none => .ok none
  | some t => formatTpl e r label t data

def formatAllGo (e : Env) (r : Resolver) (data : Dict) :
    List (Str × Template) → Except Err (List (Str × Str))
  | [] => .ok []
  | (label, t) :: rest =>
    match formatTpl e r label t data with
    | .error x => .error x
    | .ok of =>
      match formatAllGo e r data rest with
      | .error x => .error x
      | .ok more => .ok (match of with | some f => (label, f) :: more | none => more)

/-- `Resolver.format_all(data)` -/
def formatAll (e : Env) (r : Resolver) (data : Dict) : Except Err (List (Str × Str)) :=
  if data.isEmpty then .ok [] else formatAllGo e r data r.templates

def formatFirstGo (e : Env) (r : Resolver) (data : Dict) :
    List (Str × Template) → Except Err (Option (Str × Str))
  | [] => .ok none
  | (label, t) :: rest =>
    match formatTpl e r label t data with
    | .error x => .error x
    | .ok (some f) => .ok (some (label, f))
    | .ok none => formatFirstGo e r data rest

/-- `Resolver.format_first(data)` -/
def formatFirst (e : Env) (r : Resolver) (data : Dict) : Except Err (Option (Str × Str)) :=
  if data.isEmpty then .ok none else formatFirstGo e r data r.templates

end Resolver
