/-
  Spil.Model.Re — the regular-expression subset that Spil configurations and `glob2re` produce,
  with CPython's backtracking priority semantics as a "list of successes".
-/
import Spil.Model.Str

/-- single-character classes -/
inductive Cls
  | lit (c : Char)          -- exactly c (an escaped or ordinary literal)
  | dot                     -- `.`   : any char but '\n'
  | digit                   -- `\d`  : `Env.isDigit` (Unicode decimal digits for `str` patterns)
  | notSlash                -- `[^/]`
  deriving DecidableEq, Repr, Inhabited

/-- parameters of the regex semantics that live in CPython's Unicode tables -/
structure Env where
  isDigit : Char → Bool

def Cls.test (e : Env) : Cls → Char → Bool
  | .lit c, x => x == c
  | .dot, x => x != '\n'
  | .digit, x => e.isDigit x
  | .notSlash, x => x != '/'

inductive Re
  | eps
  | cls (k : Cls)
  | star (k : Cls)              -- greedy `k*`
  | seq (a b : Re)
  | alt (a b : Re)
  | grp (name : Str) (r : Re)   -- `(?P<name>r)`
  | cgrp (r : Re)               -- `(r)`  (numbered group: never read by resolva)
  deriving DecidableEq, Repr, Inhabited

abbrev Caps := List (Str × Str)

/-- a success: what was consumed, what is left, the named groups closed so far (pattern order) -/
abbrev Succ := Str × Str × Caps

/-- greedy star over a class: all splits, longest first -/
def starSplits (e : Env) (k : Cls) : Str → List (Str × Str)
  | [] => [([], [])]
  | c :: cs =>
    if k.test e c then
      (starSplits e k cs).map (fun (m, r) => (c :: m, r)) ++ [([], c :: cs)]
    else [([], c :: cs)]

/-- list of successes in CPython priority order -/
def Re.run (e : Env) : Re → Str → List Succ
  | .eps, s => [([], s, [])]
  | .cls _, [] => []
  | .cls k, c :: cs => if k.test e c then [([c], cs, [])] else []
  | .star k, s => (starSplits e k s).map (fun (m, r) => (m, r, []))
  | .seq a b, s =>
    (a.run e s).flatMap (fun (m1, r1, c1) =>
      (b.run e r1).map (fun (m2, r2, c2) => (m1 ++ m2, r2, c1 ++ c2)))
  | .alt a b, s => a.run e s ++ b.run e s
  | .grp n r, s => (r.run e s).map (fun (m, r', c) => (m, r', c ++ [(n, m)]))
  | .cgrp r, s => r.run e s

/-- `$` without MULTILINE: at the end, or just before a final newline -/
def atDollar (rest : Str) : Bool := rest == [] || rest == ['\n']

/-- `re.compile('^' + r + '$').search(s)`: the first success (priority order) that satisfies `$`.
    (`^` without MULTILINE only matches at position 0, so `search` has a single start position.) -/
def Re.search (e : Env) (r : Re) (s : Str) : Option Caps :=
  ((r.run e s).find? (fun p => atDollar p.2.1)).map (·.2.2)

/-- `re.match(r + '\Z', s)`: the first success that ends at the very end -/
def Re.matchZ (e : Env) (r : Re) (s : Str) : Bool :=
  (r.run e s).any (fun p => p.2.1 == [])

/-- `r` accepts the whole of `s` (declarative reading used in statements) -/
def Re.accepts (e : Env) (r : Re) (s : Str) : Bool := r.matchZ e s

/-- right-nested sequence of a list of items; the canonical form shared with the translator -/
def Re.mkSeq : List Re → Re
  | [] => .eps
  | [a] => a
  | a :: b :: rest => .seq a (mkSeq (b :: rest))

/-- right-nested alternation -/
def Re.mkAlt : List Re → Re
  | [] => .eps
  | [a] => a
  | a :: b :: rest => .alt a (mkAlt (b :: rest))

/-- syntactic: the class can never consume a '/' -/
def Cls.slashFree (e : Env) : Cls → Bool
  | .lit c => c != '/'
  | .dot => false
  | .digit => !e.isDigit '/'
  | .notSlash => true

def Re.slashFree (e : Env) : Re → Bool
  | .eps => true
  | .cls k => k.slashFree e
  | .star k => k.slashFree e
  | .seq a b => a.slashFree e && b.slashFree e
  | .alt a b => a.slashFree e && b.slashFree e
  | .grp _ r => r.slashFree e
  | .cgrp r => r.slashFree e

/-- syntactic: the class can never consume a newline -/
def Cls.nlFree (e : Env) : Cls → Bool
  | .lit c => c != '\n'
  | .dot => true
  | .digit => !e.isDigit '\n'
  | .notSlash => false

def Re.nlFree (e : Env) : Re → Bool
  | .eps => true
  | .cls k => k.nlFree e
  | .star k => k.nlFree e
  | .seq a b => a.nlFree e && b.nlFree e
  | .alt a b => a.nlFree e && b.nlFree e
  | .grp _ r => r.nlFree e
  | .cgrp r => r.nlFree e

/-- no named group inside (expressions of placeholders) -/
def Re.noGrp : Re → Bool
  | .eps => true
  | .cls _ => true
  | .star _ => true
  | .seq a b => a.noGrp && b.noGrp
  | .alt a b => a.noGrp && b.noGrp
  | .grp _ _ => false
  | .cgrp r => r.noGrp
