/-
  Spil.Model.Crash — the primitive file-system effects of `write_paths._write_data` and what a
  process death after any prefix of them leaves behind (C17).

  `json.dumps` / `json.load` are an abstract codec with the two laws the argument needs.
-/
import Spil.Model.Str

namespace Crash

abbrev Bytes := List Nat

/-- `json.dumps(data, indent=4, default=str).encode()` / `json.load` as an abstract codec -/
structure Codec (D : Type) where
  encode : D → Bytes
  decode : Bytes → Option D
  dec_enc : ∀ d, decode (encode d) = some d
  /-- no strict prefix of an encoding decodes (a truncated JSON object is not JSON) -/
  prefix_bad : ∀ d (k : Nat), k < (encode d).length → decode ((encode d).take k) = none

/-- the two files involved: the sidecar and its temporary sibling (`none` = absent) -/
structure Files where
  target : Option Bytes
  tmp : Option Bytes
  deriving DecidableEq, Repr

inductive Eff
  | createTmp            -- open(tmp, 'w'): create or truncate
  | writeTmp (b : Nat)   -- one more byte reaches the file
  | closeTmp
  | replace              -- os.replace(tmp, target): atomic
  | truncTarget          -- open(target, 'w')                  (unrepaired in-place protocol)
  | writeTarget (b : Nat)
  deriving DecidableEq, Repr

def applyEff (f : Files) : Eff → Files
  | .createTmp => { f with tmp := some [] }
  | .writeTmp b => { f with tmp := f.tmp.map (· ++ [b]) }
  | .closeTmp => f
  | .replace => match f.tmp with
    | some t => { target := some t, tmp := none }
    | none => f
  | .truncTarget => { f with target := some [] }
  | .writeTarget b => { f with target := f.target.map (· ++ [b]) }

/-- the repaired protocol: write `<sidecar>.tmp` completely, then rename it over the sidecar -/
def writeEffects (new : Bytes) : List Eff :=
  .createTmp :: new.map .writeTmp ++ [.closeTmp, .replace]

/-- the original protocol: `Path.write_text` on the sidecar itself -/
def inplaceEffects (new : Bytes) : List Eff :=
  .truncTarget :: new.map .writeTarget

/-- the files after the process died having performed the first `k` effects -/
def crashAfter (f : Files) (effs : List Eff) (k : Nat) : Files := (effs.take k).foldl applyEff f

/-- what `GetFromPaths.get_data` reads (without the `sid` entry): `{}` when the sidecar is absent
    or does not decode -/
def readData {D} [Inhabited D] (c : Codec D) (f : Files) : D :=
  match f.target with
  | none => default
  | some b => (c.decode b).getD default

/-- the bytes `_write_data` is about to write: previous data (if the sidecar exists; a sidecar that
    does not decode raises) updated with the new attributes -/
def mergedBytes {D} [Inhabited D] (c : Codec D) (overlay : D → D → D) (f : Files) (attrs : D) :
    Option Bytes :=
  match f.target with
  | none => some (c.encode attrs)
  | some b => (c.decode b).map (fun prev => c.encode (overlay prev attrs))

/-- a complete `set` / `update` (no crash): `none` = JSONDecodeError -/
def setData {D} [Inhabited D] (c : Codec D) (overlay : D → D → D) (f : Files) (attrs : D) : Option Files :=
  (mergedBytes c overlay f attrs).map (fun new => crashAfter f (writeEffects new) (writeEffects new).length)

end Crash
