/-
  Spil.Model.Conf — configuration values and the two `spil.conf.util` functions.
-/
import Spil.Model.Template

/-- what `spil.conf` exposes of `spil_sid_conf` (after `sid_conf_load`) plus the global constants -/
structure SidConf where
  /-- `sidtype_keytype_sep` -/
  sep : Str
  /-- `search_symbols` -/
  searchSymbols : List Str
  /-- effective `sid_templates` (ordered) = Resolver('sid') with check_duplicate_placeholders=False -/
  templates : List (Str × Template)
  keyTypes : List (Str × List Str)
  /-- `leaf_keys`; the first component is `none` for the Python key `None` -/
  leafKeys : List (Option Str × Str)
  extensionAlias : List (Str × List Str)
  basetypedNarrowing : List (Str × Str)
  typedNarrowing : List (Str × Str)
  deriving Repr, Inhabited, DecidableEq

-- staged instances: equality of the nested tables below is beyond the default search depth
instance instDecEqKeyTable : DecidableEq (Str × List (Str × Str)) := inferInstance
instance instDecEqKeyTables : DecidableEq (List (Str × List (Str × Str))) := inferInstance
instance instDecEqExtraEntry : DecidableEq (Str × List (Str × List (Str × Str))) := inferInstance
instance instDecEqExtraTable : DecidableEq (List (Str × List (Str × List (Str × Str)))) := inferInstance

/-- one path configuration (`PathConfig`) -/
structure PathConf where
  name : Str
  templates : List (Str × Template)
  /-- `path_mapping[key]` : path value → sid value, in dictionary order -/
  mapping : List (Str × List (Str × Str))
  defaults : List (Str × Str)
  /-- `search_path_mapping` -/
  searchMapping : List (Str × Str)
  /-- `path_mapping[(key, type)]` : the value mapping of ONE type (path value → sid value); empty in the
      shipped configurations (`Spil.Model.PathX` is the model of the code that reads it) -/
  typedMapping : List ((Str × Str) × List (Str × Str)) := []
  /-- `sidkeys_to_extrakeys` : sid key ↦ extra key ↦ (path-side value of the sid key ↦ value of the extra key) -/
  sidToExtra : List (Str × List (Str × List (Str × Str))) := []
  /-- `extrakeys_to_sidkeys` : extra key ↦ sid key ↦ (value of the extra key ↦ sid value) -/
  extraToSid : List (Str × List (Str × List (Str × Str))) := []
  deriving Repr, Inhabited, DecidableEq

structure Conf where
  sid : SidConf
  /-- `path_configs` in dictionary order, already loaded -/
  paths : List PathConf
  defaultPath : Str
  /-- `path_data_suffix` -/
  dataSuffix : Str
  deriving Repr, Inhabited, DecidableEq

namespace SidConf
def resolver (c : SidConf) : Resolver := { templates := c.templates, checkDup := false }
def template? (c : SidConf) (ty : Str) : Option Template := c.templates.lookup ty
def leafKey (c : SidConf) (basetype : Option Str) : Option Str := c.leafKeys.lookup basetype
end SidConf

namespace PathConf
def resolver (c : PathConf) : Resolver := { templates := c.templates, checkDup := true }
end PathConf

namespace Conf
/-- `get_path_config(name)`: `None`/'' selects the default, else the first configured one -/
def pathConf? (c : Conf) (name : Option Str) : Option PathConf :=
  let n := match name with
    | some n => if n.isEmpty then none else some n
    | none => none
  let n := match n with
    | some n => n
    | none => if c.defaultPath.isEmpty then (c.paths.head?.map (·.name)).getD [] else c.defaultPath
  c.paths.find? (·.name == n)
end Conf

/-! ### `spil.conf.util` -/

namespace ConfUtil

/-- `part.split(':')[0].replace('{', '').replace('}', '')` -/
def keyOfPart (part : Str) : Str :=
  ((Str.split1 ':' part).1).filter (fun c => c != '{' && c != '}')

/-- the inner loop of `extrapolate_templates` for one extrapolated type: `parts` is
    `template.split('/')[:-1]`, `i` counts how many trailing parts have been dropped so far.
    `orig` are the input templates, `acc` the output built so far. -/
def extrapolateOne (sep : Str) (sidType keytype : Str) (orig : List (Str × Str)) :
    Nat → List Str → List (Str × Str) → List (Str × Str)
  | 0, _, acc => acc
  | n + 1, parts, acc =>
    -- `parts` here is parts[:len(parts) - i]; its last element is the part enumerated at step i
    match parts.getLast? with
    | none => acc
    | some part =>
      let key := keyOfPart part
      let newType := sidType.take (sidType.length - keytype.length) ++ key
      let newTemplate := Str.joinWith '/' parts
      let tplTaken := (orig.any (·.2 == newTemplate)) || (acc.any (·.2 == newTemplate))
      let typeTaken := (orig.any (·.1 == newType)) || (acc.any (·.1 == newType))
      let acc' := if tplTaken || typeTaken then acc else acc ++ [(newType, newTemplate)]
      extrapolateOne sep sidType keytype orig n parts.dropLast acc'

/-- last element of `sid_type.split(sep)` -/
def keytypeOf (sep : Str) (sidType : Str) : Str :=
  ((Str.splitStr sidType sep).getLast?).getD []

def extrapolateGo (sep : Str) (toExtrapolate : List Str) (orig : List (Str × Str)) :
    List (Str × Str) → List (Str × Str) → List (Str × Str)
  | [], acc => acc
  | (sidType, template) :: rest, acc =>
    let acc := Dict.set acc sidType template
    let acc :=
      if toExtrapolate.contains sidType then
        let parts := (Str.splitOn '/' template).dropLast
        extrapolateOne sep sidType (keytypeOf sep sidType) orig parts.length parts acc
      else acc
    extrapolateGo sep toExtrapolate orig rest acc

/-- `extrapolate_templates(sid_templates, to_extrapolate)` -/
def extrapolateTemplates (sep : Str) (templates : List (Str × Str)) (toExtrapolate : List Str) :
    List (Str × Str) :=
  extrapolateGo sep toExtrapolate templates templates []

/-- apply the replacements of one selector, in dictionary order -/
def applyReplacements (template : Str) : List (Str × Str) → Str
  | [] => template
  | (find, rep) :: rest => applyReplacements (Str.replace template find rep) rest

def replaceForType (keyPatterns : List (Str × List (Str × Str))) (ty : Str) (template : Str) : Str :=
  keyPatterns.foldl (fun t (m, reps) => if Str.isInfix m ty then applyReplacements t reps else t) template

/-- `pattern_replacing(sid_templates, key_patterns)` (returns the updated mapping) -/
def patternReplacing (templates : List (Str × Str)) (keyPatterns : List (Str × List (Str × Str))) :
    List (Str × Str) :=
  templates.map (fun (ty, t) => (ty, replaceForType keyPatterns ty t))

end ConfUtil
