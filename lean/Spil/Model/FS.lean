/-
  Spil.Model.FS — an abstract file tree and the code that reads / writes it:
  `glob.glob`, `FindInPaths`, `FindInConstants`, `FindInAll`, `WriteToPaths`, `GetFromPaths`,
  `GetFromAll`, the demo `NextGetter`, and the `DataSid` calls.

  The operating system is a parameter of the model: a `World` is the set of existing paths
  (files and directories) plus the content of the sidecar files.  Attribute values are opaque
  JSON texts.
-/
import Spil.Model.Path
import Spil.Model.Find

inductive Node | file | dir
  deriving DecidableEq, Repr, Inhabited

/-- content of a sidecar file -/
inductive Sidecar
  | data (d : Dict)      -- a JSON object
  | corrupt              -- present but unreadable / not JSON
  deriving DecidableEq, Repr, Inhabited

structure World where
  nodes : List (Str × Node)
  sidecars : List (Str × Sidecar)
  deriving Repr, Inhabited

/-- how `get_finder_for` answers, obtained by probing (instances are shared ⇒ one index each) -/
inductive FinderDef
  | paths (config : Option Str)
  | constants (key : Str) (values : List Str) (parent : Option Nat)
  deriving Repr, Inhabited

/-- the probed tables of `spil_data_conf` -/
structure DataConf where
  finders : List FinderDef
  finderByType : List (Str × Nat)
  finderDefault : Option Nat
  /-- `get_getter_for(sid)`: types configured with `None` -/
  noGetterTypes : List Str
  /-- the default Getter is a `GetFromPaths()` of the default path configuration -/
  hasDefaultGetter : Bool
  deriving Repr, Inhabited

namespace World

def empty : World := ⟨[], []⟩

def kind? (w : World) (p : Str) : Option Node := w.nodes.lookup p
def pathExists (w : World) (p : Str) : Bool := (w.kind? p).isSome

/-- all proper ancestors of an absolute normalised path, outermost first (without the root "/") -/
def ancestors (p : Str) : List Str :=
  let comps := (Str.splitOn '/' p).filter (fun c => !c.isEmpty)
  (List.range (comps.length - 1)).map (fun i => '/' :: Str.joinWith '/' (comps.take (i + 1)))

/-- `mkdir -p` for one directory: every missing ancestor and the directory itself; fails if one of
    them exists as a file -/
def mkdirP (w : World) (p : Str) : Except Err World :=
  (ancestors p ++ [p]).foldl (fun acc d =>
    match acc with
    | .error e => .error e
    | .ok w =>
      match w.kind? d with
      | some .dir => .ok w
      | some .file => .error .os
      | none => .ok { w with nodes := w.nodes ++ [(d, .dir)] }) (.ok w)

/-- `path.touch()` after `_create_parent(path)` -/
def touchP (w : World) (p : Str) : Except Err World :=
  match mkdirP w (PurePath.parent p) with
  | .error e => .error e
  | .ok w => if w.pathExists p then .ok w else .ok { w with nodes := w.nodes ++ [(p, .file)] }

/-- a symbolic link `p` to the existing directory `target` READS as a copy of that directory's
    subtree under the name `p` (glob, `exists`, sidecar reads all follow links).  Only used on trees
    that are not written to afterwards (writes through one name would show under the other). -/
def linkDirP (w : World) (target p : Str) : Except Err World :=
  match mkdirP w (PurePath.parent p) with
  | .error e => .error e
  | .ok w =>
    if w.pathExists p then .error .os else
    let pre := target ++ ['/']
    let under (q : Str) : Bool := q == target || Str.startsWith q pre
    let moved (q : Str) : Str := p ++ q.drop target.length
    .ok { w with
      nodes := w.nodes ++ (w.nodes.filter (fun n => under n.1)).map (fun n => (moved n.1, n.2)),
      sidecars := w.sidecars ++ (w.sidecars.filter (fun s => Str.startsWith s.1 pre)).map
        (fun s => (moved s.1, s.2)) }

/-- `fnmatch` of one path component against a pattern component containing only `*` wildcards -/
def compMatch (pat name : Str) : Bool :=
  match Find.glob2re pat with
  | none => false
  | some items =>
    -- inside a component there is no '/', so `[^/]*` is `.*`
    (Re.mkSeq items).matchZ ⟨fun _ => false⟩ name &&
    -- a wildcard pattern that does not start with '.' never matches a hidden name
    !(Str.hasChar '*' pat && !Str.startsWith pat ['.'] && Str.startsWith name ['.'])

/-- `glob.glob(pattern)` on the tree (component-wise, same depth; every existing path has existing
    ancestors, so the directory walk of `glob` reduces to a filter) -/
def glob (w : World) (pattern : Str) : List Str :=
  let pc := Str.splitOn '/' pattern
  (w.nodes.map (·.1)).filter (fun p =>
    let cs := Str.splitOn '/' p
    cs.length == pc.length && (pc.zip cs).all (fun (a, b) => compMatch a b))

end World

/-- everything the data layer needs -/
structure DCtx where
  ctx : Ctx
  data : DataConf

namespace DCtx

open World

/-- `get_data_json_path(path)`: `path.with_name('.' + name).with_suffix(suffix)` -/
def sidecarPath (d : DCtx) (p : Str) : Str :=
  PurePath.withSuffix (PurePath.withName p ('.' :: PurePath.name p)) d.ctx.cfg.dataSuffix

/-! ### FindInPaths -/

/-- `FindInPaths(config).star_search_simple(search_sids, as_sid=False)`.
    `searched` = (type, (pattern, search string)) triples already globbed (repaired, D26: the memo
    also records the search string, since the found Sids are matched against it),
    `found` = paths already yielded. -/
def pathsStarGo (d : DCtx) (w : World) (config : Option Str) :
    List Sid → List (Str × Str × Str) → List Str → Except Err (List Sid)
  | [], _, _ => .ok []
  | s :: rest, searched, found =>
    match d.ctx.sidPath config s with
    | .error e => .error e
    | .ok p =>
      let pattern := p.getD ['N','o','n','e']
      if searched.contains (s.type, pattern, s.string) then pathsStarGo d w config rest searched found else
      let step := (w.glob pattern).foldl (fun (acc : Except Err (List Sid × List Str)) path =>
        match acc with
        | .error e => .error e
        | .ok (out, found) =>
          if found.contains path then .ok (out, found) else
          match d.ctx.sidOfPath path config with
          | .error .spil => .ok (out, found)
          | .error e => .error e
          | .ok x =>
            if x.type != s.type then .ok (out, found)
            else if !x.typed then .ok (out, found)
            else
              -- (repaired, D25) the found Sid itself must match the search:
              -- `re.match(glob2re(str(search)), str(sid))`
              match Find.globMatch d.ctx.env s.string x.string with
              | .error e => .error e
              | .ok false => .ok (out, found)
              | .ok true => .ok (out ++ [x], found ++ [path])) (.ok ([], found))
      match step with
      | .error e => .error e
      | .ok (out, found) =>
        match pathsStarGo d w config rest (searched ++ [(s.type, pattern, s.string)]) found with
        | .error e => .error e
        | .ok more => .ok (out ++ more)

/-- `star_search_simple(searches, as_sid=True)`: the Sids built from the found paths -/
def pathsStarSids (d : DCtx) (w : World) (config : Option Str) (searches : List Sid) : Except Err (List Sid) :=
  pathsStarGo d w config searches [] []

def pathsStar (d : DCtx) (w : World) (config : Option Str) (searches : List Sid) : Except Err (List Str) :=
  (pathsStarSids d w config searches).map (fun l => l.map (·.string))

/-- the search Sids a star search receives when `sorted_search` hands it `[Sid(uri with > → *)]` -/
def resolveSearch (d : DCtx) (uri : Str) : Except Err Sid := d.ctx.sidOfString uri

/-- `FindByGlob.do_find(searches, as_sid=False)` for a star-search over Sids -/
def doFindWith (d : DCtx) (star : List Sid → Except Err (List Str)) (searches : List Sid) :
    Except Err (List Str) :=
  if searches.isEmpty then .ok [] else
  if searches.any (fun x => Str.hasChar '>' x.string) then
    match searches with
    | [] => .ok []
    | s0 :: _ =>
      match Find.indexOfGt (Str.splitOn '/' s0.string) with
      | none => .error .value
      | some index =>
        let one (x : Sid) : Except Err (List Str) :=
          match d.resolveSearch (x.uri.map (fun ch => if ch == '>' then '*' else ch)) with
          | .error e => .error e
          | .ok s => star [s]
        match Ctx.flatMapE one searches with
        | .error e => .error e
        | .ok founds => .ok (Find.sortedPick index founds)
  else star searches

/-- `FindInPaths(config).do_find` -/
def pathsDoFind (d : DCtx) (w : World) (config : Option Str) (searches : List Sid) : Except Err (List Str) :=
  d.doFindWith (d.pathsStar w config) searches

/-- `FindInPaths(config).do_find(searches, as_sid=True)`: a star search yields the Sids built from
    the paths; a sorted search yields `Sid(string)` of its picks -/
def pathsDoFindSids (d : DCtx) (w : World) (config : Option Str) (searches : List Sid) : Except Err (List Sid) :=
  if searches.isEmpty then .ok [] else
  if searches.any (fun x => Str.hasChar '>' x.string) then
    match d.pathsDoFind w config searches with
    | .error e => .error e
    | .ok strs => Ctx.mapE (fun s => d.ctx.sidOfString s) strs
  else d.pathsStarSids w config searches

/-- `FindInPaths(config).find(search, as_sid=False)` -/
def findInPaths (d : DCtx) (w : World) (config : Option Str) (search : Str) : Except Err (List Str) :=
  match d.ctx.findSearches search with
  | .error e => .error e
  | .ok searches => d.pathsDoFind w config searches

/-! ### FindInConstants / FindInAll (fuel = depth of the parent chain) -/

/-- `_append_value(root, done)` (`done` is never filled by the code) -/
def appendValues (d : DCtx) (key : Str) (values : List Str) (root : Sid) : Except Err (List Str) :=
  Ctx.flatMapE (fun v =>
    match d.ctx.getWithKw root [(key, some v)] with
    | .error e => .error e
    | .ok r => .ok (if r.typed then [r.string] else [])) values

mutual

/-- `finder.do_find(searches, as_sid=False)` for the finder with index `i` -/
def finderDoFind (d : DCtx) (w : World) : Nat → Nat → List Sid → Except Err (List Str)
  | 0, _, _ => .error .other
  | fuel + 1, i, searches =>
    match d.data.finders[i]? with
    | none => .error .other
    | some (.paths config) => d.pathsDoFind w config searches
    | some (.constants key values parent) =>
      d.doFindWith (fun ss => constStar d w fuel key values parent ss) searches

/-- `finder.find(search, as_sid=True)` (the base `Finder.find`) for the finder with index `i`;
    `search` is given as a Sid object (string + uri, as `Finder.find` uses both) -/
def finderFind (d : DCtx) (w : World) : Nat → Nat → Sid → Except Err (List Str)
  | 0, _, _ => .error .other
  | fuel + 1, i, search =>
    -- `Sid(search_sid)` of a Sid object re-resolves its uri (falsy Sid objects give the empty Sid)
    let sid : Except Err Sid := if search.typed then d.ctx.sidOfString search.uri else .ok Sid.empty
    match sid with
    | .error e => .error e
    | .ok sid =>
      let searches : Except Err (List Sid) :=
        if sid.typed && !d.ctx.isSearch sid && !d.ctx.isAliasSearch sid && !Str.hasChar '?' sid.string then .ok [sid]
        else d.ctx.unfoldSearch search.string false false
      match searches with
      | .error e => .error e
      | .ok ss => finderDoFind d w fuel i ss

/-- `FindInConstants(key, values, parent).star_search(searches, as_sid=False)` -/
def constStar (d : DCtx) (w : World) : Nat → Str → List Str → Option Nat → List Sid → Except Err (List Str)
  | _, _, _, _, [] => .ok []
  | fuel, key, values, parent, s :: rest =>
    let one : Except Err (List Str) :=
      -- Sid(search_sid).get_as(key)
      match (if s.typed then d.ctx.sidOfString s.uri else .ok Sid.empty) with
      | .error e => .error e
      | .ok s' =>
        match d.ctx.getAs s' key with
        | .error e => .error e
        | .ok root =>
          if !root.typed then .ok [] else
          if !Str.hasChar '*' root.string then .ok [root.string] else
          match d.ctx.parent root with
          | .error e => .error e
          | .ok rp =>
            if Str.hasChar '*' rp.string && !(Sid.eqv root rp) then
              match parent with
              | none => .error .spil
              | some pi =>
                match finderFind d w fuel pi rp with
                | .error e => .error e
                | .ok foundRoots =>
                  Ctx.flatMapE (fun fr =>
                    -- found_root is Sid(fr)
                    match d.ctx.sidOfString fr with
                    | .error e => .error e
                    | .ok frs =>
                      match root.fields.get key with
                      | some v =>
                        if v != ['*'] then
                          match d.ctx.div frs v with
                          | .error e => .error e
                          | .ok r => .ok [r.string]
                        else d.appendValues key values frs
                      | none => d.appendValues key values frs) foundRoots
            else d.appendValues key values root
    match one with
    | .error e => .error e
    | .ok out =>
      match constStar d w fuel key values parent rest with
      | .error e => .error e
      | .ok more => .ok (out ++ more)

end

def fuel (d : DCtx) : Nat := 2 * d.data.finders.length + 2

/-- `get_finder_for(sid)`: index of the Finder -/
def finderFor (d : DCtx) (x : Sid) : Option Nat :=
  match d.data.finderByType.lookup x.type with
  | some i => some i
  | none => d.data.finderDefault

/-- group searches by finder, keeping first-seen order of finders -/
def groupByFinder (d : DCtx) : List Sid → List (Nat × List Sid) → List (Nat × List Sid)
  | [], acc => acc
  | s :: rest, acc =>
    match d.finderFor s with
    | none => groupByFinder d rest acc
    | some i =>
      if acc.any (·.1 == i) then
        groupByFinder d rest (acc.map (fun (j, ss) => if j == i then (j, ss ++ [s]) else (j, ss)))
      else groupByFinder d rest (acc ++ [(i, [s])])

/-- `FindInAll().find(search, as_sid=False)` -/
def findInAll (d : DCtx) (w : World) (search : Str) : Except Err (List Str) :=
  match d.ctx.unfoldSearch search false false with
  | .error e => .error e
  | .ok searches =>
    match Ctx.flatMapE (fun (g : Nat × List Sid) => finderDoFind d w d.fuel g.1 g.2) (d.groupByFinder searches []) with
    | .error e => .error e
    | .ok all => .ok (Lst.dedupBy (· == ·) all)

/-- `Finder.find_one(search, as_sid=False)`: first element or `None` -/
def findOneAll (d : DCtx) (w : World) (search : Str) : Except Err (Option Str) :=
  (d.findInAll w search).map List.head?

/-! ### Sid data calls -/

/-- `sid.exists()` -/
def sidExists (d : DCtx) (w : World) (x : Sid) : Except Err Bool :=
  if x.fields.isEmpty then .ok false else
  (d.findOneAll w x.string).map (fun r => match r with | some s => !s.isEmpty | none => false)

/-- `sid.children()` as strings -/
def children (d : DCtx) (w : World) (x : Sid) : Except Err (List Str) :=
  if d.ctx.isLeaf x then .ok [] else
  match d.ctx.div x ['*'] with
  | .error e => .error e
  | .ok s => d.findInAll w s.string

/-- `sid.siblings_as(key)` as strings -/
def siblingsAs (d : DCtx) (w : World) (x : Sid) (key : Str) : Except Err (List Str) :=
  if !x.fields.hasKey key then .ok [] else
  match d.ctx.getAs x key with
  | .error e => .error e
  | .ok a =>
    match d.ctx.getWithKw a [(key, some ['*'])] with
    | .error e => .error e
    | .ok s => d.findInAll w s.string

/-- `sid.get_last(key)` -/
def getLast (d : DCtx) (w : World) (x : Sid) (key : Option Str) : Except Err Sid :=
  if x.fields.isEmpty then .ok Sid.empty else
  let key := match key with
    | some k => if k.isEmpty then (Ctx.keytype x).getD [] else k
    | none => (Ctx.keytype x).getD []
  match d.ctx.getWithKw x [(key, some ['>'])] with
  | .error e => .error e
  | .ok s =>
    match d.findOneAll w s.string with
    | .error e => .error e
    | .ok none => .ok Sid.empty
    | .ok (some f) =>
      match d.ctx.sidOfString f with
      | .error e => .error e
      | .ok found =>
        match found.fields.get key with
        | some v => .ok (if v.isEmpty then Sid.empty else found)
        | none => .ok Sid.empty

/-- value of a string of decimal digits (`int()`), `none` when it is not one.
    Only ASCII digits are modelled (others: out of model). -/
def parseNat : Str → Option Nat
  | [] => none
  | s => s.foldl (fun acc c =>
      match acc with
      | none => none
      | some n => if '0' ≤ c && c ≤ '9' then some (n * 10 + (c.toNat - 48)) else none) (some 0)

/-- the demo `NextGetter.get_attr(sid, 'next.version')` -/
def nextVersion (d : DCtx) (w : World) (x : Sid) : Except Err Sid :=
  let cur := (x.fields.get ['v','e','r','s','i','o','n']).getD []
  let digits : Except Err Str :=
    if cur.isEmpty then .ok ['0'] else
    if cur == ['*'] || cur == ['>'] then
      match d.getLast w x (some ['v','e','r','s','i','o','n']) with
      | .error e => .error e
      | .ok l =>
        let lv := (l.fields.get ['v','e','r','s','i','o','n']).getD []
        let lv := if lv.isEmpty then ['v','0','0','0'] else lv
        let tail := ((Str.splitOn 'v' lv).getLast?).getD []
        .ok (if tail.isEmpty then ['0'] else tail)
    else .ok (((Str.splitOn 'v' cur).getLast?).getD [])
  match digits with
  | .error e => .error e
  | .ok ds =>
    if ds.any (fun c => !('0' ≤ c && c ≤ '9')) && !ds.isEmpty && ds.all (fun c => c.toNat > 127 || ('0' ≤ c && c ≤ '9')) then .error .oom else
    match parseNat ds with
    | none => .error .value
    | some n =>
      let v := 'v' :: Str.pad3 (n + 1)
      d.ctx.getWithKw x [(['v','e','r','s','i','o','n'], some v)]

/-- `sid.get_next('version')` -/
def getNext (d : DCtx) (w : World) (x : Sid) : Except Err Sid := d.nextVersion w x

/-- `sid.get_new('version')` -/
def getNew (d : DCtx) (w : World) (x : Sid) : Except Err Sid :=
  let key : Str := ['v','e','r','s','i','o','n']
  let hasKey := match x.fields.get key with | some v => !v.isEmpty | none => false
  if hasKey then
    match d.getLast w x (some key) with
    | .error e => .error e
    | .ok l => if l.typed then d.getNext w l else d.getNext w x
  else
    match d.ctx.getWithKw x [(key, some ['*'])] with
    | .error e => .error e
    | .ok withKey =>
      match d.getLast w withKey (some key) with
      | .error e => .error e
      | .ok l => if l.typed then d.getNext w l else d.getNext w x

/-! ### WriteToPaths / GetFromPaths -/

/-- `_write_data(path, data)` (complete, no crash): merge into the sidecar -/
def writeData (d : DCtx) (w : World) (path : Str) (attrs : Dict) : Except Err World :=
  let sp := d.sidecarPath path
  match w.sidecars.lookup sp with
  | some .corrupt => .error .json
  | some (.data prev) =>
    .ok { w with sidecars := w.sidecars.map (fun (p, c) => if p == sp then (p, Sidecar.data (Dict.update prev attrs)) else (p, c)) }
  | none => .ok { w with sidecars := w.sidecars ++ [(sp, Sidecar.data (Dict.update [] attrs))] }

/-- `WriteToPaths(config).create(sid, data)`; `hasData` = the `data` argument is a non-empty dict -/
def create (d : DCtx) (w : World) (config : Option Str) (sid : Str) (attrs : Option Dict) : Except Err (World × Bool) :=
  match d.ctx.sidOfString sid with
  | .error e => .error e
  | .ok x =>
    match d.ctx.sidPath config x with
    | .error e => .error e
    | .ok none => .error .spil
    | .ok (some path) =>
      if w.pathExists path then .error .spil else
      let made : Except Err World :=
        if !(PurePath.suffix path).isEmpty then w.touchP path else w.mkdirP path
      match made with
      | .error e => .error e
      | .ok w =>
        match attrs with
        | some a => if a.isEmpty then .ok (w, true) else (d.writeData w path a).map (fun w => (w, true))
        | none => .ok (w, true)

/-- `WriteToPaths(config).update(sid, data)` / `set(sid, **data)` -/
def update (d : DCtx) (w : World) (config : Option Str) (sid : Str) (attrs : Dict) : Except Err (World × Bool) :=
  match d.ctx.sidOfString sid with
  | .error e => .error e
  | .ok x =>
    match d.ctx.sidPath config x with
    | .error e => .error e
    | .ok none => .error .spil
    | .ok (some path) =>
      if !w.pathExists path then .error .spil else
      (d.writeData w path attrs).map (fun w => (w, true))

/-- how `sid_encode` is chosen by the harness -/
inductive Enc | str | uri | none
  deriving DecidableEq, Repr

/-- `GetFromPaths(config).get_data(sid, attributes, sid_encode)`; a missing attribute is `none` -/
def getData (d : DCtx) (w : World) (config : Option Str) (x : Sid) (attributes : List Str) (enc : Enc) :
    Except Err (List (Str × Option Str)) :=
  match d.ctx.sidPath config x with
  | .error e => .error e
  | .ok none => .ok []
  | .ok (some path) =>
    let stored : Dict := match w.sidecars.lookup (d.sidecarPath path) with
      | some (.data dd) => dd
      | _ => []
    -- the encoded Sid is kept as the raw string (stored attribute values are opaque JSON texts)
    let encoded : Option Str := match enc with
      | .str => if x.string.isEmpty then Option.none else some x.string
      | .uri => if x.uri.isEmpty then Option.none else some x.uri
      | .none => Option.none
    let data := match encoded with
      | some s => Dict.set stored ['s','i','d'] s
      | Option.none => stored
    if attributes.isEmpty then .ok (data.map (fun (k, v) => (k, some v)))
    else
      -- `data.get(key)`: a stored JSON `null` is Python's `None`, like a missing key
      .ok (attributes.map (fun k => (k, match data.get k with
        | some v => if v == ['n','u','l','l'] then Option.none else some v
        | Option.none => Option.none)))

/-- one record: `get_data(sid, ...) or {}` where `Sid(sid)` re-resolves the found Sid's uri -/
def recordOf (d : DCtx) (w : World) (config : Option Str) (x : Sid) (attributes : List Str) (enc : Enc) :
    Except Err (List (Str × Option Str)) :=
  match (if x.typed then d.ctx.sidOfString x.uri else .ok Sid.empty) with
  | .error e => .error e
  | .ok y => d.getData w config y attributes enc

/-- `GetFromPaths(config).get(search, attributes, sid_encode)` (`GetByFinder.get`) -/
def getFromPaths (d : DCtx) (w : World) (config : Option Str) (search : Str) (attributes : List Str) (enc : Enc) :
    Except Err (List (List (Str × Option Str))) :=
  match d.ctx.findSearches search with
  | .error e => .error e
  | .ok searches =>
    match d.pathsDoFindSids w config searches with
    | .error e => .error e
    | .ok sids => Ctx.mapE (fun x => d.recordOf w config x attributes enc) sids

/-! ### GetFromAll (routing by type through `spil_data_conf.get_getter_for`) -/

/-- `get_getter_for(x)` is a Getter (the shared default `GetFromPaths()`), not `None` -/
def hasGetter (d : DCtx) (x : Sid) : Bool :=
  !d.data.noGetterTypes.contains x.type && (x.typed || d.data.hasDefaultGetter)

/-- `GetFromAll().get(search, attributes, sid_encode)`: the search is unfolded, every typed search
    goes to the Getter configured for its type (searches of types configured with `None` are
    skipped), each Getter answers its searches with `do_get` -/
def getFromAll (d : DCtx) (w : World) (search : Str) (attributes : List Str) (enc : Enc) :
    Except Err (List (List (Str × Option Str))) :=
  match d.ctx.unfoldSearch search false false with
  | .error e => .error e
  | .ok searches =>
    let mine := searches.filter d.hasGetter
    if mine.isEmpty then .ok [] else
    match d.pathsDoFindSids w none mine with
    | .error e => .error e
    | .ok sids => Ctx.mapE (fun x => d.recordOf w none x attributes enc) sids

/-- `GetFromAll().get_data(sid, attributes, sid_encode)` -/
def getDataAll (d : DCtx) (w : World) (x : Sid) (attributes : List Str) (enc : Enc) :
    Except Err (List (Str × Option Str)) :=
  if d.hasGetter x then d.getData w none x attributes enc else .ok []

end DCtx
