/-
  Spil.Model.Sid — model of `sid_resolver`, `query_helper.apply_query`, `sid_factory` and the
  `StringSid` / `TypedSid` operations of `spil/sid/sid.py`.
-/
import Spil.Model.Query

/-- a Sid value.  `type = []` and `fields = []` for an untyped Sid; `bool(sid) = !fields.isEmpty`. -/
structure Sid where
  string : Str
  type : Str
  fields : Dict
  deriving DecidableEq, Repr, Inhabited

namespace Sid

def empty : Sid := ⟨[], [], []⟩
def untyped (s : Str) : Sid := ⟨s, [], []⟩

/-- `bool(sid)` (through `__len__`) -/
def typed (x : Sid) : Bool := !x.fields.isEmpty

/-- `TypedSid.uri` -/
def uri (x : Sid) : Str := if x.type.isEmpty then x.string else x.type ++ ':' :: x.string

/-- `len(sid)` -/
def len (x : Sid) : Nat := x.fields.length

/-- `StringSid.__eq__` between Sids -/
def eqv (x y : Sid) : Bool := x.uri == y.uri

/-- `StringSid.__lt__` -/
def lt (x y : Sid) : Bool := Str.lt x.string y.string

/-- `StringSid.__repr__`; `hash(sid) = hash(repr(sid))` -/
def repr (x : Sid) : Str := ['S', 'i', 'd', '(', '\''] ++ x.uri ++ ['\'', ')']

end Sid

/-- everything the Sid layer needs: configuration and CPython's `\d` table -/
structure Ctx where
  cfg : Conf
  env : Env

namespace Ctx

def sidR (c : Ctx) : Resolver := c.cfg.sid.resolver

/-! ### `sid_resolver` -/

/-- the loop of the repaired `sid_to_dict`: first template of `resolve_all` that renders `s` back -/
def firstExact (c : Ctx) (s : Str) : List (Str × Dict) → Except Err (Option (Str × Dict))
  | [] => .ok none
  | (label, data) :: rest =>
    match Resolver.formatOne c.env c.sidR data label with
    | .error x => .error x
    | .ok f => if f == some s then .ok (some (label, data)) else firstExact c s rest

/-- `sid_resolver.sid_to_dict(sid, _type)`; `none` = `(None, None)` -/
def sidToDict (c : Ctx) (s : Str) (ty : Option Str) : Except Err (Option (Str × Dict)) :=
  let forced := match ty with | some t => !t.isEmpty | none => false
  let first : Except Err (Option (Str × Dict)) :=
    if forced then
      match Resolver.resolveOne c.env c.sidR s (ty.getD []) with
      | .error x => .error x
      | .ok none => .ok none
      | .ok (some d) => .ok (some (ty.getD [], d))
    else Resolver.resolveFirst c.env c.sidR s
  match first with
  | .error x => .error x
  | .ok none => .ok none
  | .ok (some (label, data)) =>
    match Resolver.formatOne c.env c.sidR data label with
    | .error x => .error x
    | .ok f =>
      if f == some s then .ok (some (label, data))
      else if forced then .ok none
      else
        match Resolver.resolveAll c.env c.sidR s with
        | .error x => .error x
        | .ok all => firstExact c s all

/-- `sid_resolver.sid_to_dicts(sid)` -/
def sidToDicts (c : Ctx) (s : Str) : Except Err (List (Str × Dict)) :=
  Resolver.resolveAll c.env c.sidR s

/-- `sid_resolver.dict_to_type(data, all=True)` -/
def dictToTypes (c : Ctx) (data : Dict) : Except Err (List Str) :=
  match Resolver.formatAll c.env c.sidR data with
  | .error x => .error x
  | .ok found => .ok (found.map (·.1))

/-- `sid_resolver.dict_to_sid(data, _type)` with a given type: the string or `""` -/
def dictToSidStr (c : Ctx) (data : Dict) (ty : Str) : Except Err Str :=
  if data.isEmpty then .error .spil else
  if ty.isEmpty then
    match Resolver.formatFirst c.env c.sidR data with
    | .error x => .error x
    | .ok r => .ok ((r.map (·.2)).getD [])
  else
    match Resolver.formatOne c.env c.sidR data ty with
    | .error x => .error x
    | .ok r => .ok (r.getD [])

/-! ### `query_helper.apply_query` -/

def isSearchStr (c : Ctx) (s : Str) : Bool := c.cfg.sid.searchSymbols.any (fun sym => Str.isInfix sym s)

/-- `apply_query(string, query, type, fields)` -/
def applyQuery (c : Ctx) (string query : Str) (ty : Str) (fields : Dict) : Except Err Sid :=
  if ty.isEmpty && !fields.isEmpty then .error .spil else
  if query.isEmpty then .ok ⟨string, ty, fields⟩ else
  match Query.update fields query with
  | .error x => .error x
  | .ok newData =>
    match c.dictToTypes newData with
    | .error x => .error x
    | .ok newTypes =>
      let refused : Sid := ⟨string ++ '?' :: query, ty, fields⟩
      let decided : Option Str :=
        match newTypes with
        | [] => none
        | [t] => some t
        | t :: _ =>
          if newTypes.contains ty then some ty
          else if c.isSearchStr (string ++ '?' :: query) then some t
          else none
      match decided with
      | none => .ok refused
      | some t =>
        match c.dictToSidStr newData t with
        | .error x => .error x
        | .ok ns =>
          if ns.isEmpty then .error .spil else
          -- fields in template order (repaired): re-read the rendered string
          match c.sidToDict ns (some t) with
          | .error x => .error x
          | .ok r => .ok ⟨ns, t, ((r.map (·.2)).getD newData)⟩

/-! ### `sid_factory` -/

/-- `sid_factory.sid_to_sid(string)` -/
def sidToSid (c : Ctx) (input : Str) : Except Err Sid :=
  let (string, query) :=
    match Str.split1 '?' input with
    | (a, some q) => (a, q)
    | (a, none) => (a, [])
  let resolved : Except Err (Str × Option (Str × Dict)) :=
    match Str.split1 ':' string with
    | (t, some rest) =>
      match c.sidToDict rest (some t) with
      | .error x => .error x
      | .ok r => .ok (rest, r)
    | (_, none) =>
      match c.sidToDict string none with
      | .error x => .error x
      | .ok r => .ok (string, r)
  match resolved with
  | .error x => .error x
  | .ok (string, r) =>
    let ty := (r.map (·.1)).getD []
    let fields := (r.map (·.2)).getD []
    if query.isEmpty then .ok ⟨string, ty, fields⟩
    -- repaired: a query is not applied to an untyped non-empty string
    else if !string.isEmpty && ty.isEmpty then .ok ⟨string ++ '?' :: query, [], []⟩
    else c.applyQuery string query ty fields

/-- `sid_factory.dict_to_sid(fields)`; `none` = `None` -/
def dictToSid (c : Ctx) (fields : Dict) : Except Err (Option Sid) :=
  match c.dictToTypes fields with
  | .error x => .error x
  | .ok [] => .ok none
  | .ok (ty :: _) =>
    match c.dictToSidStr fields ty with
    | .error x => .error x
    | .ok s =>
      match c.sidToDict s (some ty) with
      | .error x => .error x
      | .ok none => .ok none
      | .ok (some (_, f)) => .ok (some ⟨s, ty, f⟩)

/-- `Sid(string)` -/
def sidOfString (c : Ctx) (s : Str) : Except Err Sid :=
  if s.isEmpty then .ok Sid.empty else c.sidToSid s

/-- `Sid(query=q)` -/
def sidOfQuery (c : Ctx) (q : Str) : Except Err Sid :=
  if q.isEmpty then .ok Sid.empty else c.sidToSid ('?' :: q)

/-- `Sid(fields=d)` -/
def sidOfFields (c : Ctx) (d : Dict) : Except Err Sid :=
  if d.isEmpty then .ok Sid.empty else
  match c.dictToSid d with
  | .error x => .error x
  | .ok r => .ok (r.getD Sid.empty)

/-! ### `StringSid` / `TypedSid` operations -/

/-- `sid.copy()` = `Sid(sid.uri)` -/
def copy (c : Ctx) (x : Sid) : Except Err Sid := c.sidOfString x.uri

/-- `sid.is_search()` -/
def isSearch (c : Ctx) (x : Sid) : Bool := c.isSearchStr x.string

/-- `sid.basetype` -/
def basetype (c : Ctx) (x : Sid) : Option Str :=
  if x.type.isEmpty then none else (Str.splitStr x.type c.cfg.sid.sep).head?

/-- `sid.keytype` -/
def keytype (x : Sid) : Option Str := (x.fields.getLast?).map (·.1)

/-- `sid.get(key)` -/
def get (x : Sid) (k : Str) : Option Str := x.fields.get k

/-- fields up to and including key `k` (the loop of `get_as`) -/
def prefixUpTo (k : Str) : Dict → Dict
  | [] => []
  | (k', v) :: rest => if k' == k then [(k', v)] else (k', v) :: prefixUpTo k rest

/-- `sid.get_as(key)` -/
def getAs (c : Ctx) (x : Sid) (k : Str) : Except Err Sid :=
  if x.fields.isEmpty then .ok Sid.empty else
  if !x.fields.hasKey k then .ok Sid.empty else
  c.sidOfFields (prefixUpTo k x.fields)

/-- `sid.parent` -/
def parent (c : Ctx) (x : Sid) : Except Err Sid :=
  if x.fields.isEmpty then .ok Sid.empty else
  match x.fields.reverse with
  | [_] => c.copy x
  | _ :: (pk, _) :: _ => c.getAs x pk
  | [] => .ok Sid.empty

/-- `sid / other` (`other` a string) -/
def div (c : Ctx) (x : Sid) (v : Str) : Except Err Sid :=
  c.sidOfString (x.string ++ '/' :: v)

/-- `sid.get_with(query=q)` (non-empty `q`) -/
def getWithQuery (c : Ctx) (x : Sid) (q : Str) : Except Err Sid :=
  if !x.string.isEmpty && x.fields.isEmpty then .ok Sid.empty else
  c.sidOfString (x.uri ++ '?' :: q)

/-- the keyword loop of `get_with`: `None` pops, the rest is `dict.update`d afterwards -/
def overlayKw (fields : Dict) (kw : List (Str × Option Str)) : Dict :=
  let popped := kw.foldl (fun d (k, v) => if v.isNone then Dict.erase d k else d) fields
  Dict.update popped (kw.filterMap (fun (k, v) => v.map (fun v => (k, v))))

/-- `sid.get_with(**kw)` / `get_with(key=, value=)`; `kw` in call order, keys unique -/
def getWithKw (c : Ctx) (x : Sid) (kw : List (Str × Option Str)) : Except Err Sid :=
  if !x.string.isEmpty && x.fields.isEmpty then .ok Sid.empty else
  c.sidOfFields (overlayKw x.fields kw)

/-- `sid.is_leaf()` -/
def isLeaf (c : Ctx) (x : Sid) : Bool :=
  if x.fields.isEmpty then false else
  match c.cfg.sid.leafKey (c.basetype x) with
  | none => false
  | some lk => match x.fields.get lk with
    | some v => !v.isEmpty
    | none => false

/-- `sid.as_query()` -/
def asQuery (x : Sid) : Str := Query.toString x.fields

end Ctx
