/-
  Spil.Model.Cache — the three memoising wrappers of `spil/util/caching.py` as state machines.

  A call carries positional values and keyword (name, value) pairs.  `newKey` is the repaired
  `_make_key` (positional values, then a marker and the keyword items sorted by name); `oldKey`
  is the defective original `tuple(args) + tuple(kwargs)` (keyword NAMES only), kept to state the
  regression witness.
-/
import Spil.Model.Str

namespace Cache

structure Call (V : Type) where
  args : List V
  kwargs : List (Str × V)
  deriving DecidableEq, Repr

inductive KeyPart (V : Type)
  | val (v : V)
  | mark
  | item (name : Str) (v : V)
  | name (name : Str)
  deriving DecidableEq, Repr

/-- insertion of a keyword item into a list sorted by name (`sorted(kwargs.items())`; names unique) -/
def insertKw {V} (p : Str × V) : List (Str × V) → List (Str × V)
  | [] => [p]
  | q :: qs => if Str.lt p.1 q.1 then p :: q :: qs else q :: insertKw p qs

def sortKw {V} : List (Str × V) → List (Str × V)
  | [] => []
  | p :: ps => insertKw p (sortKw ps)

/-- `_make_key(args, kwargs)` -/
def newKey {V} (c : Call V) : List (KeyPart V) :=
  c.args.map .val ++
    (if c.kwargs.isEmpty then [] else .mark :: (sortKw c.kwargs).map (fun p => .item p.1 p.2))

/-- the original `tuple(args) + tuple(kwargs)`: iterating a dict yields its keys -/
def oldKey {V} (c : Call V) : List (KeyPart V) :=
  c.args.map .val ++ c.kwargs.map (fun p => .name p.1)

/-- a signature: parameter names, each with an optional default -/
abbrev Sig (V : Type) := List (Str × Option V)

/-- Python's binding of a call to a signature: `none` = TypeError (too many positionals, unknown
    or doubly given keyword, missing required parameter) -/
def bindGo {V} : Sig V → List V → List (Str × V) → Option (List V)
  | [], [], [] => some []
  | [], _, _ => none
  | (_, _) :: ps, a :: as, kw => (bindGo ps as kw).map (a :: ·)
  | (n, d) :: ps, [], kw =>
    match kw.lookup n, d with
    | some v, _ => (bindGo ps [] (kw.filter (·.1 != n))).map (v :: ·)
    | none, some v => (bindGo ps [] kw).map (v :: ·)
    | none, none => none

def bind {V} (sig : Sig V) (c : Call V) : Option (List V) := bindGo sig c.args c.kwargs

/-- the cache: an insertion-ordered dict from keys to results -/
abbrev Store (K R : Type) := List (K × R)

/-- one call through `lru_cache` / `lru_kw_cache` with key function `key`, capacity `max` and an
    arbitrary eviction choice `evict` (the real one is `popitem()`: drop the last inserted) -/
def stepLru {V K R} [DecidableEq K] (key : Call V → K) (f : Call V → R) (max : Nat)
    (evict : Store K R → Store K R) (st : Store K R) (c : Call V) : Store K R × R :=
  match st.lookup (key c) with
  | some r => (st, r)
  | none =>
    let st := if st.length ≥ max then evict st else st
    let r := f c
    (st ++ [(key c, r)], r)

/-- one call through `hit_cache`: only truthy results are stored -/
def stepHit {V K R} [DecidableEq K] (key : Call V → K) (f : Call V → R) (truthy : R → Bool) (max : Nat)
    (evict : Store K R → Store K R) (st : Store K R) (c : Call V) : Store K R × R :=
  match st.lookup (key c) with
  | some r => (st, r)
  | none =>
    let st := if st.length ≥ max then evict st else st
    let r := f c
    if truthy r then (st ++ [(key c, r)], r) else (st, r)

/-- run a history of calls, collecting the answers -/
def runHist {S C R} (step : S → C → S × R) : S → List C → List R
  | _, [] => []
  | st, c :: cs => let (st', r) := step st c; r :: runHist step st' cs

/-- `dict.popitem()` -/
def popitem {K R} (st : Store K R) : Store K R := st.dropLast

end Cache
