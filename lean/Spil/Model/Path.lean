/-
  Spil.Model.Path — model of `spil/sid/pathops/fs_resolver.py`, `PathSid.path`,
  `sid_factory.path_to_sid` and the `pathlib.PurePosixPath` operations Spil relies on.
-/
import Spil.Model.Sid

namespace PurePath

/-- components that `PurePosixPath` keeps: non-empty and not "." -/
def keep (comp : Str) : Bool := !comp.isEmpty && comp != ['.']

/-- number of leading slashes -/
def leadingSlashes : Str → Nat
  | '/' :: r => leadingSlashes r + 1
  | _ => 0

/-- `str(PurePosixPath(p))`: collapse `//` and `/./`, drop a trailing slash; exactly two leading
    slashes are kept (POSIX), `''` becomes `'.'` -/
def normalize (p : Str) : Str :=
  let comps := (Str.splitOn '/' p).filter keep
  let n := leadingSlashes p
  let root : Str := if n == 2 then ['/', '/'] else if n ≥ 1 then ['/'] else []
  let body := Str.joinWith '/' comps
  if root.isEmpty && body.isEmpty then ['.'] else root ++ body

/-- `PurePosixPath(p).name` of a normalised path -/
def name (p : Str) : Str := ((Str.splitOn '/' p).getLast?).getD []

/-- `PurePosixPath(p).parent` of a normalised absolute path -/
def parent (p : Str) : Str :=
  let comps := Str.splitOn '/' p
  let up := Str.joinWith '/' comps.dropLast
  if up.isEmpty then (if Str.startsWith p ['/'] then ['/'] else ['.']) else up

/-- position of the last '.' of `nm`, if it is neither first nor last -/
def suffixOf (nm : Str) : Str :=
  let r := nm.reverse
  let ext := r.takeWhile (· != '.')          -- characters after the last dot (reversed)
  if ext.length == nm.length then []          -- no dot at all
  else
    let i := nm.length - ext.length - 1       -- index of the last dot
    if 0 < i && i < nm.length - 1 then nm.drop i else []

/-- `Path.suffix` -/
def suffix (p : Str) : Str := suffixOf (name p)

/-- `p.with_name(nm)` (for a path with a non-empty name) -/
def withName (p nm : Str) : Str :=
  Str.joinWith '/' ((Str.splitOn '/' p).dropLast ++ [nm])

/-- `p.with_suffix(sfx)` -/
def withSuffix (p sfx : Str) : Str :=
  let nm := name p
  let old := suffixOf nm
  withName p (nm.take (nm.length - old.length) ++ sfx)

end PurePath

namespace Ctx

/-- `utils.get_key(mapping, value, default=value)`: the key of the first entry whose value is `value` -/
def getKey (mapping : List (Str × Str)) (value : Str) : Str :=
  match mapping.find? (·.2 == value) with
  | some (k, _) => k
  | none => value

/-- the mapping loop of `path_to_dict` (path value → sid value) -/
def mapToSid (pc : PathConf) (data : Dict) : Dict :=
  data.map (fun (k, v) =>
    match pc.mapping.lookup k with
    | some m => if m.isEmpty then (k, v) else (k, (m.lookup v).getD v)
    | none => (k, v))

/-- `fs_resolver.path_to_dict(path, _type, config)` (repaired: ResolvaException = no match, the
    resolver's cached dictionary is copied before mapping) -/
def pathToDict (c : Ctx) (pc : PathConf) (path : Str) (ty : Option Str) : Except Err (Option (Str × Dict)) :=
  let forced := match ty with | some t => !t.isEmpty | none => false
  let resolved : Except Err (Option (Str × Dict)) :=
    if forced then
      match Resolver.resolveOne c.env pc.resolver path (ty.getD []) with
      | .error x => .error x
      | .ok none => .ok none
      | .ok (some d) => .ok (some (ty.getD [], d))
    else Resolver.resolveFirst c.env pc.resolver path
  match resolved with
  | .error .resolva => .ok none
  | .error x => .error x
  | .ok none => .ok none
  | .ok (some (template, data)) =>
    let data := mapToSid pc data
    let sidType := ((Str.splitStr template c.cfg.sid.sep).head?).getD []
    match c.cfg.sid.keyTypes.lookup sidType with
    | none => .error .type
    | some keys =>
      -- `data.keys() != r.get_keys_for(template)` cannot differ here (no extra keys in the model)
      .ok (some (template, (keys.filter (fun k => data.hasKey k)).map (fun k => (k, (data.get k).getD []))))

/-- the three value loops of `dict_to_path` -/
def pathData (pc : PathConf) (data : Dict) (templateKeys : List Str) : Dict :=
  -- defaults for empty values
  let data := data.map (fun (k, v) =>
    match pc.defaults.lookup k with
    | some d => if v.isEmpty && !d.isEmpty then (k, d) else (k, v)
    | none => (k, v))
  -- reverse mapping (sid value → path value)
  let data := data.map (fun (k, v) =>
    match pc.mapping.lookup k with
    | some m => if v.isEmpty || m.isEmpty then (k, v) else (k, getKey m v)
    | none => (k, v))
  -- defaults for template keys that are missing
  templateKeys.foldl (fun d k =>
    match pc.defaults.lookup k with
    | some dv => if !d.hasKey k && !dv.isEmpty then d ++ [(k, dv)] else d
    | none => d) data

/-- `fs_resolver.dict_to_path(data, _type, config)` as a normalised path string; `.error .spil`
    for every `SpilException` it raises -/
def dictToPath (c : Ctx) (pc : PathConf) (data : Dict) (ty : Str) : Except Err Str :=
  if data.isEmpty then .error .spil else
  match pc.resolver.lookup ty with
  | none => .error .spil
  | some t =>
    let keys := Template.keys t
    if keys.isEmpty then .error .spil else
    let data := pathData pc data keys
    if !(data.keysEq keys) then .error .spil else
    match Template.format t data with
    | none => .error .key
    | some path =>
      match Resolver.formatOne c.env pc.resolver data ty with
      | .error x => .error x
      | .ok checked =>
        if checked == some path then .ok (PurePath.normalize path) else .error .spil

/-- `sid.path(config)`: `none` = `None` -/
def sidPath (c : Ctx) (config : Option Str) (x : Sid) : Except Err (Option Str) :=
  if x.fields.isEmpty then .ok none else
  match c.cfg.pathConf? config with
  | none => .error .other
  | some pc =>
    match c.dictToPath pc x.fields x.type with
    | .ok p => .ok (some p)
    | .error .spil => .ok none
    | .error e => .error e

/-- `sid_factory.path_to_sid(path, config)` (repaired: the Sid's own path must be the given path) -/
def pathToSid (c : Ctx) (path : Str) (config : Option Str) : Except Err (Option Sid) :=
  match c.cfg.pathConf? config with
  | none => .error .other
  | some pc =>
    match c.pathToDict pc path none with
    | .error e => .error e
    | .ok none => .ok none
    | .ok (some (ty, fields)) =>
      if fields.isEmpty then .ok none else
      match c.dictToSidStr fields ty with
      | .error e => .error e
      | .ok s =>
        if s.isEmpty then .ok none else
        let x : Sid := ⟨s, ty, fields⟩
        match c.sidPath config x with
        | .error e => .error e
        | .ok p => if p == some path then .ok (some x) else .ok none

/-- `Sid(path=p, config=c)` -/
def sidOfPath (c : Ctx) (path : Str) (config : Option Str) : Except Err Sid :=
  if path.isEmpty then .ok Sid.empty else
  match c.pathToSid path config with
  | .error e => .error e
  | .ok r => .ok (r.getD Sid.empty)

end Ctx
