/-
  Spil.Driver — JSON line protocol around the executable model (used by the correspondence
  check only; nothing here is part of a theorem).
-/
import Lean.Data.Json
import Spil.Model.Find
import Spil.Model.Path
import Spil.Model.PathX
import Spil.Model.FS
import Spil.Model.Cache
import Spil.Spec.Sid
import Spil.Spec.PathWF
import Spil.Generated.DemoConf

open Lean

namespace Driver

abbrev P := Except String

def str (j : Json) : P Str := do return (← j.getStr?).toList
def jstr (s : Str) : Json := Json.str (String.ofList s)
def field (j : Json) (k : String) : P Json := j.getObjVal? k
def fieldStr (j : Json) (k : String) : P Str := do str (← field j k)
def fieldStrD (j : Json) (k : String) (d : Str) : P Str :=
  match j.getObjVal? k with
  | .ok v => if v.isNull then pure d else str v
  | .error _ => pure d
def fieldBoolD (j : Json) (k : String) (d : Bool) : P Bool :=
  match j.getObjVal? k with
  | .ok v => if v.isNull then pure d else v.getBool?
  | .error _ => pure d
def fieldOpt (j : Json) (k : String) : Option Json :=
  match j.getObjVal? k with
  | .ok v => if v.isNull then none else some v
  | .error _ => none
def arr (j : Json) : P (List Json) := do return (← j.getArr?).toList
def listOf {α} (f : Json → P α) (j : Json) : P (List α) := do (← arr j).mapM f
def pairOf {α β} (f : Json → P α) (g : Json → P β) (j : Json) : P (α × β) := do
  match ← arr j with
  | [a, b] => return (← f a, ← g b)
  | _ => throw "pair expected"
def dict (j : Json) : P Dict := listOf (pairOf str str) j
def jdict (d : Dict) : Json := Json.arr (d.map (fun (k, v) => Json.arr #[jstr k, jstr v])).toArray
def jlist {α} (f : α → Json) (l : List α) : Json := Json.arr (l.map f).toArray

def cls (j : Json) : P Cls := do
  match j with
  | .str "dot" => return .dot
  | .str "digit" => return .digit
  | .str "notSlash" => return .notSlash
  | _ =>
    match (← fieldStr j "lit") with
    | [c] => return .lit c
    | _ => throw "bad cls"

partial def re (j : Json) : P Re := do
  let t ← (← field j "t").getStr?
  match t with
  | "eps" => return .eps
  | "cls" => return .cls (← cls (← field j "k"))
  | "star" => return .star (← cls (← field j "k"))
  | "seq" => return .seq (← re (← field j "a")) (← re (← field j "b"))
  | "alt" => return .alt (← re (← field j "a")) (← re (← field j "b"))
  | "grp" => return .grp (← fieldStr j "n") (← re (← field j "r"))
  | "cgrp" => return .cgrp (← re (← field j "r"))
  | _ => throw s!"bad re {t}"

def tok (j : Json) : P Tok := do
  match fieldOpt j "lit" with
  | some l => return .lit (← str l)
  | none => return .ph (← fieldStr j "ph") (← re (← field j "re"))

def templates (j : Json) : P (List (Str × Template)) := listOf (pairOf str (listOf tok)) j

def optStr (j : Json) : P (Option Str) := if j.isNull then pure none else do return some (← str j)

def sidConf (j : Json) : P SidConf := do
  return {
    sep := ← fieldStr j "sep"
    searchSymbols := ← listOf str (← field j "search_symbols")
    templates := ← templates (← field j "templates")
    keyTypes := ← listOf (pairOf str (listOf str)) (← field j "key_types")
    leafKeys := ← listOf (pairOf optStr str) (← field j "leaf_keys")
    extensionAlias := ← listOf (pairOf str (listOf str)) (← field j "extension_alias")
    basetypedNarrowing := ← dict (← field j "basetyped_narrowing")
    typedNarrowing := ← dict (← field j "typed_narrowing") }

def pathConf (j : Json) : P PathConf := do
  return {
    name := ← fieldStr j "name"
    templates := ← templates (← field j "templates")
    mapping := ← listOf (pairOf str dict) (← field j "mapping")
    defaults := ← dict (← field j "defaults")
    searchMapping := ← dict (← field j "search_mapping")
    typedMapping := ← (match fieldOpt j "typed_mapping" with
      | some x => listOf (pairOf (pairOf str str) dict) x | none => pure [])
    sidToExtra := ← (match fieldOpt j "sid_to_extra" with
      | some x => listOf (pairOf str (listOf (pairOf str dict))) x | none => pure [])
    extraToSid := ← (match fieldOpt j "extra_to_sid" with
      | some x => listOf (pairOf str (listOf (pairOf str dict))) x | none => pure []) }

def conf (j : Json) : P Conf := do
  return {
    sid := ← sidConf (← field j "sid")
    paths := ← listOf pathConf (← field j "paths")
    defaultPath := ← fieldStr j "default_path"
    dataSuffix := ← fieldStr j "data_suffix" }

def optNat (j : Json) : P (Option Nat) := if j.isNull then pure none else do return some (← j.getNat?)

def finderDef (j : Json) : P FinderDef := do
  let kind ← (← field j "kind").getStr?
  if kind == "paths" then
    return .paths (← optStr (j.getObjValD "config"))
  else
    return .constants (← fieldStr j "key") (← listOf str (← field j "values")) (← optNat (j.getObjValD "parent"))

def dataConf (j : Json) : P DataConf := do
  return {
    finders := ← listOf finderDef (← field j "finders")
    finderByType := ← listOf (pairOf str (·.getNat?)) (← field j "finder_by_type")
    finderDefault := ← optNat (j.getObjValD "finder_default")
    noGetterTypes := ← listOf str (← field j "no_getter_types")
    hasDefaultGetter := ← (← field j "has_default_getter").getBool? }

/-- digit table as inclusive code point ranges -/
def envOf (j : Json) : P Env := do
  let ranges ← listOf (pairOf (·.getNat?) (·.getNat?)) (← field j "digit_ranges")
  return { isDigit := fun c => ranges.any (fun (lo, hi) => lo ≤ c.toNat && c.toNat ≤ hi) }

/-! ### results -/

def errName : Err → String
  | .spil => "spil" | .value => "value" | .key => "key" | .type => "type" | .resolva => "resolva"
  | .json => "json" | .os => "os" | .notimpl => "notimpl" | .other => "other" | .oom => "oom"

def result {α} (f : α → Json) : Except Err α → Json
  | .ok v => Json.mkObj [("ok", f v)]
  | .error .oom => Json.mkObj [("oom", true)]
  | .error e => Json.mkObj [("err", errName e)]

def jsid (x : Sid) : Json :=
  Json.mkObj [("string", jstr x.string), ("type", jstr x.type), ("fields", jdict x.fields)]
def jopt {α} (f : α → Json) : Option α → Json
  | none => Json.null
  | some v => f v
def jpair {α β} (f : α → Json) (g : β → Json) (p : α × β) : Json := Json.arr #[f p.1, g p.2]
def jbool (b : Bool) : Json := Json.bool b
def jnat (n : Nat) : Json := Json.num n

structure State where
  ctx : Ctx
  data : DataConf
  worlds : List (String × World) := []

def State.dctx (st : State) : DCtx := ⟨st.ctx, st.data⟩
def State.world (st : State) (id : String) : World := (st.worlds.lookup id).getD World.empty
def State.setWorld (st : State) (id : String) (w : World) : State :=
  { st with worlds := (id, w) :: st.worlds.filter (·.1 != id) }

def resolverOf (st : State) (name : Str) : P Resolver :=
  if name == "sid".toList then pure st.ctx.sidR else
  match st.ctx.cfg.paths.find? (·.name == name) with
  | some pc => pure pc.resolver
  | none => throw "unknown resolver"

/-- build the Sid an operation is about -/
def sidFromCore (st : State) (j : Json) : P (Except Err Sid) := do
  match fieldOpt j "s" with
  | some s => return st.ctx.sidOfString (← str s)
  | none =>
  match fieldOpt j "fields" with
  | some f => return st.ctx.sidOfFields (← dict f)
  | none =>
  match fieldOpt j "query" with
  | some q => return st.ctx.sidOfQuery (← str q)
  | none =>
  match fieldOpt j "path" with
  | some p =>
    let cfgName ← (match fieldOpt j "config" with | some cj => do pure (some (← str cj)) | none => pure none : P (Option Str))
    return st.ctx.sidOfPathX (← str p) cfgName
  | none => throw "sid source expected"


/-- build the Sid an operation is about -/
def sidFrom (st : State) (j : Json) : P (Except Err Sid) := do
  match fieldOpt j "s" with
  | some s => return st.ctx.sidOfString (← str s)
  | none =>
  match fieldOpt j "fields" with
  | some f => return st.ctx.sidOfFields (← dict f)
  | none =>
  match fieldOpt j "query" with
  | some q => return st.ctx.sidOfQuery (← str q)
  | none =>
  match fieldOpt j "path" with
  | some p =>
    let cfgName ← (match fieldOpt j "config" with | some cj => do pure (some (← str cj)) | none => pure none : P (Option Str))
    return st.ctx.sidOfPathX (← str p) cfgName
  | none =>
  match fieldOpt j "obj" with
  | some o =>
    -- Sid(<Sid object>): a truthy Sid goes through sid_to_sid with its uri, a falsy one gives the empty Sid
    let inner ← sidFromCore st o
    return (match inner with
      | .error e => .error e
      | .ok x => if x.typed then st.ctx.sidOfString x.uri else .ok Sid.empty)
  | none => throw "sid source expected"

def kwOf (j : Json) : P (List (Str × Option Str)) := listOf (pairOf str optStr) j

def bindE {α} (x : Except Err α) (f : α → Except Err Json) : Json :=
  match x with
  | .ok v => result id (f v)
  | .error .oom => Json.mkObj [("oom", true)]
  | .error e => Json.mkObj [("err", errName e)]

def sidCall (st : State) (j : Json) : P Json := do
  let c := st.ctx
  let x ← sidFrom st (← field j "from")
  let m ← (← field j "m").getStr?
  match m with
  | "self" => return result jsid x
  | "uri" => return result (jstr ∘ Sid.uri) x
  | "typed" => return result (jbool ∘ Sid.typed) x
  | "len" => return result (jnat ∘ Sid.len) x
  | "repr" => return result (jstr ∘ Sid.repr) x
  | "keytype" => return result (jopt jstr ∘ Ctx.keytype) x
  | "basetype" => return result (jopt jstr ∘ c.basetype) x
  | "is_search" => return result (jbool ∘ c.isSearch) x
  | "is_leaf" => return result (jbool ∘ c.isLeaf) x
  | "as_query" => return result (jstr ∘ Ctx.asQuery) x
  | "copy" => return bindE x (fun x => (c.copy x).map jsid)
  | "parent" => return bindE x (fun x => (c.parent x).map jsid)
  | "get" =>
    let k ← fieldStr j "k"
    return result (fun x => jopt jstr (Ctx.get x k)) x
  | "get_as" =>
    let k ← fieldStr j "k"
    return bindE x (fun x => (c.getAs x k).map jsid)
  | "div" =>
    let v ← fieldStr j "v"
    return bindE x (fun x => (c.div x v).map jsid)
  | "get_with_q" =>
    let q ← fieldStr j "q"
    return bindE x (fun x => (c.getWithQuery x q).map jsid)
  | "get_with_kw" =>
    let kw ← kwOf (← field j "kw")
    return bindE x (fun x => (c.getWithKw x kw).map jsid)
  | "path" =>
    let cfgName ← (match fieldOpt j "config" with | some cj => do pure (some (← str cj)) | none => pure none : P (Option Str))
    return bindE x (fun x => (c.sidPathX cfgName x).map (jopt jstr))
  | "match" =>
    let s ← fieldStr j "search"
    return bindE x (fun x => (c.sidMatch x s).map jbool)
  | "eq" | "lt" | "hash_eq" =>
    let y ← sidFrom st (← field j "other")
    return bindE x (fun x => match y with
      | .error e => .error e
      | .ok y => .ok (jbool (if m == "lt" then Sid.lt x y else if m == "eq" then Sid.eqv x y
                              else Sid.repr x == Sid.repr y)))
  | "eq_str" =>
    let s ← fieldStr j "str"
    return result (fun (x : Sid) => jbool (x.string == s)) x
  | _ => throw s!"unknown sid method {m}"

def step (st : State) (j : Json) : P Json := do
  let c := st.ctx
  let e := c.env
  let op ← (← field j "op").getStr?
  match op with
  | "resolve_first" =>
    let r ← resolverOf st (← fieldStr j "r")
    return result (jopt (jpair jstr jdict)) (Resolver.resolveFirst e r (← fieldStr j "s"))
  | "resolve_one" =>
    let r ← resolverOf st (← fieldStr j "r")
    return result (jopt jdict) (Resolver.resolveOne e r (← fieldStr j "s") (← fieldStr j "label"))
  | "resolve_all" =>
    let r ← resolverOf st (← fieldStr j "r")
    return result (jlist (jpair jstr jdict)) (Resolver.resolveAll e r (← fieldStr j "s"))
  | "format_one" =>
    let r ← resolverOf st (← fieldStr j "r")
    return result (jopt jstr) (Resolver.formatOne e r (← dict (← field j "data")) (← fieldStr j "label"))
  | "format_first" =>
    let r ← resolverOf st (← fieldStr j "r")
    return result (jopt (jpair jstr jstr)) (Resolver.formatFirst e r (← dict (← field j "data")))
  | "format_all" =>
    let r ← resolverOf st (← fieldStr j "r")
    return result (jlist (jpair jstr jstr)) (Resolver.formatAll e r (← dict (← field j "data")))
  | "sid" => return result jsid (← sidFrom st j)
  | "path_to_dict" =>
    let cfgName ← (match fieldOpt j "config" with | some cj => do pure (some (← str cj)) | none => pure none : P (Option Str))
    let ty ← (match fieldOpt j "type" with | some tj => do pure (some (← str tj)) | none => pure none : P (Option Str))
    match c.cfg.pathConf? cfgName with
    | none => throw "unknown path config"
    | some pc => return result (jopt (jpair jstr jdict)) (c.pathToDictX pc (← fieldStr j "path") ty)
  | "sid_call" => sidCall st j
  | "to_dict" => return result jdict (Query.toDict (← fieldStr j "q"))
  | "to_string" => return result jstr (.ok (Query.toString (← dict (← field j "d"))))
  | "update" => return result jdict (Query.update (← dict (← field j "d")) (← fieldStr j "q"))
  | "apply_query" =>
    return result jsid (c.applyQuery (← fieldStr j "string") (← fieldStr j "q")
      (← fieldStr j "type") (← dict (← field j "fields")))
  | "handle_extension" => return result jstr (.ok (c.handleExtension (← fieldStr j "s")))
  | "extensions" => return result jstr (c.extensions (← fieldStr j "s"))
  | "or_on_path" => return result (jlist jstr) (.ok (Ctx.orOnPath (← fieldStr j "s")))
  | "or_on_query" => return result (jlist jstr) (Ctx.orOnQuery (← fieldStr j "q"))
  | "or_op" => return result (jlist jstr) (Ctx.orOp (← fieldStr j "s"))
  | "expand" =>
    return result (jlist jsid) (c.expand (← fieldStr j "s") (← fieldBoolD j "x" false))
  | "simple_typing" => return result (jlist jsid) (c.simpleTyping (← fieldStr j "s"))
  | "type_narrow" =>
    let x ← sidFrom st (← field j "from")
    return bindE x (fun x => (c.typeNarrow x).map jsid)
  | "extrapolate" =>
    return result (jlist jstr) (.ok (Ctx.extrapolateStrs (← listOf str (← field j "l")) []))
  | "unfold_search" =>
    return result (jlist jsid)
      (c.unfoldSearch (← fieldStr j "s") (← fieldBoolD j "u" false) (← fieldBoolD j "x" false))
  | "make_key" =>
    -- `caching._make_key(args, kwargs)` on string values
    let call : Cache.Call Str := ⟨← listOf str (← field j "args"), ← dict (← field j "kwargs")⟩
    let part : Cache.KeyPart Str → Json
      | .val v => Json.arr #[Json.str "v", jstr v]
      | .mark => Json.arr #[Json.str "mark"]
      | .item n v => Json.arr #[Json.str "i", jstr n, jstr v]
      | .name n => Json.arr #[Json.str "n", jstr n]
    return Json.mkObj [("ok", jlist part (Cache.newKey call))]
  | "cache_history" =>
    -- a history of calls through lru_cache / hit_cache of a function returning `render(call)`
    -- (the empty string, falsy, when the first positional is empty): per call (hit?, result)
    let calls ← listOf (fun cj => do
      return (⟨← listOf str (← field cj "args"), ← dict (← field cj "kwargs")⟩ : Cache.Call Str)) (← field j "calls")
    let max ← (← field j "max").getNat?
    let hit ← fieldBoolD j "hit_cache" false
    let render (c : Cache.Call Str) : Str :=
      if c.args.head? == some [] then [] else
      Str.joinWith ',' c.args ++ ['|'] ++ Str.joinWith ',' ((Cache.sortKw c.kwargs).map (fun p => p.1 ++ '=' :: p.2))
    let step (st : Cache.Store (List (Cache.KeyPart Str)) Str) (c : Cache.Call Str) :=
      let wasHit := (st.lookup (Cache.newKey c)).isSome
      let (st', r) := if hit then Cache.stepHit Cache.newKey render (fun r => !r.isEmpty) max Cache.popitem st c
                      else Cache.stepLru Cache.newKey render max Cache.popitem st c
      (st', Json.arr #[Json.bool wasHit, jstr r])
    return Json.mkObj [("ok", jlist id (Cache.runHist step [] calls))]
  | "glob_match" =>
    return result jbool (Find.globMatch e (← fieldStr j "pat") (← fieldStr j "item"))
  | "find_list" =>
    let f := Find.mkListFinder (← listOf str (← field j "l")) (← fieldBoolD j "x" false)
      (← fieldBoolD j "ps" false) (← fieldBoolD j "st" false)
    let found := c.findInList f (← fieldStr j "s")
    let m ← (← field j "m").getStr?
    match m with
    | "find" => return result (jlist jstr) found
    | "find_one" => return result (jopt jstr) (found.map List.head?)
    | "exists" => return result jbool (found.map (fun l => match l.head? with
        | some s => !s.isEmpty | none => false))
    | _ => throw "bad find mode"
  | "spec_plain" => return result jsid (.ok (Spec.plainSid e c.cfg.sid.templates (← fieldStr j "s")))
  | "spec_forced" =>
    return result jsid (.ok (Spec.forcedSid e c.cfg.sid.templates (← fieldStr j "ty") (← fieldStr j "rest")))
  | "conf_is_demo" =>
    -- is the configuration this driver computes with the very constant the kernel-checked
    -- obligations (Tie.*) speak about?
    return result jbool (.ok (decide (c.cfg = Generated.demoConf) &&
      (List.range 0x3000).all (fun n => e.isDigit (Char.ofNat n) == Generated.demoEnv.isDigit (Char.ofNat n))))
  | "spec_hier_ok" => return result jbool (.ok (Spec.sidHierOk e c.cfg.sid.templates))
  | "spec_table_ok" => return result jbool (.ok (Spec.sidTableOk e c.cfg.sid.templates))
  | "paths_plain" =>
    -- no path configuration uses a typed mapping or extra keys: what this driver computes with
    -- `Spil.Model.PathX` is then `Spil.Model.Path`, the model of the theorems (PathXL.*_eq)
    return result jbool (.ok (c.cfg.paths.all PathConf.plain))
  | "c05_admissible" =>
    -- the hypotheses of C05 on one Sid and its path, evaluated (Spec.admissibleB), together with
    -- "the model renders that path for it"
    let x ← sidFrom st (← field j "from")
    let cfgName ← (match fieldOpt j "config" with | some cj => do pure (some (← str cj)) | none => pure none : P (Option Str))
    let p ← fieldStr j "path"
    match x, c.cfg.pathConf? cfgName with
    | .ok x, some pc =>
      return result jbool (.ok (Spec.admissibleB c pc x p &&
        (match c.sidPath cfgName x with | .ok a => decide (a = some p) | .error _ => false)))
    | _, _ => return result jbool (.ok false)
  | "spec_path_ok" =>
    -- do the path configurations follow the conventions C05 / C06 are proved under?  One pair
    -- (pathConfOk, pathsExclusive) per configured path configuration, in configuration order
    return result (jlist (fun (n, a, b, t) => Json.arr #[jstr n, Json.bool a, Json.bool b, Json.bool t]))
      (.ok (c.cfg.paths.map (fun pc => (pc.name, Spec.pathConfOk e pc,
        Spec.pathsExclusive e c.cfg.sid.searchSymbols pc, Spec.pathTplsOk e pc))))
  | "extrapolate_templates" =>
    return result jdict (.ok (ConfUtil.extrapolateTemplates (← fieldStr j "sep")
      (← dict (← field j "templates")) (← listOf str (← field j "to_extrapolate"))))
  | "pattern_replacing" =>
    return result jdict (.ok (ConfUtil.patternReplacing (← dict (← field j "templates"))
      (← listOf (pairOf str dict) (← field j "key_patterns"))))
  | _ => throw s!"unknown op {op}"

def sortStrs (l : List Str) : List Str := Lst.sortBy Str.lt l

def jrec (r : List (Str × Option Str)) : Json :=
  Json.arr (r.map (fun (k, v) => Json.arr #[jstr k, jopt jstr v])).toArray

def encOf (s : String) : DCtx.Enc := if s == "uri" then .uri else if s == "none" then .none else .str

/-- canonical dump of a world: sorted nodes with kinds, sorted sidecars -/
def dumpWorld (w : World) : Json :=
  let nodes := (sortStrs (w.nodes.map (·.1))).map (fun p =>
    Json.arr #[jstr p, Json.str (match w.kind? p with | some .dir => "dir" | _ => "file")])
  let sides := (sortStrs (w.sidecars.map (·.1))).map (fun p =>
    Json.arr #[jstr p, match w.sidecars.lookup p with
      | some (.data d) => jdict (Lst.sortBy (fun a b => Str.lt a.1 b.1) d)
      | _ => Json.str "corrupt"])
  Json.mkObj [("nodes", Json.arr nodes.toArray), ("sidecars", Json.arr sides.toArray)]

/-- operations on a world (stateful) -/
def worldStep (st : State) (j : Json) : P (State × Json) := do
  let d := st.dctx
  let id ← (← field j "w").getStr?
  let w := st.world id
  let what ← (← field j "do").getStr?
  let config ← optStr (j.getObjValD "config")
  let sidOf (k : String) : P (Except Err Sid) := do return d.ctx.sidOfString (← fieldStr j k)
  match what with
  | "new" => return (st.setWorld id World.empty, Json.mkObj [("ok", true)])
  | "dump" => return (st, Json.mkObj [("ok", dumpWorld w)])
  | "create" | "update" =>
    let attrs ← (match fieldOpt j "data" with | some a => do pure (some (← dict a)) | none => pure none : P (Option Dict))
    let sidStr ← fieldStr j "sid"
    let r := if what == "create" then d.create w config sidStr attrs
             else d.update w config sidStr (attrs.getD [])
    match r with
    | .ok (w', b) => return (st.setWorld id w', Json.mkObj [("ok", b)])
    | .error e => return (st, result (fun (_ : Unit) => Json.null) (.error e))
  | "plant" =>
    -- junk placed directly in the tree: a file, a directory, or a sidecar state
    let p ← fieldStr j "path"
    let kind ← (← field j "kind").getStr?
    match kind with
    | "file" | "dangling" | "linkfile" =>
      -- a dangling link, or a link to a file, is an entry without children: it reads as a file
      match w.touchP p with
      | .ok w' => return (st.setWorld id w', Json.mkObj [("ok", true)])
      | .error e => return (st, result (fun (_ : Unit) => Json.null) (.error e))
    | "relocate" =>
      -- the directory is moved to another volume and a link is left in its place: nothing changes
      return (st, Json.mkObj [("ok", true)])
    | "linkdir" =>
      match w.linkDirP (← fieldStr j "target") p with
      | .ok w' => return (st.setWorld id w', Json.mkObj [("ok", true)])
      | .error e => return (st, result (fun (_ : Unit) => Json.null) (.error e))
    | "dir" =>
      match w.mkdirP p with
      | .ok w' => return (st.setWorld id w', Json.mkObj [("ok", true)])
      | .error e => return (st, result (fun (_ : Unit) => Json.null) (.error e))
    | "corrupt" =>
      let w' := { w with sidecars := (p, Sidecar.corrupt) :: w.sidecars.filter (·.1 != p) }
      return (st.setWorld id w', Json.mkObj [("ok", true)])
    | _ => throw "bad plant kind"
  | "get_data" =>
    let x ← sidOf "sid"
    let attrs ← (match fieldOpt j "attributes" with | some a => listOf str a | none => pure [] : P (List Str))
    let enc := encOf ((j.getObjValD "enc").getStr?.toOption.getD "str")
    return (st, bindE x (fun x => (d.getData w config x attrs enc).map jrec))
  | "getter_paths" =>
    let attrs ← (match fieldOpt j "attributes" with | some a => listOf str a | none => pure [] : P (List Str))
    let enc := encOf ((j.getObjValD "enc").getStr?.toOption.getD "str")
    return (st, result (fun l => jlist jrec l) (d.getFromPaths w config (← fieldStr j "s") attrs enc))
  | "getter_all" =>
    let attrs ← (match fieldOpt j "attributes" with | some a => listOf str a | none => pure [] : P (List Str))
    let enc := encOf ((j.getObjValD "enc").getStr?.toOption.getD "str")
    return (st, result (fun l => jlist jrec l) (d.getFromAll w (← fieldStr j "s") attrs enc))
  | "get_data_all" =>
    let x ← sidOf "sid"
    let attrs ← (match fieldOpt j "attributes" with | some a => listOf str a | none => pure [] : P (List Str))
    let enc := encOf ((j.getObjValD "enc").getStr?.toOption.getD "str")
    return (st, bindE x (fun x => (d.getDataAll w x attrs enc).map jrec))
  | "find_paths" =>
    return (st, result (fun l => jlist jstr (sortStrs l)) (d.findInPaths w config (← fieldStr j "s")))
  | "find_all" =>
    return (st, result (fun l => jlist jstr (sortStrs l)) (d.findInAll w (← fieldStr j "s")))
  | "sid_exists" => let x ← sidOf "sid"; return (st, bindE x (fun x => (d.sidExists w x).map jbool))
  | "children" => let x ← sidOf "sid"; return (st, bindE x (fun x => (d.children w x).map (fun l => jlist jstr (sortStrs l))))
  | "siblings" =>
    let x ← sidOf "sid"
    return (st, bindE x (fun x => (d.siblingsAs w x ((Ctx.keytype x).getD [])).map (fun l => jlist jstr (sortStrs l))))
  | "get_last" =>
    let x ← sidOf "sid"
    let k ← optStr (j.getObjValD "key")
    return (st, bindE x (fun x => (d.getLast w x k).map jsid))
  | "get_next" => let x ← sidOf "sid"; return (st, bindE x (fun x => (d.getNext w x).map jsid))
  | "get_new" => let x ← sidOf "sid"; return (st, bindE x (fun x => (d.getNew w x).map jsid))
  | _ => throw s!"unknown world op {what}"

partial def loop (hin : IO.FS.Stream) (hout : IO.FS.Stream) (st : State) : IO Unit := do
  let line ← hin.getLine
  if line.isEmpty then return ()
  let (st', out) : State × Json :=
    match Json.parse line with
    | .error e => (st, Json.mkObj [("bad", e)])
    | .ok j =>
      if (j.getObjValD "op").getStr?.toOption == some "world" then
        match worldStep st j with
        | .ok r => r
        | .error e => (st, Json.mkObj [("bad", e)])
      else
        match step st j with
        | .ok r => (st, r)
        | .error e => (st, Json.mkObj [("bad", e)])
  hout.putStrLn out.compress
  loop hin hout st'

def main : IO Unit := do
  let hin ← IO.getStdin
  let hout ← IO.getStdout
  let line ← hin.getLine
  match Json.parse line with
  | .error e => throw (IO.userError s!"bad conf line: {e}")
  | .ok j =>
    match (do
        let cj ← field j "conf"
        let c ← conf cj
        let e ← envOf j
        let dc ← dataConf (← field cj "data")
        pure (c, e, dc) : P (Conf × Env × DataConf)) with
    | .error e => throw (IO.userError s!"bad conf: {e}")
    | .ok (c, e, dc) =>
      hout.putStrLn (Json.mkObj [("ok", true)]).compress
      loop hin hout { ctx := { cfg := c, env := e }, data := dc }

end Driver
